#!/bin/bash
# usage: own_eval.sh <name> "<checks>" : applies /verif/seeded/own/<name>.diff to /repo, runs suite + checks, reverts, records result.
N=$1; CHECKS=$2; P=/verif/seeded/own/$N.diff
cd ${MUTREPO:-/repo}; [ -z "$(git status --porcelain --untracked-files=no)" ] || { echo "repo dirty"; exit 2; }
git apply $P || { echo "patch does not apply"; exit 2; }
suite=$(cargo test --workspace --no-fail-fast --offline 2>&1 | grep -E "^test result|^error" | awk '{f+=$6; p+=$4} /^error/{e=1} END{print "passed="p" failed="f" build_error="(e?1:0)}')
echo "$N suite: $suite"
res="{"
for c in $CHECKS; do
  out=$(${MUTCHECK:-/verif/check} $c ${TIER:-quick} 2>&1); code=$?
  first=$(echo "$out" | grep -A1 "^VIOLATION" | grep "oracle=" | head -1 | cut -c1-220)
  echo "  $c -> exit $code $first"
  res="$res\"$c\": {\"exit\": $code, \"first_violation\": $(python3 -c 'import json,sys; print(json.dumps(sys.argv[1]))' "$first")},"
done
git checkout -q -- .
res="${res%,}}"
python3 - "$N" "$suite" "$res" <<'PY'
import json,sys,os
n,suite,res=sys.argv[1:4]
f='/verif/seeded/own/results.json'
d=json.load(open(f)) if os.path.exists(f) else {}
d[n]={"existing_suite_with_change":suite,"checks":json.loads(res)}
json.dump(d,open(f,'w'),indent=1)
PY
