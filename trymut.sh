#!/bin/sh
# usage: trymut.sh <patch.diff> <prop>... : applies the patch to /repo, runs the baseline suite and the quick checks, reverts.
P=$1; shift
cd ${MUTREPO:-/repo} || exit 2
if [ -n "$(git status --porcelain --untracked-files=no)" ]; then echo "repo dirty"; exit 2; fi
git apply "$P" || { echo "patch does not apply"; exit 2; }
if [ -z "$SKIP_BASELINE" ]; then
  echo "--- baseline suite with the change:"; cargo test --workspace --no-fail-fast --offline 2>&1 | grep -E "^test result|FAILED|^error" | sort | uniq -c
fi
for p in "$@"; do
  echo "--- check $p ${TIER:-quick}"; ${MUTCHECK:-/verif/check} $p ${TIER:-quick} 2>&1 | grep -vE "^KNOWN-FINDING" | head -${LINES_SHOWN:-4} | cut -c1-420; echo "exit=$?"
done
git checkout -- . ; git status --porcelain --untracked-files=no
