#!/usr/bin/env python3
"""Prints the prompt for a seeding sub-agent: only the property text and its worktree."""
import json,sys
pid=sys.argv[1]; wt=sys.argv[2]
p=[json.loads(l) for l in open('/verif/properties.jsonl') if json.loads(l)['id']==pid][0]
print(f"""You are helping to evaluate a verification effort by playing the role of a developer who introduces a subtle regression.

Your working copy is a scratch git worktree of the Rust project Gohla/pie (a programmatic incremental build system library: crates `pie`, `pie_graph` (dir graph), `dev_util`, `dev_ext`) at: {wt}
Work ONLY inside that directory (never touch /repo or /verif; do not read anything under /verif). The sandbox has no network; cargo works offline (`cargo test --workspace --offline` inside the worktree runs the existing test suite: 40 unit/integration tests + doctests; use `--offline` always). Every shell command prints a conda warning line first; ignore it.

Here is a semantic property that the library is supposed to satisfy:

  Title: {p['title']}
  Statement: {p['statement']}
  It is meant to hold: {p['quantifier']['text']}

Task: produce TWO different, independent changes (call them A and B) to the library source (files under {wt}/pie/src or {wt}/graph/src), each of which
  1. BREAKS this property (for some input / history / sequence of operations), while
  2. the project still compiles and the existing test suite still passes completely (run it and confirm: `cd {wt} && cargo test --workspace --offline 2>&1 | grep -E "test result|FAILED|error"`), and
  3. looks like a plausible developer mistake or "optimisation" (a realistic regression, not sabotage like `panic!()` or deleting a feature), and
  4. needs something SPECIFIC to manifest — a particular multi-step sequence of operations or sessions, a particular dependency shape, an unusual but legal input, a fault or abort at a particular point, or two cooperating sites that each look fine alone — NOT something that ordinary simple use would expose at once. Prefer changes to internal logic (conditions, ordering, bookkeeping, caching, cursor/index handling) over changes of public signatures.
For each change also write a DEMONSTRATION: a Rust integration test file (e.g. {wt}/pie/tests/seed_demo_a.rs or for the graph crate {wt}/graph/tests/seed_demo_a.rs; you may use the dev-dependencies already available: dev_util, dev_ext, assert_matches, testresult, tempfile via dev_util) that FAILS with the change applied and PASSES on the unchanged code. Verify both directions yourself (use `git diff > file` / `git apply` / `git apply -R` to switch; NEVER use `git stash` (the stash is shared with other worktrees) and keep every temporary file inside your worktree, not in /tmp; the demo test file must be kept out of the library patch). Run the demo with e.g. `cargo test --offline -p pie --test seed_demo_a` (tests that need the feature gate: the `pie` crate has feature `file_hash_checker`; the default test run does not enable it).

Deliverables — create the directory {wt}/_out and put there, for X in {{a, b}}:
  - {wt}/_out/X/patch.diff : `git diff` of the library change ONLY (must apply with `git apply` to a clean checkout of the worktree's HEAD; must not contain the demo test file)
  - {wt}/_out/X/demo.rs : the demonstration test file, plus a line at its top (comment) saying where it must be placed and the exact cargo command to run it
  - {wt}/_out/X/README.md : what the change is, why it breaks the property, what specific situation is needed for it to manifest, and the output you observed for (i) existing suite with the change (all pass), (ii) demo with the change (fails), (iii) demo without the change (passes).
When done, leave the worktree with the library sources UNCHANGED (clean `git status` except for the untracked _out directory and demo files), and do not commit anything. Reply with a short summary of A and B (files touched, what is needed to manifest).""")
