import json,sys,glob
for f in sys.argv[1:]:
    v=json.load(open(f)); r=v['replay']
    print(f.split('/')[-1], '|', v['oracle'], '| key=',v['key']); print('   ', v['what'][:600]); print('   ', r.get('program_short')); print('   ', r.get('history_short'), (r.get('last_step_outcome') or '')[:200])
