#!/bin/bash
# Scratch laboratory for running the checks against changed copies of Gohla/pie without touching /repo:
#   /tmp/mutlab/repo   git worktree of /repo HEAD (patches are applied and reverted here)
#   /tmp/mutlab/verif  copy of the harness whose path dependencies point at /tmp/mutlab/repo
# usage: mutlab.sh sync      (create/refresh both)
set -e
LAB=${LAB:-/tmp/mutlab}
mkdir -p $LAB
if [ ! -d $LAB/repo/.git ] && [ ! -f $LAB/repo/.git ]; then git -C /repo worktree add -q --detach $LAB/repo HEAD; fi
git -C $LAB/repo checkout -q -- . ; git -C $LAB/repo checkout -q --detach $(git -C /repo rev-parse HEAD)
mkdir -p $LAB/verif
rsync -a --delete --exclude target --exclude evidence --exclude replays --exclude tmp --exclude .git --exclude seeded /verif/ $LAB/verif/
sed -i "s#/repo/pie#$LAB/repo/pie#; s#/repo/graph#$LAB/repo/graph#" $LAB/verif/mc/Cargo.toml
sed -i "s#/verif/target#$LAB/verif/target#" $LAB/verif/mc/.cargo/config.toml
echo "mutlab synced at $(git -C $LAB/repo rev-parse --short HEAD)"
