#!/bin/bash
# usage: seed_eval.sh <PROP> <x> "<checks to run>"   e.g. seed_eval.sh C01 a "C01 C19"
# Confirms the seeded change in its scratch worktree (suite passes with it, demo fails with it, demo passes without
# it), runs the given quick checks against it in /repo, reverts, and stores it under /verif/seeded/<PROP>-<x>/.
P=$1; X=$2; CHECKS=$3
WT=/tmp/seed_$P; case "$X" in c|d) WT=/tmp/seed2_$P;; e|f) WT=/tmp/seed3_$P;; g|h) WT=/tmp/seed4_$P;; i|j) WT=/tmp/seed5_$P;; esac; OUT=$WT/_out/$X; DST=/verif/seeded/$P-$X
if [ -f $OUT/patch.diff ]; then
  mkdir -p $DST; cp $OUT/patch.diff $OUT/demo.rs $DST/; cp $OUT/README.md $DST/README.md 2>/dev/null
elif [ -f $DST/patch.diff ]; then
  OUT=$DST; SKIP_DEMO=1   # the scratch worktree is gone: only re-run checks against the stored patch
else
  echo "no patch"; exit 2
fi
if [ -n "$SKIP_DEMO" ] && [ -f $DST/meta.json ]; then
  demo_clean=KEEP; demo_mut=KEEP; suite=KEEP
else
crate=pie; grep -q "graph/tests" $OUT/demo.rs && crate=pie_graph
dir=pie; [ $crate = pie_graph ] && dir=graph
cd $WT || exit 2
git checkout -q -- . ; git clean -fdq -e _out >/dev/null
mkdir -p $dir/tests; cp $OUT/demo.rs $dir/tests/seed_demo_$X.rs
feat=""; grep -q "file_hash_checker\|HashChecker" $OUT/demo.rs && feat="--features file_hash_checker"
demo_clean=$(cargo test --offline -p $crate $feat --test seed_demo_$X 2>&1 | grep -E "^test result" | head -1)
git apply $OUT/patch.diff || { echo "patch does not apply in worktree"; exit 2; }
demo_mut=$(cargo test --offline -p $crate $feat --test seed_demo_$X 2>&1 | grep -E "^test result|error\[" | head -1)
rm -f $dir/tests/seed_demo_$X.rs
suite=$(cargo test --workspace --no-fail-fast --offline 2>&1 | grep -E "^test result|^error" | awk '{f+=$6; p+=$4} /^error/{e=1} END{print "passed="p" failed="f" build_error="(e?1:0)}')
git checkout -q -- . 
fi
echo "demo on clean tree : $demo_clean"; echo "demo with change   : $demo_mut"; echo "suite with change  : $suite"
# now against /repo
cd ${MUTREPO:-/repo}; [ -z "$(git status --porcelain --untracked-files=no)" ] || { echo "repo dirty"; exit 2; }
git apply $OUT/patch.diff || { echo "patch does not apply to /repo"; exit 2; }
results="{"
for c in $CHECKS; do
  out=$(VERIF_WALL=${VERIF_WALL:-$([ "${TIER:-quick}" = quick ] && echo 300 || echo 3000)} ${MUTCHECK:-/verif/check} $c ${TIER:-quick} 2>&1); code=$?
  first=$(echo "$out" | grep -A1 "^VIOLATION" | grep "oracle=" | head -1 | cut -c1-300)
  echo "check $c ${TIER:-quick} -> exit $code ${first}"
  results="$results\"$c\": {\"exit\": $code, \"first_violation\": $(python3 -c 'import json,sys; print(json.dumps(sys.argv[1]))' "$first")},"
done
git checkout -q -- .; git status --porcelain --untracked-files=no
results="${results%,}}"
python3 - "$P" "$X" "$demo_clean" "$demo_mut" "$suite" "$results" <<'PY'
import json,sys
P,X,dc,dm,suite,res=sys.argv[1:7]
readme=open(f'/verif/seeded/{P}-{X}/README.md').read() if __import__('os').path.exists(f'/verif/seeded/{P}-{X}/README.md') else ''
import os
mf=f'/verif/seeded/{P}-{X}/meta.json'
tier=os.environ.get('TIER','quick')
if dc=='KEEP' and os.path.exists(mf):
    meta=json.load(open(mf))
else:
    meta={"breaks_property":P,"variant":X,"origin":"independent sub-agent given only the property text and a scratch worktree",
     "confirmed":{"demo_on_clean_tree":dc,"demo_with_change":dm,"existing_suite_with_change":suite},
     "quick_checks_run_against_it":{},
     "needs_to_manifest":"see README.md (written by the seeding agent)"}
key='quick_checks_run_against_it' if tier=='quick' else 'thorough_checks_run_against_it'
meta.setdefault(key,{}).update(json.loads(res))
json.dump(meta,open(f'/verif/seeded/{P}-{X}/meta.json','w'),indent=1)
PY
