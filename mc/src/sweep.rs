//! Depth sweep: require chains far longer than any enumerated program (a size threshold in the validation or
//! scheduling code -- a nesting limit, a fixed-size table -- is invisible to programs with up to four tasks).
//! For EVERY chain length n in the stated range and both checker variants, one fixed history is executed on the
//! real Pie and judged against the closed-form expectation (which tasks run in which session, which output comes
//! back). Exhaustive over n within the range; no analyzer, no state search.

use serde_json::{json, Value};

use crate::common::{Report, Violation};
use crate::prog::*;
use crate::runner::{run_history, Event, Outcome, PEvent, Step};
use crate::world::Ev;

fn st(op: Op) -> Stmt { Stmt { guard: None, op } }

/// T0 -> T1 -> ... -> T(n-1) -> r0, every require with `oc`.
pub fn chain(n: usize, oc: OC) -> Prog {
  let mut bodies = Vec::new();
  for i in 0..n {
    if i + 1 < n { bodies.push(vec![st(Op::Req((i + 1) as Tid, oc))]); } else { bodies.push(vec![st(Op::Read(0, RC::Exact))]); }
  }
  Prog { n_res: 1, bodies }
}

pub fn history() -> Vec<PEvent> {
  let p = PEvent::plain;
  vec![
    p(Event::TopDown(vec![0])),                 // 0: everything executes, top first
    p(Event::TopDown(vec![0])),                 // 1: nothing executes
    p(Event::Set(0, Some(1))),
    p(Event::TopDown(vec![0])),                 // 3: the change travels up (exact) / stops at the leaf (always-consistent)
    p(Event::Set(0, Some(0))),
    p(Event::BottomUp { pre: vec![], reported: vec![0], then: vec![], builds: 1 }), // 5: same, bottom-up
    p(Event::TopDown(vec![0])),                 // 6: nothing executes
  ]
}

fn entered(st: &Step) -> Vec<Tid> { st.log.iter().filter_map(|e| if let Ev::Enter(t) = e { Some(*t) } else { None }).collect() }

/// Returns (oracle, what) for the first deviation.
pub fn judge(n: usize, oc: OC, steps: &[Step]) -> Option<(String, String)> {
  let exact = oc.is_exact();
  let all_down: Vec<Tid> = (0..n as Tid).collect();
  let all_up: Vec<Tid> = (0..n as Tid).rev().collect();
  let leaf = vec![(n - 1) as Tid];
  // output of the root: with exact requires the leaf's observation travels up; with always-consistent requires every
  // task above the leaf returns the initial accumulator 0
  let root_out = |cell: Cell| -> u8 { if exact || n == 1 { RC::Exact.observe(cell).unwrap() } else { 0 } };
  let expect: [(usize, Vec<Tid>, Option<u8>); 5] = [
    (0, all_down.clone(), Some(root_out(None))),
    (1, vec![], Some(root_out(None))),
    (3, if exact { all_up.clone() } else { leaf.clone() }, Some(root_out(Some(1)))),
    (5, if exact { all_up.clone() } else { leaf.clone() }, None),
    (6, vec![], Some(root_out(Some(0)))),
  ];
  for (i, tasks, out) in expect.iter() {
    let s = &steps[*i];
    match &s.outcome {
      Outcome::Returned(outs) => {
        if let Some(o) = out { if outs != &vec![*o] { return Some(("output".into(), format!("chain of {} tasks ({:?}), step {}: root returned {:?}, expected [{}]", n, oc, i, outs, o))); } }
      }
      other => return Some(("abort".into(), format!("chain of {} tasks ({:?}), step {}: build did not return: {:?}", n, oc, i, other))),
    }
    let e = entered(s);
    if &e != tasks {
      let mut sorted = e.clone(); sorted.sort();
      let mut want = tasks.clone(); want.sort();
      let kind = if sorted == want { "execution-order" } else if e.len() > tasks.len() { "unjustified-execution" } else { "missing-execution" };
      return Some((kind.into(), format!("chain of {} tasks ({:?}), step {}: executed {} task(s) {:?}..., expected {} ({:?}...)", n, oc, i, e.len(), &e[..e.len().min(6)], tasks.len(), &tasks[..tasks.len().min(6)])));
    }
  }
  None
}

pub fn run_case(n: usize, oc: OC) -> Option<(String, String)> {
  let prog = chain(n, oc);
  let steps = run_history(&prog, &history());
  judge(n, oc, &steps)
}

fn on_big_stack<T: Send>(f: impl FnOnce() -> T + Send) -> T {
  std::thread::scope(|s| std::thread::Builder::new().stack_size(512 << 20).spawn_scoped(s, f).expect("spawn").join().expect("sweep thread"))
}

/// Runs the sweep for every n in 1..=max_n and both checker variants; violations go to the report.
pub fn run(rep: &mut Report, property: &str, max_n: usize) -> Value {
  crate::runner::install_panic_hook();
  let mut cases = 0usize;
  let mut found: Vec<Violation> = Vec::new();
  on_big_stack(|| {
    for n in 1..=max_n {
      for oc in [OC::Equals, OC::PieEquals, OC::PieAlways] {
        cases += 1;
        if found.len() >= 2 { continue; }
        if let Some((oracle, what)) = run_case(n, oc) {
          found.push(Violation { property: property.to_string(), oracle: format!("{}/depth-sweep/{}", property, oracle), key: String::new(), what,
            replay: json!({"engine": "depth-sweep", "n": n, "checker": oc.name()}) });
        }
      }
    }
  });
  for v in found { rep.violation(v); }
  json!({"chain_lengths": format!("1..={}", max_n), "checker_variants": ["Equals", "PieEquals", "PieAlways"], "cases": cases,
    "history": history().iter().map(|p| p.to_string()).collect::<Vec<_>>(),
    "oracle": "closed form: which tasks execute in which session and in which order, and the root's output"})
}

pub fn replay(rep: &mut Report, property: &str, r: &Value) -> bool {
  if r.get("engine").and_then(|e| e.as_str()) != Some("depth-sweep") { return false; }
  crate::runner::install_panic_hook();
  let n = r.get("n").and_then(|n| n.as_u64()).unwrap_or(1) as usize;
  let oc = match r.get("checker").and_then(|c| c.as_str()) { Some("PieAlways") => OC::PieAlways, Some("PieEquals") => OC::PieEquals, _ => OC::Equals };
  let (a, b) = on_big_stack(|| (run_case(n, oc), run_case(n, oc)));
  if a != b { crate::common::engine_error("the two replays of the depth-sweep case differ: not a verdict"); }
  match a {
    Some((oracle, what)) => rep.violation(Violation { property: property.to_string(), oracle: format!("{}/depth-sweep/{}", property, oracle), key: String::new(), what, replay: r.clone() }),
    None => println!("replay: no violation"),
  }
  true
}
