//! Per-property drivers of the history explorer: program slice, event alphabet, bounds per tier.

use serde_json::{json, Value};

use crate::analyze::Prop;
use crate::common::{engine_error, Args, Report, Tier, Violation};
use crate::enumerate::{enumerate, EnumCfg};
use crate::hist::*;
use crate::m1::{classify, Class};
use crate::prog::*;
use crate::runner::PEvent;

fn st(op: Op) -> Stmt { Stmt { guard: None, op } }
fn sg(g: u8, op: Op) -> Stmt { Stmt { guard: Some(g), op } }

/// Named shape programs (DESIGN §3.6): always included; witnesses of the defects and findings of §6 among them.
pub fn shape_programs() -> Vec<(&'static str, Prog)> {
  use Op::*;
  let e = RC::Exact;
  let q = OC::Equals;
  vec![
    ("chain3", Prog { n_res: 1, bodies: vec![vec![st(Req(1, q))], vec![st(Req(2, q))], vec![st(Read(0, e))]] }),
    ("diamond", Prog { n_res: 1, bodies: vec![vec![st(Req(1, q)), st(Req(2, q))], vec![st(Req(3, q))], vec![st(Req(3, q))], vec![st(Read(0, e))]] }),
    ("conditional-require", Prog { n_res: 2, bodies: vec![vec![st(Read(0, e)), sg(1, Req(1, q))], vec![st(Read(1, e))]] }),
    ("writer-reader", Prog { n_res: 2, bodies: vec![vec![st(Req(1, q)), st(Read(0, e))], vec![st(Read(1, e)), st(Write(0, Src::Acc, e))]] }),
    ("conditional-generate", Prog { n_res: 2, bodies: vec![vec![st(Req(1, q)), st(Read(0, e))], vec![st(Read(1, e)), sg(1, Write(0, Src::One, e))]] }),
    // D1 witness: A requires B; B panics while r0 == 1
    ("d1-abort-in-callee", Prog { n_res: 1, bodies: vec![vec![st(Req(1, q))], vec![st(Read(0, e)), sg(1, Panic)]] }),
    // D2 witness: T0: Read r0; if acc==1 Req T1; Read r0   T1: Read r1
    ("d2-reinserted-edge", Prog { n_res: 2, bodies: vec![vec![st(Read(0, e)), sg(1, Req(1, q)), st(Read(0, e))], vec![st(Read(1, e))]] }),
    // F1 witness: A requires B; B reads r0
    ("f1-stale-requirer", Prog { n_res: 1, bodies: vec![vec![st(Req(1, q))], vec![st(Read(0, e))]] }),
    // F3 overlap witness: role swap of the writer of r0 depending on r1
    ("f3-writer-role-swap", Prog { n_res: 2, bodies: vec![vec![st(Read(1, e)), sg(1, Write(0, Src::One, e))], vec![st(Read(1, e)), sg(0, Write(0, Src::Acc, e))]] }),
    // F3 cycle witness
    ("f3-require-role-swap", Prog { n_res: 1, bodies: vec![vec![st(Read(0, e)), sg(1, Req(1, q))], vec![st(Read(0, e)), sg(0, Req(0, q))]] }),
    // F3 hidden-read witness
    ("f3-reader-of-dropped-generator", Prog { n_res: 2, bodies: vec![vec![st(Read(0, e)), sg(1, Write(1, Src::Acc, e))], vec![st(Read(0, e)), sg(1, Req(0, q)), st(Read(1, e))]] }),
    ("self-loop", Prog { n_res: 0, bodies: vec![vec![st(Req(0, q))]] }),
    ("two-cycle", Prog { n_res: 0, bodies: vec![vec![st(Req(1, q))], vec![st(Req(0, q))]] }),
    ("three-cycle", Prog { n_res: 0, bodies: vec![vec![st(Req(1, q))], vec![st(Req(2, q))], vec![st(Req(0, q))]] }),
    ("value-dependent-cycle", Prog { n_res: 1, bodies: vec![vec![st(Req(1, q))], vec![st(Read(0, e)), sg(1, Req(0, q))]] }),
    ("hidden-read", Prog { n_res: 1, bodies: vec![vec![st(Read(0, e))], vec![st(Write(0, Src::One, e))]] }),
    ("overlap", Prog { n_res: 1, bodies: vec![vec![st(Write(0, Src::One, e))], vec![st(Write(0, Src::Zero, e))]] }),
    ("overlap-declared", Prog { n_res: 1, bodies: vec![vec![st(WriteDecl(0, Src::One, e))], vec![st(WriteDecl(0, Src::Zero, e))]] }),
  ]
}

#[derive(Clone, Copy, PartialEq, Eq, Debug)]
pub enum Slice { Wf, Viol, All, WfOrViol, WfOrPanic }

fn in_slice(class: &Class, slice: Slice) -> bool {
  let f = &class.flags;
  let excluded = f.read_before_generate || f.self_conflict || f.multi_dep || f.task_panic;
  match slice {
    Slice::Wf => class.wf(),
    Slice::WfOrPanic => { let mut g = *f; g.task_panic = false; !g.any() }
    Slice::Viol => !excluded && f.any_violation(),
    Slice::WfOrViol | Slice::All => !excluded,
  }
}

/// Builds the program list: enumerated spaces (canonical, smallest first) + shape programs, filtered by slice.
pub fn programs_for(cfgs: &[EnumCfg], slice: Slice, with_shapes: bool, extra_filter: &dyn Fn(&Prog) -> bool) -> Vec<(Prog, Class)> {
  let mut out: Vec<(Prog, Class)> = Vec::new();
  let mut seen = std::collections::BTreeSet::new();
  if with_shapes {
    for (_, p) in shape_programs() {
      let c = classify(&p);
      let ok = if p.bodies.iter().flatten().any(|s| s.op == Op::Panic) && slice != Slice::WfOrPanic { false } else { in_slice(&c, slice) };
      if ok && extra_filter(&p) && seen.insert(p.clone()) { out.push((p, c)); }
    }
  }
  for cfg in cfgs {
    let ps = enumerate(cfg, |p| extra_filter(p));
    for p in ps {
      if seen.contains(&p) { continue; }
      let c = classify(&p);
      if in_slice(&c, slice) { seen.insert(p.clone()); out.push((p, c)); }
    }
  }
  out
}

fn has_op(p: &Prog, f: impl Fn(&Op) -> bool) -> bool { p.bodies.iter().flatten().any(|s| f(&s.op)) }

/// A program is interesting for incremental behaviour only if something can change: it reads a resource.
fn reads_something(p: &Prog) -> bool { has_op(p, |o| matches!(o, Op::Read(..))) }

pub fn run(args: &Args) -> i32 {
  let Some(prop) = Prop::from_str(&args.property) else { engine_error("unknown property for the history engine") };
  let mut rep = Report::new(args);
  if let Some(file) = &args.replay { return replay(args, prop, file, rep); }
  let quick = args.tier == Tier::Quick;
  let mut cfg = HistCfg {
    prop, max_roots: 2, bottom_up: true, bu_then: false, bu_pre: false, bu_over_report: false, set_fail: false, crashes: 0,
    depth: if quick { 4 } else { 6 }, state_cap: 0, probe: false, scope_in_key: true,
    wall_cap: if quick { 40.0 } else { 1500.0 },
  };
  let mut slice = Slice::Wf;
  let mut map_faulty = false;
  let mut enum_cfgs: Vec<EnumCfg> = if quick {
    vec![EnumCfg::structural(2, 2, 3)]
  } else {
    vec![EnumCfg::structural(2, 2, 4), EnumCfg::structural(3, 2, 3)]
  };
  let filter: Box<dyn Fn(&Prog) -> bool> = Box::new(|p| reads_something(p));
  match prop {
    Prop::C01 | Prop::C02 => {}
    Prop::C03 | Prop::C04 => { cfg.probe = prop == Prop::C03; cfg.bu_over_report = true; cfg.bu_then = !quick; cfg.bu_pre = !quick; cfg.max_roots = if quick { 1 } else { 2 }; }
    Prop::C05 | Prop::C06 | Prop::C07 | Prop::C20 => { slice = Slice::WfOrViol; }
    Prop::C08 => {}
    Prop::C09 => {
      let mut e = EnumCfg::structural(2, 2, if quick { 2 } else { 3 });
      e.ocs = vec![OC::Equals, OC::IsZero, OC::Always, OC::PieEquals];
      e.read_rcs = vec![RC::Exact, RC::Exists, RC::Always];
      e.write_rcs = vec![RC::Exact, RC::Exists, RC::Always];
      e.write_decl = true;
      enum_cfgs.push(e);
    }
    Prop::C18 => { cfg.set_fail = true; map_faulty = true; }
    Prop::C19 => {
      slice = Slice::WfOrPanic;
      cfg.crashes = if quick { 1 } else { 2 };
      let mut e = EnumCfg::structural(2, 1, if quick { 3 } else { 4 });
      e.panic_op = true;
      enum_cfgs.push(e);
    }
    Prop::C17 => { slice = Slice::WfOrViol; cfg.bu_then = true; crate::runner::set_helper_mode_global(true); }
    _ => {}
  }
  let _ = &mut enum_cfgs;
  let mut programs = programs_for(&enum_cfgs, slice, true, &*filter);
  if map_faulty {
    // C18: every resource dependency uses the error-injecting checker (= Exact while its failure flag is clear).
    for (p, _) in programs.iter_mut() {
      for s in p.bodies.iter_mut().flatten() {
        s.op = match s.op {
          Op::Read(r, _) => Op::Read(r, RC::Faulty),
          Op::Write(r, src, _) => Op::Write(r, src, RC::Faulty),
          Op::WriteDecl(r, src, _) => Op::WriteDecl(r, src, RC::Faulty),
          o => o,
        };
      }
    }
  }
  let stats = run_programs(&mut rep, &cfg, programs.clone(), threads());
  let rule = format!(
    "programs: all canonical programs (modulo task/resource renaming, dead and redundant guards removed) of the task language with {} plus the named shape programs, restricted to slice {:?} as classified by the from-scratch reference model; per program breadth-first search over events (Set(r,v), TopDown(1..{} distinct roots), BottomUp(reported ⊇ dirty)) on the real Pie, states deduplicated on the exact store dump + cells + scope bookkeeping; a step trace is distinct by its digest",
    enum_cfgs.iter().map(|c| c.describe()).collect::<Vec<_>>().join(" | "), slice, cfg.max_roots);
  let samples = sample_histories(&programs);
  fill_evidence(&mut rep, &cfg, &stats, &programs, &rule, samples);
  rep.assume("task bodies are deterministic functions of what their checkers observe (true by construction of the interpreter)");
  rep.assume("values {absent,0,1}, at most 4 tasks and 2-3 resources, sizes as stated in bounds; larger programs are not covered");
  rep.finish()
}

fn sample_histories(programs: &[(Prog, Class)]) -> Vec<Value> {
  let mut v = Vec::new();
  if let Some((p, _)) = programs.iter().find(|(p, _)| p.n_tasks() >= 2 && p.size() >= 3) {
    v.push(json!({"program": p.short(), "example_history": ["Set(r0,1)", "TopDown[T0]", "Set(r0,0)", "TopDown[T0,T1]"], "note": "every event sequence up to the depth bound is explored, this is one of them"}));
  }
  v
}

fn replay(args: &Args, prop: Prop, file: &std::path::Path, mut rep: Report) -> i32 {
  let text = std::fs::read_to_string(file).unwrap_or_else(|e| engine_error(&format!("cannot read {}: {}", file.display(), e)));
  let v: Value = serde_json::from_str(&text).unwrap_or_else(|e| engine_error(&format!("replay file does not parse: {}", e)));
  let r = v.get("replay").unwrap_or(&v);
  let prog = Prog::from_json(r.get("program").unwrap_or(&Value::Null)).unwrap_or_else(|e| engine_error(&format!("replay program: {}", e)));
  let path: Vec<PEvent> = r.get("history").and_then(|h| h.as_array()).unwrap_or_else(|| engine_error("replay history missing"))
    .iter().map(|e| PEvent::from_json(e).unwrap_or_else(|e| engine_error(&format!("replay event: {}", e)))).collect();
  let class = classify(&prog);
  let cfg = HistCfg {
    prop, max_roots: 3, bottom_up: true, bu_then: true, bu_pre: true, bu_over_report: true, set_fail: true, crashes: 2, depth: path.len(),
    state_cap: 0, probe: prop == Prop::C03, scope_in_key: true, wall_cap: 60.0,
  };
  install();
  let crashes = path.iter().filter(|p| p.crash_at.is_some()).count();
  let a = judge_path(&prog, class, &cfg, &path, crashes);
  let b = judge_path(&prog, class, &cfg, &path, crashes);
  let da: Vec<u64> = a.steps.iter().map(step_digest).collect();
  let db: Vec<u64> = b.steps.iter().map(step_digest).collect();
  if da != db || a.findings != b.findings {
    if prop == Prop::C16 {
      rep.violation(Violation { property: "C16".into(), oracle: "C16/replay-divergence".into(), key: String::new(), what: "two replays of the same history differ".into(), replay: r.clone() });
    } else {
      engine_error("the two replays of the history differ: not a verdict");
    }
  }
  for st in &a.steps { println!("  {} -> {:?}", st.pev.to_string(), st.outcome); }
  for f in &a.findings {
    rep.violation(Violation { property: prop.name().into(), oracle: f.oracle.clone(), key: f.key.clone(), what: f.what.clone(), replay: r.clone() });
  }
  if a.findings.is_empty() { println!("replay: no violation"); }
  rep.set("states", json!(a.steps.len() + 1));
  rep.set("transitions", json!(a.steps.len()));
  rep.set("traces_validated_against_impl", json!(a.steps.len()));
  rep.set("samples", json!([{"program": prog.short(), "history": path_strings(&path)}]));
  rep.set("exhaustive", json!(false));
  rep.set("rule", json!("replay of one recorded history, executed twice with identical observations required"));
  let _ = args;
  rep.finish()
}

fn install() { crate::runner::install_panic_hook(); }
