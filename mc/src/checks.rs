//! Per-property drivers of the history explorer: program slice, event alphabet, bounds per tier.

use serde_json::{json, Value};

use crate::analyze::Prop;
use crate::common::{engine_error, Args, Report, Tier, Violation};
use crate::enumerate::{enumerate, EnumCfg};
use crate::hist::*;
use crate::m1::{classify, Class};
use crate::prog::*;
use crate::runner::PEvent;

fn st(op: Op) -> Stmt { Stmt { guard: None, op } }
fn sg(g: u8, op: Op) -> Stmt { Stmt { guard: Some(g), op } }

/// Named shape programs (DESIGN §3.6): always included; witnesses of the defects and findings of §6 among them.
pub fn shape_programs() -> Vec<(&'static str, Prog)> {
  use Op::*;
  let e = RC::Exact;
  let q = OC::Equals;
  vec![
    ("chain3", Prog { n_res: 1, bodies: vec![vec![st(Req(1, q))], vec![st(Req(2, q))], vec![st(Read(0, e))]] }),
    ("diamond", Prog { n_res: 1, bodies: vec![vec![st(Req(1, q)), st(Req(2, q))], vec![st(Req(3, q))], vec![st(Req(3, q))], vec![st(Read(0, e))]] }),
    ("conditional-require", Prog { n_res: 2, bodies: vec![vec![st(Read(0, e)), sg(1, Req(1, q))], vec![st(Read(1, e))]] }),
    ("writer-reader", Prog { n_res: 2, bodies: vec![vec![st(Req(1, q)), st(Read(0, e))], vec![st(Read(1, e)), st(Write(0, Src::Acc, e))]] }),
    ("conditional-generate", Prog { n_res: 2, bodies: vec![vec![st(Req(1, q)), st(Read(0, e))], vec![st(Read(1, e)), sg(1, Write(0, Src::One, e))]] }),
    // D1 witness: A requires B; B panics while r0 == 1
    ("d1-abort-in-callee", Prog { n_res: 1, bodies: vec![vec![st(Req(1, q))], vec![st(Read(0, e)), sg(1, Panic)]] }),
    // D2 witness: T0: Read r0; if acc==1 Req T1; Read r0   T1: Read r1
    ("d2-reinserted-edge", Prog { n_res: 2, bodies: vec![vec![st(Read(0, e)), sg(1, Req(1, q)), st(Read(0, e))], vec![st(Read(1, e))]] }),
    // F1 witness: A requires B; B reads r0
    ("f1-stale-requirer", Prog { n_res: 1, bodies: vec![vec![st(Req(1, q))], vec![st(Read(0, e))]] }),
    // F3 overlap witness: role swap of the writer of r0 depending on r1
    ("f3-writer-role-swap", Prog { n_res: 2, bodies: vec![vec![st(Read(1, e)), sg(1, Write(0, Src::One, e))], vec![st(Read(1, e)), sg(0, Write(0, Src::Acc, e))]] }),
    // F3 cycle witness
    ("f3-require-role-swap", Prog { n_res: 1, bodies: vec![vec![st(Read(0, e)), sg(1, Req(1, q))], vec![st(Read(0, e)), sg(0, Req(0, q))]] }),
    // F3 hidden-read witness
    ("f3-reader-of-dropped-generator", Prog { n_res: 2, bodies: vec![vec![st(Read(0, e)), sg(1, Write(1, Src::Acc, e))], vec![st(Read(0, e)), sg(1, Req(0, q)), st(Read(1, e))]] }),
    // F2 witness: two dependencies with different checkers on one target
    ("f2-two-checkers", Prog { n_res: 1, bodies: vec![vec![st(Read(0, RC::Exists)), st(Read(0, e))]] }),
    ("self-loop", Prog { n_res: 0, bodies: vec![vec![st(Req(0, q))]] }),
    ("two-cycle", Prog { n_res: 0, bodies: vec![vec![st(Req(1, q))], vec![st(Req(0, q))]] }),
    ("three-cycle", Prog { n_res: 0, bodies: vec![vec![st(Req(1, q))], vec![st(Req(2, q))], vec![st(Req(0, q))]] }),
    ("value-dependent-cycle", Prog { n_res: 1, bodies: vec![vec![st(Req(1, q))], vec![st(Read(0, e)), sg(1, Req(0, q))]] }),
    ("hidden-read", Prog { n_res: 1, bodies: vec![vec![st(Read(0, e))], vec![st(Write(0, Src::One, e))]] }),
    ("overlap", Prog { n_res: 1, bodies: vec![vec![st(Write(0, Src::One, e))], vec![st(Write(0, Src::Zero, e))]] }),
    ("overlap-declared", Prog { n_res: 1, bodies: vec![vec![st(WriteDecl(0, Src::One, e))], vec![st(WriteDecl(0, Src::Zero, e))]] }),
  ]
}

/// Template family "transitive generator/consumer": Use (T0) -> Mid (T1) -> Gen (T2); Gen writes r0 (from source r1),
/// Use reads r0. The properties speak of TRANSITIVE requires between reader and generator; enumeration by size does not
/// reach three tasks with five to seven statements, so every combination of a few variants per role is taken instead.
pub fn transitive_family() -> Vec<Prog> {
  use Op::*;
  let e = RC::Exact;
  let a = OC::PieAlways;
  let q = OC::Equals;
  let gens: Vec<Vec<Stmt>> = vec![
    vec![st(Write(0, Src::One, e))],
    vec![st(Read(1, e)), st(Write(0, Src::Acc, e))],
    vec![st(Read(1, e)), sg(1, Write(0, Src::One, e))],
    vec![st(Read(1, e)), st(WriteDecl(0, Src::Acc, e))],
  ];
  let mids: Vec<Vec<Stmt>> = vec![
    vec![st(Req(2, a))],
    vec![st(Req(2, q))],
    vec![st(Read(1, e)), st(Req(2, a))],
    vec![st(Read(1, e)), sg(1, Req(2, a))],
  ];
  let uses: Vec<Vec<Stmt>> = vec![
    vec![st(Req(1, a)), st(Read(0, e))],
    vec![st(Req(1, q)), st(Read(0, e))],
    vec![st(Read(1, e)), st(Req(1, a)), st(Read(0, e))],
    vec![st(Read(1, e)), sg(1, Req(1, a)), sg(1, Read(0, e))],
    vec![st(Read(0, e))],
    vec![st(Req(2, a)), st(Read(0, e))],
  ];
  let mut out = Vec::new();
  for u in &uses { for m in &mids { for g in &gens {
    out.push(Prog { n_res: 2, bodies: vec![u.clone(), m.clone(), g.clone()] });
  } } }
  // generators whose LAST recorded dependency is not their write (a read of a third resource or a require after the
  // write): the write edge sits in the middle of the generator's outgoing edges
  for u in [vec![st(Req(1, a)), st(Read(0, e))], vec![st(Req(1, q)), st(Read(0, e))]] {
    for g in [
      vec![st(Read(1, e)), st(Write(0, Src::Acc, e)), st(Read(2, e))],
      vec![st(Read(1, e)), st(WriteDecl(0, Src::Acc, e)), st(Read(2, RC::Exists))],
      vec![st(Read(2, e)), st(Read(1, e)), st(Write(0, Src::Acc, e)), st(Read(2, e))],
    ] {
      out.push(Prog { n_res: 3, bodies: vec![u.clone(), g] });
    }
    for g in [
      vec![st(Read(1, e)), st(Write(0, Src::Acc, e)), st(Req(2, a))],
      vec![st(Req(2, a)), st(Read(1, e)), st(Write(0, Src::Acc, e)), st(Req(2, a))],
    ] {
      out.push(Prog { n_res: 2, bodies: vec![u.clone(), g.clone(), vec![]] });
      out.push(Prog { n_res: 2, bodies: vec![u.clone(), g, vec![st(Read(1, e))]] });
    }
  }
  out
}

fn product(roles: &[Vec<Vec<Stmt>>], n_res: u8) -> Vec<Prog> {
  let mut out: Vec<Vec<Vec<Stmt>>> = vec![Vec::new()];
  for role in roles {
    let mut next = Vec::new();
    for partial in &out {
      for v in role {
        let mut p = partial.clone();
        p.push(v.clone());
        next.push(p);
      }
    }
    out = next;
  }
  out.into_iter().map(|bodies| Prog { n_res, bodies }).collect()
}

/// Order family (staged exploration, `Group::staged`): four tasks whose require structure depends on a "mode"
/// resource (r1, the last one), so that a first stage of top-down builds under different modes creates the tasks in
/// different orders and with different topological ranks; the second stage then changes r0 / r1 and builds bottom-up.
/// What the bottom-up queue does with several scheduled tasks depends on those ranks (which unrelated task is popped
/// between two related ones), and sizes/depths reachable by plain enumeration cannot set them up.
pub fn order_family() -> Vec<Prog> {
  use Op::*;
  let e = RC::Exact;
  let a = OC::PieAlways;
  let q = OC::Equals;
  let mut out = Vec::new();
  // (A) Combine(T0) requires LowB(T1) and, in mode 1 (or always), LowA(T2); Top(T3) starts requiring Combine when r0
  //     becomes 1: dynamic require of a task whose dependencies are partly executed, partly still scheduled.
  out.extend(product(&[
    vec![
      vec![st(Read(1, e)), sg(1, Req(2, a)), st(Req(1, q))],
      vec![st(Read(1, e)), sg(1, Req(2, a)), st(Req(1, a)), st(Read(0, e))],
      vec![st(Req(1, q)), st(Req(2, a))],
    ],
    vec![vec![st(Read(0, e))], vec![st(Read(1, e)), st(Read(0, e))]],
    vec![vec![st(Read(0, e))], vec![st(Read(0, RC::Exists))]],
    vec![vec![st(Read(0, e)), sg(1, Req(0, q))], vec![st(Read(0, e)), sg(1, Req(0, a))], vec![st(Read(0, e)), st(Req(0, q))]],
  ], 2));
  // (B) Reader(T0) requires X(T1) and reads r0; X in mode 1 newly requires Gen(T2, writes r0) and Other(T3, reads the
  //     mode as well, so it is scheduled next to X): new task + nested execution of a scheduled task within one execution.
  out.extend(product(&[
    vec![vec![st(Req(1, a)), st(Read(0, e))], vec![st(Req(1, q)), st(Read(0, e))]],
    vec![
      vec![st(Read(1, e)), sg(1, Req(2, a)), sg(1, Req(3, a))],
      vec![st(Read(1, e)), sg(1, Req(3, a)), sg(1, Req(2, a))],
      vec![st(Read(1, e)), sg(1, Req(2, a)), st(Req(3, a))],
    ],
    // (the generator only writes in mode 1: as a root of its own in another mode it must not conflict with the reader)
    vec![vec![st(Read(1, e)), sg(1, Write(0, Src::One, e))], vec![st(Read(1, e)), sg(1, WriteDecl(0, Src::One, e))]],
    vec![vec![st(Read(1, e))], vec![st(Read(1, RC::Exists))]],
  ], 2));
  // (D) Top(T0) starts requiring Upper(T1) -> Lower(T2) -> Leaf(T3) -> r0 when r0 becomes 1: a dynamic require of a task
  //     whose only scheduled dependency is two levels down (Top must be ranked so that it is popped first)
  out.extend(product(&[
    vec![vec![st(Read(0, e)), sg(1, Req(1, q))], vec![st(Read(0, e)), sg(1, Req(1, a))]],
    vec![vec![st(Req(2, q))]],
    vec![vec![st(Req(3, q))]],
    vec![vec![st(Read(0, e))], vec![st(Read(0, RC::Exists))]],
  ], 1));
  // (C) Mid(T0) -> Leaf(T1) -> r0; Top(T2) -> {Leaf, Sub(T3) -> Mid}; when r0 becomes 1, Leaf requires Mid: a cycle
  //     that closes only after earlier sessions inserted edges whose endpoints' neighbourhoods interleave in rank
  //     (violating programs: only in the slices of C05-C07, C16, C17, C20).
  out.extend(product(&[
    vec![vec![st(Req(1, a))], vec![st(Req(1, q))]],
    vec![vec![st(Read(0, e)), sg(1, Req(0, a))], vec![st(Read(0, e)), sg(1, Req(0, q))]],
    vec![vec![st(Req(1, a)), st(Req(3, a))], vec![st(Req(3, a)), st(Req(1, a))]],
    vec![vec![st(Req(0, a))], vec![st(Read(0, e)), st(Req(0, a))]],
  ], 1));
  out
}

/// Further template families (thorough tier): shapes with three or four tasks that enumeration by size cannot reach.
pub fn extra_families() -> Vec<Prog> {
  use Op::*;
  let e = RC::Exact;
  let a = OC::PieAlways;
  let q = OC::Equals;
  let mut out = Vec::new();
  // (1) diamond over a generator: Top(T0) -> {L(T1), R(T2)} -> Gen(T3) writes r0 from source r1; Top/L/R read r0 or r1
  out.extend(product(&[
    vec![
      vec![st(Req(1, a)), st(Req(2, a)), st(Read(0, e))],
      vec![st(Req(1, q)), st(Req(2, q))],
      vec![st(Read(1, e)), sg(1, Req(1, a)), st(Req(2, a)), st(Read(0, e))],
    ],
    vec![vec![st(Req(3, a)), st(Read(0, e))], vec![st(Req(3, q))], vec![st(Read(1, e)), sg(1, Req(3, a))]],
    vec![vec![st(Req(3, a)), st(Read(0, e))], vec![st(Req(3, q))], vec![st(Read(1, e))]],
    vec![vec![st(Read(1, e)), st(Write(0, Src::Acc, e))], vec![st(Read(1, e)), sg(1, Write(0, Src::One, e))], vec![st(Read(1, e)), st(WriteDecl(0, Src::Acc, e))]],
  ], 2));
  // (2) two generators, one consumer: Use(T0) requires G1(T1, writes r0) and G2(T2, writes r1), source r2
  out.extend(product(&[
    vec![
      vec![st(Req(1, a)), st(Req(2, a)), st(Read(0, e)), st(Read(1, e))],
      vec![st(Req(1, a)), st(Read(0, e)), sg(1, Req(2, a)), sg(1, Read(1, e))],
      vec![st(Read(2, e)), sg(1, Req(1, a)), sg(1, Read(0, e)), sg(0, Req(2, a)), sg(0, Read(1, e))],
    ],
    vec![vec![st(Read(2, e)), st(Write(0, Src::Acc, e))], vec![st(Write(0, Src::One, e))], vec![st(Read(2, e)), sg(1, Write(0, Src::One, e))]],
    vec![vec![st(Read(2, e)), st(Write(1, Src::Acc, e))], vec![st(Read(2, e)), sg(0, Write(1, Src::One, e))], vec![st(Req(1, a)), st(Read(0, e)), st(Write(1, Src::Acc, e))]],
  ], 3));
  // (3) generator that switches its target: Gen(T2) writes r0 or r1 depending on source r2; consumers of either
  out.extend(product(&[
    vec![vec![st(Req(2, a)), st(Read(0, e))], vec![st(Req(2, a)), st(Read(0, e)), st(Read(1, e))], vec![st(Req(1, a)), st(Read(0, e))]],
    vec![vec![st(Req(2, a)), st(Read(1, e))], vec![st(Req(2, q)), st(Read(1, e))], vec![st(Req(2, a))]],
    vec![
      vec![st(Read(2, e)), sg(1, Write(0, Src::One, e)), sg(0, Write(1, Src::One, e))],
      vec![st(Read(2, e)), sg(1, Write(0, Src::Acc, e)), st(Write(1, Src::Acc, e))],
    ],
  ], 3));
  // (4) selector: Sel(T0) requires A(T1) or B(T2) depending on source r1; A and B share a dependency C(T3)
  out.extend(product(&[
    vec![
      vec![st(Read(1, e)), sg(0, Req(1, q)), sg(1, Req(2, q))],
      vec![st(Read(1, e)), sg(0, Req(1, a)), sg(1, Req(2, a)), st(Read(0, e))],
    ],
    vec![vec![st(Req(3, q))], vec![st(Req(3, a)), st(Read(0, e))], vec![st(Read(1, e)), st(Req(3, q))]],
    vec![vec![st(Req(3, q))], vec![st(Read(0, e))], vec![st(Req(3, a)), st(Read(0, e))]],
    vec![vec![st(Read(1, e))], vec![st(Read(1, e)), st(Write(0, Src::Acc, e))], vec![st(Write(0, Src::One, e))]],
  ], 2));
  out
}

#[derive(Clone, Copy, PartialEq, Eq, Debug)]
pub enum Slice { Wf, Viol, All, WfOrViol, WfOrPanic, WfOrMulti, WfOrViolOrPanic, WfOrViolOrSelfConflict, ReadBeforeGenerate }

fn in_slice(class: &Class, slice: Slice) -> bool {
  let f = &class.flags;
  let excluded = f.read_before_generate || f.self_conflict || f.multi_dep || f.task_panic;
  match slice {
    Slice::Wf => class.wf(),
    Slice::WfOrPanic => { let mut g = *f; g.task_panic = false; !g.any() }
    // programs in which a task also reads a resource it writes (pie rejects the task itself; C05/C06 obligations
    // only concern DIFFERENT tasks, so their oracles stay sound there)
    Slice::WfOrViolOrSelfConflict => f.self_conflict && !(f.read_before_generate || f.task_panic),
    // programs in which some task reads a resource and only afterwards requires its generator (pie cannot see that;
    // what the reader saw is not defined by a from-scratch build, so only the C05/C06 obligations between DIFFERENT
    // tasks are judged there)
    Slice::ReadBeforeGenerate => f.read_before_generate && !(f.self_conflict || f.multi_dep || f.task_panic),
    Slice::WfOrViolOrPanic => !(f.read_before_generate || f.self_conflict || f.multi_dep),
    Slice::WfOrMulti => { let mut g = *f; g.multi_dep = false; !g.any() }
    Slice::Viol => !excluded && f.any_violation(),
    Slice::WfOrViol | Slice::All => !excluded,
  }
}

/// Builds the program list: enumerated spaces (canonical, smallest first) + shape programs, filtered by slice.
pub fn programs_for(cfgs: &[EnumCfg], slice: Slice, with_shapes: bool, extra_filter: &dyn Fn(&Prog) -> bool) -> Vec<(Prog, Class)> {
  let mut out: Vec<(Prog, Class)> = Vec::new();
  let mut seen = std::collections::BTreeSet::new();
  if with_shapes {
    let mut named: Vec<Prog> = shape_programs().into_iter().map(|(_, p)| p).collect();
    named.extend(transitive_family().into_iter().map(|p| crate::enumerate::canonical(&p)));
    for p in named {
      let c = classify(&p);
      let ok = if p.bodies.iter().flatten().any(|s| s.op == Op::Panic) && slice != Slice::WfOrPanic && slice != Slice::WfOrViolOrPanic { false } else { in_slice(&c, slice) };
      if ok && extra_filter(&p) && seen.insert(p.clone()) { out.push((p, c)); }
    }
  }
  for cfg in cfgs {
    let ps = enumerate(cfg, |p| extra_filter(p));
    for p in ps {
      if seen.contains(&p) { continue; }
      let c = classify(&p);
      if in_slice(&c, slice) { seen.insert(p.clone()); out.push((p, c)); }
    }
  }
  out
}

/// Injection (C05-C07, C20): every extension of a well-formed program by ONE new task with ONE statement (a read, a
/// write or a declared write of any resource, or a require of any task followed by nothing). This reaches the
/// "otherwise well-formed program + injected read/write without the required task dependency" shapes with one more
/// task than the plain enumeration affords.
pub fn inject_one_task(base: &[(Prog, Class)], slice: Slice) -> Vec<(Prog, Class)> {
  let mut out = Vec::new();
  let mut seen = std::collections::BTreeSet::new();
  for (p, c) in base {
    if !c.wf() || p.n_tasks() >= 3 { continue; }
    let n = p.n_tasks() as Tid;
    let mut stmts: Vec<Op> = Vec::new();
    for r in 0..p.n_res {
      stmts.push(Op::Read(r, RC::Exact));
      stmts.push(Op::Write(r, Src::One, RC::Exact));
      stmts.push(Op::WriteDecl(r, Src::Zero, RC::Exact));
    }
    for op in stmts {
      let mut q = p.clone();
      q.bodies.push(vec![Stmt { guard: None, op }]);
      // also let an existing task require the new one last (so that the new task is reached through a require)
      let mut variants = vec![q.clone()];
      for t in 0..n {
        let mut q2 = q.clone();
        q2.bodies[t as usize].push(Stmt { guard: None, op: Op::Req(n, OC::PieAlways) });
        variants.push(q2);
      }
      for v in variants {
        let cv = crate::enumerate::canonical(&v);
        if !seen.insert(cv.clone()) { continue; }
        let cl = classify(&cv);
        if in_slice(&cl, slice) { out.push((cv, cl)); }
      }
    }
  }
  out
}

fn has_op(p: &Prog, f: impl Fn(&Op) -> bool) -> bool { p.bodies.iter().flatten().any(|s| f(&s.op)) }

/// A program is interesting for incremental behaviour only if something can change: it reads a resource.
fn reads_something(p: &Prog) -> bool { has_op(p, |o| matches!(o, Op::Read(..))) }

/// One group of programs explored to one history depth.
#[derive(Clone, Debug)]
pub struct Group { pub enums: Vec<EnumCfg>, pub depth: usize, pub shapes: bool, pub gen_consumer_only: bool, pub crashes: usize, pub inject: bool, pub max_roots: Option<usize>, pub faulty: bool, pub slice: Option<Slice>, pub families: bool,
  /// staged exploration over the order family: depth of the graph-building first stage
  pub staged: Option<usize>,
  /// declared writes bypass `create_writer` (the task produces the content by other means, then calls `written_to`)
  pub direct: bool,
  /// only programs in which two different tasks write one resource
  pub two_writers: bool }

/// Two different tasks write one resource.
pub fn two_writers(p: &Prog) -> bool {
  for (a, ba) in p.bodies.iter().enumerate() {
    for s in ba {
      if let Op::Write(r, _, _) | Op::WriteDecl(r, _, _) = s.op {
        for (b, bb) in p.bodies.iter().enumerate() {
          if a != b && bb.iter().any(|s2| matches!(s2.op, Op::Write(rr, _, _) | Op::WriteDecl(rr, _, _) if rr == r)) { return true; }
        }
      }
    }
  }
  false
}

/// Some task writes a resource that a different task reads (generator/consumer structure).
pub fn gen_consumer(p: &Prog) -> bool {
  for (a, ba) in p.bodies.iter().enumerate() {
    for s in ba {
      if let Op::Write(r, _, _) | Op::WriteDecl(r, _, _) = s.op {
        for (b, bb) in p.bodies.iter().enumerate() {
          if a != b && bb.iter().any(|s2| matches!(s2.op, Op::Read(rr, _) if rr == r)) { return true; }
        }
      }
    }
  }
  false
}

fn parse_enum(base: &EnumCfg, t: &str) -> Option<EnumCfg> {
  let v: Vec<usize> = t.split(',').filter_map(|x| x.parse().ok()).collect();
  if v.len() == 3 { let mut c = base.clone(); c.n_tasks = v[0]; c.n_res = v[1] as u8; c.max_total = v[2]; c.max_per_task = v[2]; Some(c) } else { None }
}

pub fn run(args: &Args) -> i32 {
  let Some(prop) = Prop::from_str(&args.property) else { engine_error("unknown property for the history engine") };
  let mut rep = Report::new(args);
  if let Some(file) = &args.replay { return replay(args, prop, file, rep); }
  let quick = args.tier == Tier::Quick;
  let mut cfg = HistCfg {
    prop, max_roots: 2, bottom_up: true, bu_then: false, bu_pre: false, bu_over_report: false, bu_twice: false, bu_split: false, keep_session: false, set_fail: false, crashes: 0,
    depth: 0, state_cap: 0, probe: false, scope_in_key: true,
    wall_cap: if quick { 55.0 } else { 2400.0 }, collect_digests: false, find_path_hash: None, stamp_fail: false, stage1: 0, decl_direct: false,
  };
  let mut slice = Slice::Wf;
  let mut map_faulty = false;
  let mut crash_group = false;
  // Base plan. `s`: structural enumeration with exact resource checkers and two output checkers (exact and pie's
  // AlwaysConsistent: "require the generator, ignore its output, read the file" is the idiomatic pie pattern and the
  // only way a reader depends on a writer through the resource alone). `rich`: small programs over the full
  // C01-safe alphabet (coarse output/read checkers, both write routes; write dependencies stay exact, DESIGN 3.3).
  let s = |n: usize, r: u8, k: usize| { let mut e = EnumCfg::structural(n, r, k); e.ocs = vec![OC::Equals, OC::PieAlways]; e };
  let rich = |n: usize, r: u8, k: usize| {
    let mut e = EnumCfg::structural(n, r, k);
    e.ocs = vec![OC::Equals, OC::IsZero, OC::PieAlways];
    e.read_rcs = vec![RC::Exact, RC::Exists, RC::Always];
    e.write_decl = true;
    e
  };
  // `nw`: require-structure family: no writes, every require with pie's AlwaysConsistent (so `acc` stays what was
  // read), guards only `== 1`: cheap enough to reach 3-4 tasks with 4-5 statements (value-dependent require shapes).
  let nw = |n: usize, r: u8, k: usize| { let mut e = EnumCfg::structural(n, r, k); e.ocs = vec![OC::PieAlways]; e.srcs = vec![]; e.guard_vals = vec![1]; e };
  // `sf`: scheduled-set family: every task first reads r0 (so a change of r0 schedules all of them at once), plus K
  // require statements in total (optionally guarded by `== 1`): shapes of the bottom-up queue with 3-4 tasks
  // (independent tasks, chains, diamonds, tasks that change their requires while re-executing).
  let sf = |n: usize, k: usize| {
    let mut e = EnumCfg::structural(n, 1, k);
    e.ocs = vec![OC::Equals, OC::PieAlways]; e.srcs = vec![]; e.guard_vals = vec![1];
    e.mandatory_first = Some(Op::Read(0, RC::Exact));
    e
  };
  // `pe`: require-only programs with pie's EqualsChecker and the harness equality checker, no guards, no writes
  let pe = |n: usize, r: u8, k: usize| { let mut e = EnumCfg::structural(n, r, k); e.ocs = vec![OC::PieEquals, OC::Equals]; e.srcs = vec![]; e.guards = false; e.self_req = false; e };
  // `rs`: require structures with three tasks (triangles: a task required directly and through another task)
  let rs = |n: usize, r: u8, k: usize| { let mut e = EnumCfg::structural(n, r, k); e.ocs = vec![OC::Equals, OC::PieAlways]; e.srcs = vec![]; e.guards = false; e.self_req = false; e };
  // `cw`: generator/consumer programs with coarse (existence-only) write checkers as well.
  let cw = |n: usize, r: u8, k: usize| { let mut e = EnumCfg::structural(n, r, k); e.ocs = vec![OC::Equals, OC::PieAlways]; e.write_rcs = vec![RC::Exact, RC::Exists]; e };
  let mut groups: Vec<Group> = if quick {
    vec![
      Group { enums: vec![s(2, 2, 3)], depth: 5, shapes: true, gen_consumer_only: false, crashes: 0, inject: false, max_roots: None, faulty: false, slice: None, families: false, staged: None, direct: false, two_writers: false },
      Group { enums: vec![s(3, 2, 2), rich(2, 2, 2)], depth: 4, shapes: false, gen_consumer_only: false, crashes: 0, inject: false, max_roots: None, faulty: false, slice: None, families: false, staged: None, direct: false, two_writers: false },
      // generator/consumer programs one statement larger (conditional generators with an always-consistent require)
      Group { enums: vec![s(2, 2, 4)], depth: 4, shapes: false, gen_consumer_only: true, crashes: 0, inject: false, max_roots: None, faulty: false, slice: None, families: false, staged: None, direct: false, two_writers: false },
    ]
  } else {
    vec![
      Group { enums: vec![s(2, 2, 4), rich(2, 2, 3)], depth: 6, shapes: true, gen_consumer_only: false, crashes: 0, inject: false, max_roots: None, faulty: false, slice: None, families: false, staged: None, direct: false, two_writers: false },
      Group { enums: vec![s(3, 2, 3), s(3, 3, 3)], depth: 5, shapes: false, gen_consumer_only: false, crashes: 0, inject: false, max_roots: None, faulty: false, slice: None, families: false, staged: None, direct: false, two_writers: false },
      Group { enums: vec![s(4, 2, 3)], depth: 4, shapes: false, gen_consumer_only: false, crashes: 0, inject: false, max_roots: None, faulty: false, slice: None, families: false, staged: None, direct: false, two_writers: false },
    ]
  };
  let filter: Box<dyn Fn(&Prog) -> bool> = Box::new(|p| reads_something(p));
  match prop {
    Prop::C01 | Prop::C02 => { crash_group = true; }
    Prop::C03 | Prop::C04 => {
      cfg.probe = prop == Prop::C03; cfg.bu_over_report = true; cfg.bu_then = true; cfg.bu_twice = true; cfg.bu_pre = true; cfg.max_roots = if quick { 1 } else { 2 };
      // named shapes and the transitive template family with two roots per session (creation orders need them)
      groups[0].shapes = false;
      groups.push(Group { enums: vec![], depth: 4, shapes: true, gen_consumer_only: false, crashes: 0, inject: false, max_roots: Some(2), faulty: false, slice: None, families: false, staged: None, direct: false, two_writers: false });
      if quick { groups[0].depth = 4; groups[1] = Group { enums: vec![s(3, 2, 2)], depth: 4, shapes: false, gen_consumer_only: false, crashes: 0, inject: false, max_roots: None, faulty: false, slice: None, families: false, staged: None, direct: false, two_writers: false }; }
      // coarse read checkers next to exact ones on one task (a reported change that one checker ignores and another sees)
      groups.push(Group { enums: vec![rich(2, 2, 2)], depth: 5, shapes: false, gen_consumer_only: false, crashes: 0, inject: false, max_roots: None, faulty: false, slice: None, families: false, staged: None, direct: false, two_writers: false });
      if !quick { groups.push(Group { enums: vec![s(2, 2, 5)], depth: 3, shapes: false, gen_consumer_only: true, crashes: 0, inject: false, max_roots: None, faulty: false, slice: None, families: false, staged: None, direct: false, two_writers: false }); }
      // (the require-structure family first: it is a subset of the next group and must keep its own, deeper, bound)
      groups.push(Group { enums: vec![if quick { nw(3, 1, 4) } else { nw(3, 1, 5) }], depth: 4, shapes: false, gen_consumer_only: false, crashes: 0, inject: false, max_roots: Some(2), faulty: false, slice: None, families: false, staged: None, direct: false, two_writers: false });
      // three tasks, one resource: a task with two dependents of different kinds (requirer + dynamic requirer / reader)
      groups.push(Group { enums: vec![{ let mut e = s(3, 1, 4); e.guard_vals = vec![1]; e.srcs = vec![Src::Acc]; e }], depth: if quick { 3 } else { 4 }, shapes: false, gen_consumer_only: false, crashes: 0, inject: false, max_roots: Some(2), faulty: false, slice: None, families: false, staged: None, direct: false, two_writers: false });
      // coarse write checkers: only the checker-relative oracles apply there (no from-scratch content comparison)
      groups.push(Group { enums: vec![cw(2, 2, 4)], depth: 4, shapes: false, gen_consumer_only: true, crashes: 0, inject: false, max_roots: None, faulty: false, slice: None, families: false, staged: None, direct: false, two_writers: false });
      if !quick { groups.push(Group { enums: vec![nw(4, 1, 5)], depth: 4, shapes: false, gen_consumer_only: false, crashes: 0, inject: false, max_roots: None, faulty: false, slice: None, families: false, staged: None, direct: false, two_writers: false }); }
      groups.push(Group { enums: vec![if quick { sf(4, 2) } else { sf(4, 3) }], depth: 4, shapes: false, gen_consumer_only: false, crashes: 0, inject: false, max_roots: Some(2), faulty: false, slice: None, families: false, staged: None, direct: false, two_writers: false });
      // several requirers of one task with pie's own EqualsChecker next to the harness one, stamps taken in different
      // sessions (each requirer holds a stamp of a different output of the shared task)
      groups.push(Group { enums: vec![pe(3, 1, 3)], depth: 5, shapes: false, gen_consumer_only: false, crashes: 0, inject: false, max_roots: Some(1), faulty: false, slice: None, families: false, staged: None, direct: false, two_writers: false });
      // order family: creation orders / topological ranks set up by a first stage of top-down builds
      groups.push(Group { enums: vec![], depth: if quick { 2 } else { 3 }, shapes: false, gen_consumer_only: false, crashes: 0, inject: false, max_roots: Some(1), faulty: false, slice: None, families: false, staged: Some(if quick { 4 } else { 5 }), direct: false, two_writers: false });
      if !quick { groups[0].depth = 5; groups[1].depth = 4; groups[2].depth = 3; }
    }
    Prop::C05 | Prop::C06 | Prop::C07 | Prop::C20 => {
      slice = Slice::WfOrViol; crash_group = true;
      if prop == Prop::C20 { cfg.keep_session = true; }
      if quick { groups[0].depth = 4; }
      // injected violations: one new one-statement task added to every well-formed generator/consumer program
      groups.push(Group { enums: vec![s(2, 2, if quick { 3 } else { 4 })], depth: 4, shapes: true, gen_consumer_only: true, crashes: 0, inject: true, max_roots: None, faulty: false, slice: None, families: false, staged: None, direct: false, two_writers: false });
      if prop == Prop::C05 || prop == Prop::C06 {
        // declared writes whose stamp fails at declaration time (fault events SetFail): the violation must still abort
        cfg.set_fail = true; cfg.stamp_fail = true;
        groups.push(Group { enums: vec![{ let mut e = s(2, 2, 3); e.ocs = vec![OC::PieAlways]; e.write_decl = true; e.write_rcs = vec![RC::Faulty]; e.srcs = vec![Src::One]; e }], depth: if quick { 3 } else { 4 }, shapes: false, gen_consumer_only: false, crashes: 0, inject: false, max_roots: None, faulty: false, slice: None, families: false, staged: None, direct: false, two_writers: false });
        // declared writes whose content was produced without `create_writer` (written by other means, then `written_to`)
        groups.push(Group { enums: vec![{ let mut e = s(2, 2, 3); e.ocs = vec![OC::PieAlways]; e.write_decl = true; e.srcs = vec![Src::One]; e }], depth: if quick { 3 } else { 4 }, shapes: false, gen_consumer_only: false, crashes: 0, inject: false, max_roots: None, faulty: false, slice: None, families: false, staged: None, direct: true, two_writers: false });
        // two different writers of one resource, one statement larger (a re-executing writer that first requires the other writer)
        groups.push(Group { enums: vec![{ let mut e = s(2, 2, 4); e.ocs = vec![OC::PieAlways]; e.srcs = vec![Src::One]; e.guard_vals = vec![1]; e }], depth: 3, shapes: false, gen_consumer_only: false, crashes: 0, inject: false, max_roots: Some(1), faulty: false, slice: None, families: false, staged: None, direct: false, two_writers: true });
        // a reader that reads before it requires the generator, next to a third task that reads without requiring it
        groups.push(Group { enums: vec![{ let mut e = s(3, 1, 4); e.ocs = vec![OC::PieAlways]; e.srcs = vec![Src::One]; e.guards = false; e.self_req = false; e }], depth: 2, shapes: false, gen_consumer_only: false, crashes: 0, inject: false, max_roots: Some(2), faulty: false, slice: Some(Slice::ReadBeforeGenerate), families: false, staged: None, direct: false, two_writers: false });
        // a task that reads a resource and also writes it, next to another reader / writer of that resource
        groups.push(Group { enums: vec![s(2, 2, 3)], depth: if quick { 3 } else { 5 }, shapes: false, gen_consumer_only: false, crashes: 0, inject: false, max_roots: None, faulty: false, slice: Some(Slice::WfOrViolOrSelfConflict), families: false, staged: None, direct: false, two_writers: false });
        groups.push(Group { enums: vec![{ let mut e = s(2, 2, 4); e.ocs = vec![OC::PieAlways]; e.guards = false; e }], depth: if quick { 3 } else { 4 }, shapes: false, gen_consumer_only: true, crashes: 0, inject: false, max_roots: None, faulty: false, slice: Some(Slice::WfOrViolOrSelfConflict), families: false, staged: None, direct: false, two_writers: false });
      }
      // require-structure family (value-dependent cycles of length up to 3, cycles appearing in later sessions)
      if prop == Prop::C07 || prop == Prop::C20 {
        groups.push(Group { enums: vec![if quick { nw(3, 1, 4) } else { nw(3, 1, 5) }], depth: 4, shapes: false, gen_consumer_only: false, crashes: 0, inject: false, max_roots: None, faulty: false, slice: None, families: false, staged: None, direct: false, two_writers: false });
      }
    }
    Prop::C08 => {
      cfg.bu_pre = true; cfg.bu_twice = true; cfg.bu_split = true; cfg.bu_then = true;
      groups.push(Group { enums: vec![rs(3, 1, 4)], depth: 4, shapes: false, gen_consumer_only: false, crashes: 0, inject: false, max_roots: Some(1), faulty: false, slice: None, families: false, staged: None, direct: false, two_writers: false });
      // failing checkers: a task re-executed because a checker erred must record its new dependencies like any other
      cfg.set_fail = true;
      groups.push(Group { enums: vec![s(2, 2, if quick { 2 } else { 3 })], depth: if quick { 5 } else { 6 }, shapes: false, gen_consumer_only: false, crashes: 0, inject: false, max_roots: Some(1), faulty: true, slice: Some(Slice::Wf), families: false, staged: None, direct: false, two_writers: false });
      // plus programs that declare several dependencies with different checkers on one target (recorded finding F2)
      slice = Slice::WfOrMulti;
      let mut e = EnumCfg::structural(if quick { 1 } else { 2 }, 1, if quick { 2 } else { 3 });
      e.read_rcs = vec![RC::Exact, RC::Exists];
      e.ocs = vec![OC::Equals, OC::IsZero];
      groups.push(Group { enums: vec![e], depth: if quick { 5 } else { 6 }, shapes: false, gen_consumer_only: false, crashes: 0, inject: false, max_roots: None, faulty: false, slice: None, families: false, staged: None, direct: false, two_writers: false });
    }
    Prop::C09 => {
      cfg.bu_pre = true; cfg.bu_twice = true; cfg.bu_split = true; cfg.bu_then = true;
      groups.push(Group { enums: vec![pe(3, 1, 3)], depth: 5, shapes: false, gen_consumer_only: false, crashes: 0, inject: false, max_roots: Some(1), faulty: false, slice: None, families: false, staged: None, direct: false, two_writers: false });
      groups.push(Group { enums: vec![rs(3, 1, 4)], depth: 4, shapes: false, gen_consumer_only: false, crashes: 0, inject: false, max_roots: Some(1), faulty: false, slice: None, families: false, staged: None, direct: false, two_writers: false });
      let mut e = EnumCfg::structural(2, 2, if quick { 2 } else { 3 });
      e.ocs = vec![OC::Equals, OC::IsZero, OC::Always, OC::PieEquals, OC::Near, OC::UnitPred];
      e.read_rcs = vec![RC::Exact, RC::Exists, RC::Always];
      e.write_rcs = vec![RC::Exact, RC::Exists, RC::Always];
      e.write_decl = true;
      groups.push(Group { enums: vec![e], depth: if quick { 5 } else { 6 }, shapes: false, gen_consumer_only: false, crashes: 0, inject: false, max_roots: None, faulty: false, slice: None, families: false, staged: None, direct: false, two_writers: false });
    }
    Prop::C18 => { cfg.set_fail = true; map_faulty = true; }
    Prop::C19 => {
      slice = Slice::WfOrViolOrPanic;
      cfg.keep_session = true;
      let ncr = if quick { 1 } else { 2 };
      let mut e = EnumCfg::structural(2, 1, if quick { 3 } else { 4 });
      e.panic_op = true;
      let g = |enums: Vec<EnumCfg>, depth: usize, shapes: bool, crashes: usize| Group { enums, depth, shapes, gen_consumer_only: false, crashes, inject: false, max_roots: None, faulty: false, slice: None, families: false, staged: None, direct: false, two_writers: false };
      groups = if quick {
        vec![
          // every crash point of every build transition (+ program panics + diagnosed aborts), follow-ups to depth 4
          g(vec![s(2, 2, 3), e], 4, true, ncr),
          // aborts that pie diagnoses itself (violating programs) and program panics need no decoration: deeper follow-ups
          g(vec![s(2, 1, 3)], 6, false, 0),
        ]
      } else {
        vec![g(vec![s(2, 2, 3), e], 5, true, ncr), g(vec![s(3, 2, 3)], 4, false, ncr), g(vec![s(2, 1, 4), s(2, 2, 3)], 7, false, 0)]
      };
    }
    Prop::C16 => {
      cfg.collect_digests = true; slice = Slice::WfOrViol; cfg.bu_then = true;
      if quick { groups.truncate(2); groups[0].depth = 4; groups[1].depth = 3; } else { groups.truncate(2); groups[0] = Group { enums: vec![s(2, 2, 4)], depth: 4, shapes: true, gen_consumer_only: false, crashes: 0, inject: false, max_roots: None, faulty: false, slice: None, families: false, staged: None, direct: false, two_writers: false }; groups[1] = Group { enums: vec![s(3, 2, 3)], depth: 4, shapes: false, gen_consumer_only: false, crashes: 0, inject: false, max_roots: None, faulty: false, slice: None, families: false, staged: None, direct: false, two_writers: false }; }
      // several failing checkers in one session (the reported errors and their order are part of the trace)
      cfg.set_fail = true;
      groups.push(Group { enums: vec![s(2, 2, if quick { 2 } else { 3 })], depth: if quick { 4 } else { 5 }, shapes: false, gen_consumer_only: false, crashes: 0, inject: false, max_roots: None, faulty: true, slice: Some(Slice::Wf), families: false, staged: None, direct: false, two_writers: false });
      // queue order with several scheduled tasks (the order must come from topological ranks, not from set iteration)
      groups.push(Group { enums: vec![if quick { sf(4, 2) } else { sf(4, 3) }], depth: if quick { 3 } else { 4 }, shapes: false, gen_consumer_only: false, crashes: 0, inject: false, max_roots: Some(2), faulty: false, slice: None, families: false, staged: None, direct: false, two_writers: false });
    }
    Prop::C17 => { slice = Slice::WfOrViol; cfg.bu_then = true; crate::runner::set_helper_mode_global(true);
      cfg.set_fail = true;
      if quick { groups.truncate(2); groups[0].depth = 4; groups[1].depth = 3; } else { groups[0].depth = 5; groups[1].depth = 4; }
      // failing checkers: start/end discipline around dependency checks that return an error
      groups.push(Group { enums: vec![s(2, 2, if quick { 2 } else { 3 })], depth: 4, shapes: true, gen_consumer_only: false, crashes: 0, inject: false, max_roots: None, faulty: true, slice: None, families: false, staged: None, direct: false, two_writers: false });
    }
    _ => {}
  }
  if (!quick || prop == Prop::C07 || std::env::var("VERIF_FAMILIES").is_ok()) && !matches!(prop, Prop::C03 | Prop::C04 | Prop::C18 | Prop::C19) {
    // the order family (staged exploration) for the other history properties as well (C03/C04 have it in both tiers)
    groups.push(Group { enums: vec![], depth: 2, shapes: false, gen_consumer_only: false, crashes: 0, inject: false, max_roots: Some(1), faulty: false, slice: None, families: false, staged: Some(4), direct: false, two_writers: false });
  }
  if !quick || std::env::var("VERIF_FAMILIES").is_ok() {
    groups.push(Group { enums: vec![], depth: 4, shapes: false, gen_consumer_only: false, crashes: 0, inject: false, max_roots: Some(2), faulty: false, slice: None, families: true, staged: None, direct: false, two_writers: false });
  }
  if crash_group {
    // Histories with one aborted build (crash decoration at every crash point) over the smallest programs: what was
    // built before on the instance includes builds that did not finish.
    groups.push(Group { enums: vec![s(2, 2, if quick { 2 } else { 3 })], depth: if quick { 4 } else { 5 }, shapes: true, gen_consumer_only: false, crashes: 1, inject: false, max_roots: None, faulty: false, slice: None, families: false, staged: None, direct: false, two_writers: false });
    // one resource, one statement more, one step deeper: abort, change, rebuild, change back, rebuild
    groups.push(Group { enums: vec![s(2, 1, if quick { 3 } else { 4 })], depth: if quick { 5 } else { 6 }, shapes: false, gen_consumer_only: false, crashes: 1, inject: false, max_roots: Some(1), faulty: false, slice: None, families: false, staged: None, direct: false, two_writers: false });
  }
  // Experiment overrides (not used by the registered commands).
  if let Ok(e) = std::env::var("VERIF_GROUPS") {
    // e.g. "6:2,2,3;4:3,2,2"
    let base = groups[0].enums[0].clone();
    groups = e.split(';').filter_map(|g| {
      let (d, en) = g.split_once(':')?;
      Some(Group { enums: en.split('+').filter_map(|t| parse_enum(&base, t)).collect(), depth: d.parse().ok()?, shapes: true, gen_consumer_only: false, crashes: 0, inject: false, max_roots: None, faulty: false, slice: None, families: false, staged: None, direct: false, two_writers: false })
    }).collect();
  }
  if let Ok(w) = std::env::var("VERIF_WALL") { if let Ok(w) = w.parse() { cfg.wall_cap = w; } }
  // Cheap, targeted groups first; the big base group last (a wall cap under machine load then cuts the least).
  if groups.len() > 1 { let first = groups.remove(0); groups.push(first); }
  let child_file_is_none = !args.extra.iter().any(|a| a == "--digests-to");
  let child_file = args.extra.iter().position(|a| a == "--digests-to").map(|pos| args.extra.get(pos + 1).cloned().unwrap_or_else(|| engine_error("--digests-to needs a file")));
  let mut stats = Stats::default();
  let mut all_programs: Vec<(Prog, Class)> = Vec::new();
  let mut group_desc: Vec<Value> = Vec::new();
  let started = std::time::Instant::now();
  for g in &groups {
    let gfilter = |p: &Prog| (filter(p) || g.two_writers) && (!g.gen_consumer_only || gen_consumer(p)) && (!g.two_writers || two_writers(p));
    let gslice = g.slice.unwrap_or(slice);
    let mut programs = if g.staged.is_some() {
      // not canonicalised: the staged exploration treats the LAST resource as the mode resource
      let mut seen = std::collections::BTreeSet::new();
      order_family().into_iter().filter(|p| seen.insert(p.clone())).filter_map(|p| { let cl = classify(&p); if in_slice(&cl, gslice) { Some((p, cl)) } else { None } }).collect()
    } else if g.families {
      let mut seen = std::collections::BTreeSet::new();
      let mut v = Vec::new();
      for p in extra_families() {
        let cp = crate::enumerate::canonical(&p);
        if !seen.insert(cp.clone()) { continue; }
        let cl = classify(&cp);
        if in_slice(&cl, gslice) { v.push((cp, cl)); }
      }
      v
    } else if g.inject {
      let base = programs_for(&g.enums, Slice::Wf, g.shapes, &gfilter);
      inject_one_task(&base, gslice)
    } else {
      programs_for(&g.enums, gslice, g.shapes, &gfilter)
    };
    // a program explored in an earlier (deeper) group is not explored again
    if g.crashes == 0 && !g.faulty && !g.direct { programs.retain(|(p, _)| !all_programs.iter().any(|(q, _)| q == p)); }
    if map_faulty || g.faulty {
      // C18 (and one group of C17): every resource dependency uses the error-injecting checker (= Exact while its failure flag is clear).
      for (p, cl) in programs.iter_mut() {
        for st in p.bodies.iter_mut().flatten() {
          st.op = match st.op {
            Op::Read(r, _) => Op::Read(r, RC::Faulty),
            Op::Write(r, src, _) => Op::Write(r, src, RC::Faulty),
            Op::WriteDecl(r, src, _) => Op::WriteDecl(r, src, RC::Faulty),
            o => o,
          };
        }
        // the mapping changes what coarse read checkers observe: classify the mapped program again
        *cl = classify(p);
      }
      programs.retain(|(_, cl)| in_slice(cl, gslice));
      let mut seen_mapped = std::collections::BTreeSet::new();
      programs.retain(|(p, _)| seen_mapped.insert(p.clone()));
    }
    let mut gcfg = cfg.clone();
    gcfg.depth = g.depth;
    if g.crashes > 0 { gcfg.crashes = g.crashes; }
    if let Some(m) = g.max_roots { gcfg.max_roots = m; }
    gcfg.decl_direct = g.direct;
    if let Some(d1) = g.staged {
      // second stage: plain events only (the decorated bottom-up variants are explored by the unstaged groups)
      gcfg.stage1 = d1; gcfg.bu_then = false; gcfg.bu_pre = false; gcfg.bu_over_report = false; gcfg.bu_twice = false; gcfg.bu_split = false; gcfg.keep_session = false;
    }
    let gstart = std::time::Instant::now();
    gcfg.wall_cap = (cfg.wall_cap - started.elapsed().as_secs_f64()).max(1.0);
    let gs = run_programs(&mut rep, &gcfg, programs.clone(), threads());
    group_desc.push(json!({
      "enumerations": if g.staged.is_some() { vec![format!("order family (4 tasks, mode resource r1): staged exploration, first stage (Set r1 / TopDown one root) to depth {}, then every sequence of up to {} events of the full plain alphabet from every first-stage state", g.staged.unwrap(), g.depth)] } else if g.families { vec!["template families: diamond over a generator, two generators/one consumer, generator switching its target, selector over a shared dependency".to_string()] } else { g.enums.iter().map(|c| c.describe()).collect::<Vec<_>>() }, "shape_programs": g.shapes, "history_depth": g.depth,
      "declared_writes_bypass_create_writer": g.direct, "only_generator_consumer_programs": g.gen_consumer_only, "one_statement_task_injected_into_each": g.inject, "crashes_per_history": gcfg.crashes, "max_roots_per_session": gcfg.max_roots, "wall_s": gstart.elapsed().as_secs_f64(),
      "programs": gs.programs, "states": gs.states, "transitions": gs.transitions,
      "programs_to_fixed_point": gs.fixed_point_programs, "programs_cut_at_depth": gs.depth_capped_programs, "wall_cap_hit": gs.wall_capped,
    }));
    stats.merge(&gs);
    if g.crashes == 0 && !g.faulty && !g.direct { all_programs.extend(programs); }
  }
  cfg.depth = groups.iter().map(|g| g.depth).max().unwrap_or(0);
  // C16, child mode: only write the per-history digests for the parent to compare.
  if let Some(file) = child_file {
    stats.digests.sort();
    let mut bytes = Vec::with_capacity(stats.digests.len() * 24 + 24);
    // header record: (0, 0, 1 if the wall cap was hit)
    bytes.extend_from_slice(&0u64.to_le_bytes()); bytes.extend_from_slice(&0u64.to_le_bytes()); bytes.extend_from_slice(&(stats.wall_capped as u64).to_le_bytes());
    for (a, b, c) in &stats.digests { bytes.extend_from_slice(&a.to_le_bytes()); bytes.extend_from_slice(&b.to_le_bytes()); bytes.extend_from_slice(&c.to_le_bytes()); }
    std::fs::write(&file, bytes).unwrap_or_else(|e| engine_error(&format!("cannot write {}: {}", file, e)));
    return 0;
  }
  if prop == Prop::C16 { c16_cross_process(args, &mut rep, &mut stats, &all_programs, &cfg); }
  let rule = format!(
    "programs: all canonical programs (modulo task/resource renaming, dead and redundant guards removed) of the interpreted task language for each enumeration listed under bounds.groups, plus the named shape programs, restricted to slice {:?} as classified by the from-scratch reference model M1; per program a breadth-first search over events (Set(r,v) for every resource and value, TopDown(1..{} distinct roots), BottomUp(reported ⊇ dirty, then/pre roots as in bounds){}{}) on the REAL Pie, every path re-executed on a fresh instance, states deduplicated on the exact store dump + cells + scope bookkeeping; every transition is judged by the oracles of {} only; a step trace is distinct by its digest",
    slice, cfg.max_roots, if cfg.set_fail { ", SetFail(r,b)" } else { "" }, if cfg.crashes > 0 { ", crash decoration at every crash point of every build" } else { "" }, prop.name());
  let samples = stats.samples.iter().take(6).cloned().collect();
  fill_evidence(&mut rep, &cfg, &stats, &all_programs, &rule, samples);
  rep.set("groups", Value::Array(group_desc));
  if matches!(prop, Prop::C01 | Prop::C02 | Prop::C03 | Prop::C04) && child_file_is_none {
    // require chains of every length up to 100 (180): size thresholds no small program reaches
    let sweep = crate::sweep::run(&mut rep, prop.name(), if quick { 100 } else { 180 });
    rep.set("depth_sweep", sweep);
  }
  rep.assume("task bodies are deterministic functions of what their checkers observe (true by construction of the interpreter)");
  rep.assume("values {absent,0,1}; program sizes and history depths as listed under groups; larger programs and deeper histories are not covered");
  rep.finish()
}

fn sample_histories(programs: &[(Prog, Class)]) -> Vec<Value> {
  let mut v = Vec::new();
  if let Some((p, _)) = programs.iter().find(|(p, _)| p.n_tasks() >= 2 && p.size() >= 3) {
    v.push(json!({"program": p.short(), "example_history": ["Set(r0,1)", "TopDown[T0]", "Set(r0,0)", "TopDown[T0,T1]"], "note": "every event sequence up to the depth bound is explored, this is one of them"}));
  }
  v
}

fn replay(args: &Args, prop: Prop, file: &std::path::Path, mut rep: Report) -> i32 {
  let text = std::fs::read_to_string(file).unwrap_or_else(|e| engine_error(&format!("cannot read {}: {}", file.display(), e)));
  let v: Value = serde_json::from_str(&text).unwrap_or_else(|e| engine_error(&format!("replay file does not parse: {}", e)));
  let r = v.get("replay").unwrap_or(&v);
  if crate::sweep::replay(&mut rep, prop.name(), r) {
    rep.set("states", json!(1)); rep.set("transitions", json!(7)); rep.set("traces_validated_against_impl", json!(7));
    rep.set("samples", json!([r.clone()]));
    rep.set("exhaustive", json!(false)); rep.set("rule", json!("replay of one depth-sweep case, executed twice with identical observations required"));
    return rep.finish();
  }
  let prog = Prog::from_json(r.get("program").unwrap_or(&Value::Null)).unwrap_or_else(|e| engine_error(&format!("replay program: {}", e)));
  let path: Vec<PEvent> = r.get("history").and_then(|h| h.as_array()).unwrap_or_else(|| engine_error("replay history missing"))
    .iter().map(|e| PEvent::from_json(e).unwrap_or_else(|e| engine_error(&format!("replay event: {}", e)))).collect();
  let class = classify(&prog);
  let cfg = HistCfg {
    prop, max_roots: 3, bottom_up: true, bu_then: true, bu_pre: true, bu_over_report: true, bu_twice: true, bu_split: true, keep_session: true, set_fail: true, crashes: 2, depth: path.len(),
    state_cap: 0, probe: prop == Prop::C03, scope_in_key: true, wall_cap: 60.0, collect_digests: false, find_path_hash: None, stamp_fail: false, stage1: 0, decl_direct: false,
  };
  install();
  let crashes = path.iter().filter(|p| p.crash_at.is_some()).count();
  let a = judge_path(&prog, class, &cfg, &path, crashes);
  let b = judge_path(&prog, class, &cfg, &path, crashes);
  let da: Vec<u64> = a.steps.iter().map(step_digest).collect();
  let db: Vec<u64> = b.steps.iter().map(step_digest).collect();
  if da != db || a.findings != b.findings {
    if prop == Prop::C16 {
      rep.violation(Violation { property: "C16".into(), oracle: "C16/replay-divergence".into(), key: String::new(), what: "two replays of the same history differ".into(), replay: r.clone() });
    } else {
      engine_error("the two replays of the history differ: not a verdict");
    }
  }
  for st in &a.steps { println!("  {} -> {:?}", st.pev.to_string(), st.outcome); }
  for f in &a.findings {
    rep.violation(Violation { property: prop.name().into(), oracle: f.oracle.clone(), key: f.key.clone(), what: f.what.clone(), replay: r.clone() });
  }
  if a.findings.is_empty() { println!("replay: no violation"); }
  rep.set("states", json!(a.steps.len() + 1));
  rep.set("transitions", json!(a.steps.len()));
  rep.set("traces_validated_against_impl", json!(a.steps.len()));
  rep.set("samples", json!([{"program": prog.short(), "history": path_strings(&path)}]));
  rep.set("exhaustive", json!(false));
  rep.set("rule", json!("replay of one recorded history, executed twice with identical observations required"));
  let _ = args;
  rep.finish()
}

fn install() { crate::runner::install_panic_hook(); }

/// C16: the same bounded exploration in a second process (fresh hash seeds, fresh address space); every history's
/// step digest must agree pairwise.
fn c16_cross_process(args: &Args, rep: &mut Report, stats: &mut Stats, programs: &[(Prog, Class)], cfg: &HistCfg) {
  let _ = std::fs::create_dir_all(format!("{}/tmp", crate::common::verif_dir()));
  let file = format!("{}/tmp/c16-{}.bin", crate::common::verif_dir(), std::process::id());
  let exe = std::env::current_exe().unwrap_or_else(|e| engine_error(&format!("current_exe: {}", e)));
  let status = std::process::Command::new(exe)
    .arg("C16").arg(args.tier.as_str()).arg("--digests-to").arg(&file)
    .stdout(std::process::Stdio::null())
    .status().unwrap_or_else(|e| engine_error(&format!("cannot start the second process: {}", e)));
  if !status.success() { let _ = std::fs::remove_file(&file); engine_error(&format!("second process failed: {:?}", status)); }
  let bytes = std::fs::read(&file).unwrap_or_else(|e| engine_error(&format!("cannot read {}: {}", file, e)));
  let _ = std::fs::remove_file(&file);
  let mut other: Vec<(u64, u64, u64)> = Vec::with_capacity(bytes.len() / 24);
  for ch in bytes.chunks_exact(24) {
    other.push((u64::from_le_bytes(ch[0..8].try_into().unwrap()), u64::from_le_bytes(ch[8..16].try_into().unwrap()), u64::from_le_bytes(ch[16..24].try_into().unwrap())));
  }
  // first record is the header
  let other_capped = other.first().map(|h| h.2 == 1).unwrap_or(false);
  if !other.is_empty() { other.remove(0); }
  stats.digests.sort();
  let mine = &stats.digests;
  let mut compared = 0usize;
  let mut mismatches = 0usize;
  if mine.len() != other.len() && !stats.wall_capped && !other_capped {
    rep.violation(Violation { property: "C16".into(), oracle: "C16/cross-process-history-set".into(), key: String::new(),
      what: format!("the two processes explored different numbers of histories: {} vs {}", mine.len(), other.len()), replay: json!({"engine": "hist", "note": "set difference"}) });
  }
  let omap: std::collections::HashMap<(u64, u64), u64> = other.iter().map(|(a, b, c)| ((*a, *b), *c)).collect();
  for (a, b, c) in mine {
    if let Some(oc) = omap.get(&(*a, *b)) {
      compared += 1;
      if oc != c {
        mismatches += 1;
        if mismatches <= 3 {
          use std::hash::{Hash, Hasher};
          let found = programs.iter().find(|(p, _)| { let mut h = Fnv::default(); p.hash(&mut h); h.finish() == *a }).cloned();
          let prog = found.as_ref().map(|(p, _)| p.clone());
          // Re-derive the history from its hash by exploring that one program again.
          let mut history: Option<Vec<PEvent>> = None;
          if let Some((p, cl)) = &found {
            let mut fcfg = cfg.clone();
            fcfg.find_path_hash = Some(*b);
            fcfg.wall_cap = 120.0;
            let mut st = Stats::default();
            let deadline = std::time::Instant::now() + std::time::Duration::from_secs(120);
            crate::hist::explore_program(p, *cl, &fcfg, &mut st, deadline, &mut |_| {}, &|_| false);
            history = st.found_path;
          }
          rep.violation(Violation { property: "C16".into(), oracle: "C16/cross-process-digest".into(), key: String::new(),
            what: format!("a history produced different event sequences in two processes (history hash {:016x})", b),
            replay: json!({"engine": "hist", "program": prog.as_ref().map(|p| p.to_json()), "program_short": prog.as_ref().map(|p| p.short()), "history_hash": format!("{:016x}", b),
              "history": history.as_ref().map(|h| path_json(h)), "history_short": history.as_ref().map(|h| path_strings(h)),
              "note": "replaying this history twice in one process may agree; the divergence was observed between two processes (run the C16 check again)"}) });
        }
      }
    }
  }
  rep.set("cross_process_histories_compared", json!(compared));
  rep.set("cross_process_mismatches", json!(mismatches));
  rep.set("second_process_wall_cap_hit", json!(other_capped));
  if other_capped { stats.wall_capped = true; }
  rep.set("min_independent_executions_per_history", json!(2));
}
