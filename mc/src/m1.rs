//! M1: the from-scratch reference interpreter (DESIGN §3.4). Knows nothing of stamps being reused, sessions, graphs
//! or queues: recursive evaluation with a per-build memo and naive bookkeeping.

use crate::prog::*;

/// A dependency as the model sees it.
#[derive(Clone, Copy, PartialEq, Eq, Hash, PartialOrd, Ord, Debug)]
pub enum Dep {
  Req(Tid, OC, OStamp),
  Read(Rid, RC, RStamp),
  Write(Rid, RC, RStamp),
}

/// Target of a dependency: task or resource namespace.
#[derive(Clone, Copy, PartialEq, Eq, Hash, PartialOrd, Ord, Debug)]
pub enum Target { Task(Tid), Res(Rid) }

impl Dep {
  pub fn target(&self) -> Target {
    match self { Dep::Req(t, _, _) => Target::Task(*t), Dep::Read(r, _, _) | Dep::Write(r, _, _) => Target::Res(*r) }
  }
  /// (kind, checker) signature used for the one-checker-per-target precondition.
  pub fn sig(&self) -> (u8, u8) {
    match self {
      Dep::Req(_, oc, _) => (0, *oc as u8),
      Dep::Read(_, rc, _) => (1, *rc as u8),
      Dep::Write(_, rc, _) => (2, *rc as u8),
    }
  }
}

/// pie keeps one edge per (source, target): position of the first insertion; for requires the data of the last
/// (the reserved edge is overwritten after every require), for reads/writes the data of the first.
pub fn dedup_per_target(raw: &[Dep]) -> Vec<Dep> {
  let mut out: Vec<Dep> = Vec::new();
  for d in raw {
    if let Some(pos) = out.iter().position(|o| o.target() == d.target()) {
      if let (Dep::Req(..), Dep::Req(..)) = (&out[pos], d) { out[pos] = *d; }
    } else {
      out.push(*d);
    }
  }
  out
}

#[derive(Clone, Copy, Default, PartialEq, Eq, Debug)]
pub struct Flags {
  pub cycle: bool,
  pub overlap: bool,
  pub hidden: bool,
  pub read_before_generate: bool,
  pub multi_dep: bool,
  pub self_conflict: bool,
  pub task_panic: bool,
}

impl Flags {
  pub fn any_violation(&self) -> bool { self.cycle || self.overlap || self.hidden }
  pub fn any(&self) -> bool {
    self.cycle || self.overlap || self.hidden || self.read_before_generate || self.multi_dep || self.self_conflict || self.task_panic
  }
  pub fn or(&mut self, o: &Flags) {
    self.cycle |= o.cycle; self.overlap |= o.overlap; self.hidden |= o.hidden;
    self.read_before_generate |= o.read_before_generate; self.multi_dep |= o.multi_dep;
    self.self_conflict |= o.self_conflict; self.task_panic |= o.task_panic;
  }
}

#[derive(Clone, Debug)]
pub struct M1Result {
  /// output per root (None if the build aborted before the root completed)
  pub outputs: Vec<Option<u8>>,
  /// tasks in order of entry
  pub entered: Vec<Tid>,
  pub cells: [Cell; MAX_RES],
  /// raw dependency list (creation order) per task that was entered
  pub deps: Vec<Option<Vec<Dep>>>,
  /// completed output per task
  pub memo: Vec<Option<u8>>,
  pub flags: Flags,
  /// the build stopped early (cycle or task panic)
  pub aborted: bool,
  /// writers per resource in this build
  pub writers: Vec<Vec<Tid>>,
  /// readers per resource in this build
  pub readers: Vec<Vec<Tid>>,
  /// direct require edges (bitmask per task)
  pub req_edges: Vec<u32>,
}

struct M1<'p> {
  prog: &'p Prog,
  cells: [Cell; MAX_RES],
  memo: Vec<Option<u8>>,
  stack: Vec<Tid>,
  entered: Vec<Tid>,
  deps: Vec<Option<Vec<Dep>>>,
  edges: Vec<u32>,
  /// (task, resource, reach of the task at that moment)
  reads: Vec<(Tid, Rid, u32)>,
  writes: Vec<(Tid, Rid)>,
  flags: Flags,
}

fn reach(edges: &[u32], from: Tid) -> u32 {
  let mut seen: u32 = 0;
  let mut stack = vec![from];
  while let Some(t) = stack.pop() {
    let mut m = edges[t as usize] & !seen;
    seen |= m;
    while m != 0 {
      let b = m.trailing_zeros();
      m &= m - 1;
      stack.push(b as Tid);
    }
  }
  seen
}

impl M1<'_> {
  fn exec(&mut self, t: Tid) -> Result<u8, ()> {
    self.stack.push(t);
    self.entered.push(t);
    self.deps[t as usize] = Some(Vec::new());
    let prog = self.prog;
    let out = interpret(self, t, &prog.bodies[t as usize])?;
    self.stack.pop();
    self.memo[t as usize] = Some(out);
    Ok(out)
  }
  fn require_task(&mut self, t: Tid) -> Result<u8, ()> {
    if self.stack.contains(&t) {
      self.flags.cycle = true;
      return Err(());
    }
    if let Some(out) = self.memo[t as usize] { return Ok(out); }
    self.exec(t)
  }
}

impl Env for M1<'_> {
  fn require(&mut self, caller: Tid, _stmt: usize, callee: Tid, oc: OC) -> Result<u8, ()> {
    self.edges[caller as usize] |= 1 << callee;
    let out = self.require_task(callee)?;
    self.deps[caller as usize].as_mut().unwrap().push(Dep::Req(callee, oc, oc.stamp_of(out)));
    Ok(out)
  }
  fn read(&mut self, caller: Tid, _stmt: usize, r: Rid, rc: RC) -> Result<Cell, ()> {
    let cell = self.cells[r as usize];
    let rch = reach(&self.edges, caller);
    self.reads.push((caller, r, rch));
    self.deps[caller as usize].as_mut().unwrap().push(Dep::Read(r, rc, rc.stamp_of(cell)));
    Ok(cell)
  }
  fn write(&mut self, caller: Tid, _stmt: usize, r: Rid, value: u8, rc: RC, _declared: bool) -> Result<(), ()> {
    self.cells[r as usize] = Some(value);
    self.writes.push((caller, r));
    self.deps[caller as usize].as_mut().unwrap().push(Dep::Write(r, rc, rc.stamp_of(Some(value))));
    Ok(())
  }
  fn task_panic(&mut self, _caller: Tid, _stmt: usize) -> Result<(), ()> {
    self.flags.task_panic = true;
    Err(())
  }
}

/// Builds `roots` (in order) from scratch in `cells`.
pub fn build(prog: &Prog, cells: &[Cell; MAX_RES], roots: &[Tid]) -> M1Result {
  let n = prog.n_tasks();
  let mut m = M1 {
    prog, cells: *cells, memo: vec![None; n], stack: Vec::new(), entered: Vec::new(), deps: vec![None; n],
    edges: vec![0; n], reads: Vec::new(), writes: Vec::new(), flags: Flags::default(),
  };
  let mut outputs = vec![None; roots.len()];
  let mut aborted = false;
  for (i, r) in roots.iter().enumerate() {
    match m.require_task(*r) {
      Ok(o) => outputs[i] = Some(o),
      Err(()) => { aborted = true; break; }
    }
  }
  // Flags from the bookkeeping.
  let nr = prog.n_res as usize;
  let mut writers: Vec<Vec<Tid>> = vec![Vec::new(); nr.max(1)];
  let mut readers: Vec<Vec<Tid>> = vec![Vec::new(); nr.max(1)];
  for (t, r) in &m.writes {
    let w = &mut writers[*r as usize];
    if w.contains(t) { m.flags.self_conflict = true; } else { w.push(*t); }
  }
  for (t, r, _) in &m.reads {
    if !readers[*r as usize].contains(t) { readers[*r as usize].push(*t); }
  }
  for r in 0..nr {
    if writers[r].len() > 1 { m.flags.overlap = true; }
  }
  for (t, r, reach_then) in &m.reads {
    for w in &writers[*r as usize] {
      if w == t { m.flags.self_conflict = true; continue; }
      let final_reach = reach(&m.edges, *t);
      if final_reach & (1 << *w) == 0 { m.flags.hidden = true; }
      else if reach_then & (1 << *w) == 0 { m.flags.read_before_generate = true; }
    }
  }
  for d in m.deps.iter().flatten() {
    for (i, a) in d.iter().enumerate() {
      for b in &d[i + 1..] {
        if a.target() == b.target() && a.sig() != b.sig() { m.flags.multi_dep = true; }
      }
    }
  }
  M1Result {
    outputs, entered: m.entered, cells: m.cells, deps: m.deps, memo: m.memo, flags: m.flags, aborted,
    writers, readers, req_edges: m.edges,
  }
}

/// All assignments of {absent,0,1} to the first `n_res` cells.
pub fn all_cells(n_res: u8) -> Vec<[Cell; MAX_RES]> {
  let mut out = vec![[None; MAX_RES]];
  for r in 0..n_res as usize {
    let mut next = Vec::new();
    for c in &out {
      for v in [None, Some(0), Some(1)] {
        let mut c2 = *c;
        c2[r] = v;
        next.push(c2);
      }
    }
    out = next;
  }
  out
}

pub fn permutations(n: usize) -> Vec<Vec<Tid>> {
  fn go(cur: &mut Vec<Tid>, used: &mut Vec<bool>, n: usize, out: &mut Vec<Vec<Tid>>) {
    if cur.len() == n { out.push(cur.clone()); return; }
    for i in 0..n {
      if !used[i] { used[i] = true; cur.push(i as Tid); go(cur, used, n, out); cur.pop(); used[i] = false; }
    }
  }
  let mut out = Vec::new();
  go(&mut Vec::new(), &mut vec![false; n], n, &mut out);
  out
}

/// Scope class of a program, decided by the reference model alone.
#[derive(Clone, Copy, Default, PartialEq, Eq, Debug)]
pub struct Class {
  /// union of flags over every state and every order of building all tasks
  pub flags: Flags,
}

impl Class {
  /// Well-formed: no flag in any state.
  pub fn wf(&self) -> bool { !self.flags.any() }
}

pub fn classify(prog: &Prog) -> Class {
  let mut flags = Flags::default();
  let perms = permutations(prog.n_tasks());
  for cells in all_cells(prog.n_res) {
    for p in &perms {
      let r = build(prog, &cells, p);
      flags.or(&r.flags);
      if r.aborted {
        // Tasks after the abort were not built; build each of them on its own as well so their flags are seen.
        for t in p { flags.or(&build(prog, &cells, &[*t]).flags); }
      }
    }
  }
  Class { flags }
}

/// Does a from-scratch build of `tasks` in `cells` hit a cycle / hidden dependency / overlapping write, for some
/// rotation of the order? Returns the union of flags over all rotations.
pub fn scratch_flags(prog: &Prog, cells: &[Cell; MAX_RES], tasks: &[Tid]) -> Flags {
  let mut flags = Flags::default();
  if tasks.is_empty() { return flags; }
  for rot in 0..tasks.len() {
    let mut order: Vec<Tid> = tasks[rot..].to_vec();
    order.extend_from_slice(&tasks[..rot]);
    let r = build(prog, cells, &order);
    flags.or(&r.flags);
    if r.aborted {
      for t in &order { flags.or(&build(prog, cells, &[*t]).flags); }
    }
  }
  flags
}

#[cfg(test)]
mod tests {
  use super::*;

  fn st(op: Op) -> Stmt { Stmt { guard: None, op } }

  #[test]
  fn chain_and_flags() {
    // T0: Req T1; Read r0   T1: Write r0 := 1
    let p = Prog { n_res: 1, bodies: vec![
      vec![st(Op::Req(1, OC::Equals)), st(Op::Read(0, RC::Exact))],
      vec![st(Op::Write(0, Src::One, RC::Exact))],
    ]};
    let r = build(&p, &[None; MAX_RES], &[0]);
    assert_eq!(r.outputs, vec![Some(1)]);
    assert_eq!(r.cells[0], Some(1));
    assert!(!r.flags.any());
    assert!(classify(&p).wf());
    // hidden: T0 reads r0 without requiring T1
    let p2 = Prog { n_res: 1, bodies: vec![
      vec![st(Op::Read(0, RC::Exact))],
      vec![st(Op::Write(0, Src::One, RC::Exact))],
    ]};
    assert!(classify(&p2).flags.hidden);
    // read before generate
    let p3 = Prog { n_res: 1, bodies: vec![
      vec![st(Op::Read(0, RC::Exact)), st(Op::Req(1, OC::Equals))],
      vec![st(Op::Write(0, Src::One, RC::Exact))],
    ]};
    let c3 = classify(&p3);
    assert!(c3.flags.read_before_generate && !c3.flags.hidden);
    // cycle
    let p4 = Prog { n_res: 0, bodies: vec![vec![st(Op::Req(1, OC::Equals))], vec![st(Op::Req(0, OC::Equals))]] };
    assert!(classify(&p4).flags.cycle);
    // overlap
    let p5 = Prog { n_res: 1, bodies: vec![vec![st(Op::Write(0, Src::One, RC::Exact))], vec![st(Op::Write(0, Src::One, RC::Exact))]] };
    assert!(classify(&p5).flags.overlap);
  }

  #[test]
  fn dedup() {
    let raw = [Dep::Read(0, RC::Exact, RStamp::Val(None)), Dep::Req(1, OC::Equals, OStamp::Val(0)), Dep::Read(0, RC::Exact, RStamp::Val(Some(1))), Dep::Req(1, OC::Equals, OStamp::Val(2))];
    assert_eq!(dedup_per_target(&raw), vec![Dep::Read(0, RC::Exact, RStamp::Val(None)), Dep::Req(1, OC::Equals, OStamp::Val(2))]);
  }
}
