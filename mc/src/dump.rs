//! Typed dump of pie's dependency store through the read-only verification hook.

use std::collections::HashMap;

use pie::verif::{Node, VerifEdge, VerifNode, VerifStoreVisitor};
use pie::tracker::Tracker;
use pie::Pie;
use serde_json::{json, Value};

use crate::prog::*;
use crate::tracker::{oc_of, ostamp_of, out_of, rc_of, rid_of, rstamp_of, tid_of};

#[derive(Clone, Copy, PartialEq, Eq, Hash, PartialOrd, Ord, Debug)]
pub enum DEdgeKind {
  Reserved,
  Req(Tid, OC, OStamp),
  Read(Rid, RC, RStamp),
  Write(Rid, RC, RStamp),
}

#[derive(Clone, Copy, PartialEq, Eq, Hash, PartialOrd, Ord, Debug)]
pub enum DNodeKind {
  Task(Tid, Option<u8>),
  Res(Rid),
}

#[derive(Clone, PartialEq, Eq, Hash, Debug)]
pub struct DNode {
  pub kind: DNodeKind,
  pub rank: u32,
  /// outgoing edges in adjacency iteration order: (destination node index, data)
  pub out: Vec<(u32, DEdgeKind)>,
  /// incoming edges in adjacency iteration order: (source node index, data)
  pub inc: Vec<(u32, DEdgeKind)>,
}

#[derive(Clone, PartialEq, Eq, Hash, Debug, Default)]
pub struct Dump {
  /// nodes in slot (= creation) order
  pub nodes: Vec<DNode>,
  pub task_map_len: usize,
  pub res_map_len: usize,
}

struct Collector {
  index: HashMap<Node, u32>,
  raw: Vec<(Node, u32, DNodeKind)>,
  out: Vec<(Node, Node, DEdgeKind)>,
  inc: Vec<(Node, Node, DEdgeKind)>,
  maps: (usize, usize),
}

fn edge_kind(edge: VerifEdge<'_>) -> DEdgeKind {
  match edge {
    VerifEdge::ReservedRequire => DEdgeKind::Reserved,
    VerifEdge::Require { task, checker, stamp } => DEdgeKind::Req(tid_of(task), oc_of(checker), ostamp_of(stamp)),
    VerifEdge::Read { resource, checker, stamp } => DEdgeKind::Read(rid_of(resource), rc_of(checker), rstamp_of(stamp)),
    VerifEdge::Write { resource, checker, stamp } => DEdgeKind::Write(rid_of(resource), rc_of(checker), rstamp_of(stamp)),
  }
}

impl VerifStoreVisitor for Collector {
  fn node(&mut self, node: Node, rank: u32, data: VerifNode<'_>) {
    let kind = match data {
      VerifNode::Task { task, output } => DNodeKind::Task(tid_of(task), output.map(out_of)),
      VerifNode::Resource(r) => DNodeKind::Res(rid_of(r)),
    };
    let idx = self.raw.len() as u32;
    self.index.insert(node, idx);
    self.raw.push((node, rank, kind));
  }
  fn outgoing_edge(&mut self, src: Node, dst: Node, edge: VerifEdge<'_>) { self.out.push((src, dst, edge_kind(edge))); }
  fn incoming_edge(&mut self, dst: Node, src: Node, edge: VerifEdge<'_>) { self.inc.push((dst, src, edge_kind(edge))); }
  fn maps(&mut self, t: usize, r: usize) { self.maps = (t, r); }
}

pub fn dump_store<A: Tracker>(pie: &Pie<A>) -> Dump {
  let mut c = Collector { index: HashMap::new(), raw: Vec::new(), out: Vec::new(), inc: Vec::new(), maps: (0, 0) };
  pie.verif_visit_store(&mut c);
  let mut nodes: Vec<DNode> = c.raw.iter().map(|(_, rank, kind)| DNode { kind: *kind, rank: *rank, out: Vec::new(), inc: Vec::new() }).collect();
  for (src, dst, k) in &c.out {
    let (Some(s), Some(d)) = (c.index.get(src), c.index.get(dst)) else { panic!("HARNESS-BUG: dump edge to unknown node"); };
    nodes[*s as usize].out.push((*d, *k));
  }
  for (dst, src, k) in &c.inc {
    let (Some(s), Some(d)) = (c.index.get(src), c.index.get(dst)) else { panic!("HARNESS-BUG: dump edge to unknown node"); };
    nodes[*d as usize].inc.push((*s, *k));
  }
  Dump { nodes, task_map_len: c.maps.0, res_map_len: c.maps.1 }
}

impl Dump {
  pub fn task_node(&self, t: Tid) -> Option<&DNode> {
    self.nodes.iter().find(|n| matches!(n.kind, DNodeKind::Task(tt, _) if tt == t))
  }
  pub fn task_index(&self, t: Tid) -> Option<u32> {
    self.nodes.iter().position(|n| matches!(n.kind, DNodeKind::Task(tt, _) if tt == t)).map(|i| i as u32)
  }
  pub fn known_tasks(&self) -> Vec<Tid> {
    let mut v: Vec<Tid> = self.nodes.iter().filter_map(|n| match n.kind { DNodeKind::Task(t, _) => Some(t), _ => None }).collect();
    v.sort();
    v
  }
  pub fn output_of(&self, t: Tid) -> Option<u8> {
    self.task_node(t).and_then(|n| match n.kind { DNodeKind::Task(_, o) => o, _ => None })
  }

  /// Canonical bytes (exact: nothing a future step can depend on is dropped).
  pub fn bytes(&self, out: &mut Vec<u8>) {
    use std::fmt::Write;
    let mut s = String::new();
    for n in &self.nodes {
      let _ = write!(s, "{:?}@{}>", n.kind, n.rank);
      for (d, k) in &n.out { let _ = write!(s, "{}:{:?},", d, k); }
      s.push('<');
      for (d, k) in &n.inc { let _ = write!(s, "{}:{:?},", d, k); }
      s.push('|');
    }
    let _ = write!(s, "m{},{}", self.task_map_len, self.res_map_len);
    out.extend_from_slice(s.as_bytes());
  }

  pub fn to_json(&self) -> Value {
    Value::Array(self.nodes.iter().enumerate().map(|(i, n)| json!({
      "idx": i, "node": format!("{:?}", n.kind), "rank": n.rank,
      "out": n.out.iter().map(|(d, k)| format!("->{} {:?}", d, k)).collect::<Vec<_>>(),
      "in": n.inc.iter().map(|(d, k)| format!("<-{} {:?}", d, k)).collect::<Vec<_>>(),
    })).collect())
  }
}
