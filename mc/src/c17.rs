//! C17 oracles: nesting of the tracker stream, agreement with the task-side log, composite forwarding, and the
//! recording tracker's stored events, indices and query helpers.

use crate::prog::*;
use crate::runner::{EvtEv, HelperObs, Outcome, Step};
use crate::tracker::TrkEv;
use crate::world::Ev;

#[derive(Clone, PartialEq, Eq, Debug)]
enum Open {
  Build,
  Require(Tid, OC),
  Read(Rid, RC),
  Write(Rid, RC),
  CheckTask(Tid, OC, OStamp),
  CheckRes(Rid, RC, RStamp),
  Exec(Tid),
  SchedByTask(Tid),
  CheckReqTask(Tid, OC, OStamp),
  SchedByRes(Rid),
  CheckReadRes(Tid, RC, RStamp),
}

fn start_of(e: &TrkEv) -> Option<Open> {
  Some(match e {
    TrkEv::BuildStart => Open::Build,
    TrkEv::RequireStart(t, oc) => Open::Require(*t, *oc),
    TrkEv::ReadStart(r, rc) => Open::Read(*r, *rc),
    TrkEv::WriteStart(r, rc) => Open::Write(*r, *rc),
    TrkEv::CheckTaskStart(t, oc, s) => Open::CheckTask(*t, *oc, *s),
    TrkEv::CheckResStart(r, rc, s) => Open::CheckRes(*r, *rc, *s),
    TrkEv::ExecStart(t) => Open::Exec(*t),
    TrkEv::SchedByTaskStart(t) => Open::SchedByTask(*t),
    TrkEv::CheckReqTaskStart(t, oc, s) => Open::CheckReqTask(*t, *oc, *s),
    TrkEv::SchedByResStart(r) => Open::SchedByRes(*r),
    TrkEv::CheckReadResStart(t, rc, s) => Open::CheckReadRes(*t, *rc, *s),
    _ => return None,
  })
}

fn end_of(e: &TrkEv) -> Option<Open> {
  Some(match e {
    TrkEv::BuildEnd => Open::Build,
    TrkEv::RequireEnd(t, oc, _, _) => Open::Require(*t, *oc),
    TrkEv::ReadEnd(r, rc, _) => Open::Read(*r, *rc),
    TrkEv::WriteEnd(r, rc, _) => Open::Write(*r, *rc),
    TrkEv::CheckTaskEnd(t, oc, s, _) => Open::CheckTask(*t, *oc, *s),
    TrkEv::CheckResEnd(r, rc, s, _) => Open::CheckRes(*r, *rc, *s),
    TrkEv::ExecEnd(t, _) => Open::Exec(*t),
    TrkEv::SchedByTaskEnd(t) => Open::SchedByTask(*t),
    TrkEv::CheckReqTaskEnd(t, oc, s, _) => Open::CheckReqTask(*t, *oc, *s),
    TrkEv::SchedByResEnd(r) => Open::SchedByRes(*r),
    TrkEv::CheckReadResEnd(t, rc, s, _) => Open::CheckReadRes(*t, *rc, *s),
    _ => return None,
  })
}

pub fn kinds_seen(stream: &[TrkEv]) -> u32 {
  let mut m = 0u32;
  for e in stream {
    let k = match e {
      TrkEv::BuildStart => 0, TrkEv::BuildEnd => 1, TrkEv::RequireStart(..) => 2, TrkEv::RequireEnd(..) => 3,
      TrkEv::ReadStart(..) => 4, TrkEv::ReadEnd(..) => 5, TrkEv::WriteStart(..) => 6, TrkEv::WriteEnd(..) => 7,
      TrkEv::CheckTaskStart(..) => 8, TrkEv::CheckTaskEnd(..) => 9, TrkEv::CheckResStart(..) => 10, TrkEv::CheckResEnd(..) => 11,
      TrkEv::ExecStart(..) => 12, TrkEv::ExecEnd(..) => 13, TrkEv::SchedByTaskStart(..) => 14, TrkEv::CheckReqTaskStart(..) => 15,
      TrkEv::CheckReqTaskEnd(..) => 16, TrkEv::SchedByTaskEnd(..) => 17, TrkEv::SchedByResStart(..) => 18,
      TrkEv::CheckReadResStart(..) => 19, TrkEv::CheckReadResEnd(..) => 20, TrkEv::SchedByResEnd(..) => 21, TrkEv::ScheduleTask(..) => 22,
    };
    m |= 1 << k;
  }
  m
}

/// Returns (oracle, description) pairs.
pub fn check(prog: &Prog, st: &Step) -> Vec<(String, String)> {
  let mut out: Vec<(String, String)> = Vec::new();
  let stream: Vec<TrkEv> = st.log.iter().filter_map(|e| if let Ev::T(t) = e { Some(t.clone()) } else { None }).collect();

  // (1) composite forwarding: both children received the identical stream.
  if stream != st.rec2 {
    let pos = stream.iter().zip(st.rec2.iter()).position(|(a, b)| a != b).unwrap_or(stream.len().min(st.rec2.len()));
    out.push(("composite-forwarding".into(), format!("the two children of the composite tracker received different streams (lengths {} / {}), first difference at {}: {:?} vs {:?}",
      stream.len(), st.rec2.len(), pos, stream.get(pos), st.rec2.get(pos))));
  }

  // (2) nesting.
  let mut stack: Vec<Open> = Vec::new();
  for (i, e) in stream.iter().enumerate() {
    if let Some(o) = start_of(e) { stack.push(o); }
    else if let Some(o) = end_of(e) {
      match stack.pop() {
        Some(top) if top == o => {}
        top => {
          out.push(("nesting".into(), format!("event {} {:?} does not close the most recent unclosed start {:?}", i, e, top)));
          break;
        }
      }
    }
  }
  if let Outcome::Returned(_) = st.outcome {
    if !stack.is_empty() && !out.iter().any(|(o, _)| o == "nesting") {
      out.push(("unclosed".into(), format!("the build returned but these operations never ended: {:?}", stack)));
    }
  }

  // (3) executions that really ran appear exactly once with the output they returned; (4) require-end carries the
  // value returned to the caller; operations that complete emit start and end.
  let log = &st.log;
  for (i, e) in log.iter().enumerate() {
    match e {
      Ev::T(TrkEv::ExecStart(t)) => {
        if !matches!(log.get(i + 1), Some(Ev::Enter(tt)) if tt == t) {
          out.push(("execute-start".into(), format!("execute_start(T{}) is not followed by the task really starting: {:?}", t, log.get(i + 1))));
        }
      }
      Ev::Enter(t) => {
        if i == 0 || !matches!(&log[i - 1], Ev::T(TrkEv::ExecStart(tt)) if tt == t) {
          out.push(("execute-start".into(), format!("T{} started executing without an execute_start event just before", t)));
        }
      }
      Ev::Exit(t, o) => {
        if !matches!(log.get(i + 1), Some(Ev::T(TrkEv::ExecEnd(tt, oo))) if tt == t && oo == o) {
          out.push(("execute-end".into(), format!("T{} returned {} but the next event is {:?}", t, o, log.get(i + 1))));
        }
      }
      Ev::T(TrkEv::ExecEnd(t, o)) => {
        if i == 0 || !matches!(&log[i - 1], Ev::Exit(tt, oo) if tt == t && oo == o) {
          out.push(("execute-end".into(), format!("execute_end(T{}, {}) without the task having just returned that value", t, o)));
        }
      }
      Ev::T(TrkEv::RequireEnd(t, _, _, o)) => {
        // next non-tracker event must hand `o` to the caller
        let next = log[i + 1..].iter().find(|e| !matches!(e, Ev::T(_)));
        let ok = match next {
          Some(Ev::RetReq(_, _, tt, oo)) => tt == t && oo == o,
          Some(Ev::RootRet(tt, oo)) => tt == t && oo == o,
          _ => false,
        };
        if !ok { out.push(("require-end-value".into(), format!("require_end(T{}) carries {} but the caller got {:?}", t, o, next))); }
      }
      Ev::RetReq(c, _, callee, o) => {
        // enclosing window must contain require_start/end of the callee
        let start = log[..i].iter().rposition(|e| matches!(e, Ev::CallReq(cc, _, cal, _) if cc == c && cal == callee));
        if let Some(s) = start {
          let w = &log[s..i];
          let has_s = w.iter().any(|e| matches!(e, Ev::T(TrkEv::RequireStart(t, _)) if t == callee));
          let has_e = w.iter().any(|e| matches!(e, Ev::T(TrkEv::RequireEnd(t, _, _, oo)) if t == callee && oo == o));
          if !has_s || !has_e { out.push(("require-pair".into(), format!("T{} required T{} (returned {}) without require_start/require_end events (start {}, end {})", c, callee, o, has_s, has_e))); }
        }
      }
      Ev::RetRead(c, _, r, _, _) => {
        let start = log[..i].iter().rposition(|e| matches!(e, Ev::CallRead(cc, _, rr, _) if cc == c && rr == r));
        if let Some(s) = start {
          let w = &log[s..i];
          let ns = w.iter().filter(|e| matches!(e, Ev::T(TrkEv::ReadStart(rr, _)) if rr == r)).count();
          let ne = w.iter().filter(|e| matches!(e, Ev::T(TrkEv::ReadEnd(rr, _, _)) if rr == r)).count();
          if ns != 1 || ne != 1 { out.push(("read-pair".into(), format!("T{} read r{}: {} read_start and {} read_end events", c, r, ns, ne))); }
        }
      }
      Ev::RetWrite(c, _, r) => {
        let start = log[..i].iter().rposition(|e| matches!(e, Ev::CallWrite(cc, _, rr, _, _) if cc == c && rr == r));
        if let Some(s) = start {
          let w = &log[s..i];
          let ns = w.iter().filter(|e| matches!(e, Ev::T(TrkEv::WriteStart(rr, _)) if rr == r)).count();
          let ne = w.iter().filter(|e| matches!(e, Ev::T(TrkEv::WriteEnd(rr, _, _)) if rr == r)).count();
          if ns != 1 || ne != 1 { out.push(("write-pair".into(), format!("T{} wrote r{}: {} write_start and {} write_end events", c, r, ns, ne))); }
        }
      }
      Ev::RootRet(t, o) => {
        let start = log[..i].iter().rposition(|e| matches!(e, Ev::RootReq(tt) if tt == t));
        if let Some(s) = start {
          let w: Vec<&TrkEv> = log[s..i].iter().filter_map(|e| if let Ev::T(t) = e { Some(t) } else { None }).collect();
          let ok = w.len() >= 4
            && *w[0] == TrkEv::BuildStart
            && matches!(w[1], TrkEv::RequireStart(tt, OC::PieAlways) if tt == t)
            && matches!(w[w.len() - 2], TrkEv::RequireEnd(tt, OC::PieAlways, OStamp::Unit, oo) if tt == t && oo == o)
            && *w[w.len() - 1] == TrkEv::BuildEnd;
          if !ok { out.push(("root-require-frame".into(), format!("session require of T{} (returned {}) is not framed by build_start/require_start … require_end/build_end: first {:?}, last {:?}", t, o, w.first(), w.last()))); }
        }
      }
      _ => {}
    }
  }

  // (5) the recording tracker's stored events = projection of the stream since the last build_start, index = position.
  if let Some(bs) = stream.iter().rposition(|e| *e == TrkEv::BuildStart) {
    let mut expected: Vec<EvtEv> = Vec::new();
    for e in &stream[bs..] {
      let idx = expected.len();
      let m = match e {
        TrkEv::BuildStart => EvtEv::BuildStart,
        TrkEv::BuildEnd => EvtEv::BuildEnd,
        TrkEv::RequireStart(t, oc) => EvtEv::RequireStart(*t, *oc, idx),
        TrkEv::RequireEnd(t, oc, s, o) => EvtEv::RequireEnd(*t, *oc, *s, *o, idx),
        TrkEv::ReadStart(r, rc) => EvtEv::ReadStart(*r, *rc, idx),
        TrkEv::ReadEnd(r, rc, s) => EvtEv::ReadEnd(*r, *rc, *s, idx),
        TrkEv::WriteStart(r, rc) => EvtEv::WriteStart(*r, *rc, idx),
        TrkEv::WriteEnd(r, rc, s) => EvtEv::WriteEnd(*r, *rc, *s, idx),
        TrkEv::ExecStart(t) => EvtEv::ExecStart(*t, idx),
        TrkEv::ExecEnd(t, o) => EvtEv::ExecEnd(*t, *o, idx),
        _ => continue,
      };
      expected.push(m);
    }
    if expected != st.evt {
      let pos = expected.iter().zip(st.evt.iter()).position(|(a, b)| a != b).unwrap_or(expected.len().min(st.evt.len()));
      out.push(("event-tracker-slice".into(), format!("EventTracker stores {} events, the stream since the last build_start projects to {}; first difference at {}: stored {:?}, expected {:?}",
        st.evt.len(), expected.len(), pos, st.evt.get(pos), expected.get(pos))));
    }
  }

  // (6) helpers and queries against reference predicates over the stored slice.
  if let Some(h) = &st.helpers {
    if let Some(d) = check_helpers(prog, &st.evt, h) { out.push(("event-helpers".into(), d)); }
  }
  out
}

fn idx_of(e: &EvtEv) -> usize {
  match e {
    EvtEv::BuildStart | EvtEv::BuildEnd => usize::MAX,
    EvtEv::RequireStart(_, _, i) | EvtEv::RequireEnd(_, _, _, _, i) | EvtEv::ReadStart(_, _, i) | EvtEv::ReadEnd(_, _, _, i)
    | EvtEv::WriteStart(_, _, i) | EvtEv::WriteEnd(_, _, _, i) | EvtEv::ExecStart(_, i) | EvtEv::ExecEnd(_, _, i) => *i,
  }
}

/// Reference predicates for every helper, evaluated on the typed mirror of the stored events.
pub fn check_helpers(prog: &Prog, evt: &[EvtEv], h: &HelperObs) -> Option<String> {
  let nt = prog.n_tasks();
  let nr = prog.n_res as usize;
  if h.flags.len() != evt.len() { return Some("helper observation length mismatch".into()); }
  for (i, e) in evt.iter().enumerate() {
    let exp = [matches!(e, EvtEv::BuildStart), matches!(e, EvtEv::BuildEnd), matches!(e, EvtEv::ExecStart(..) | EvtEv::ExecEnd(..))];
    if h.flags[i] != exp {
      return Some(format!("event {} {:?}: [is_build_start, is_build_end, is_execute] = {:?}, expected {:?}", i, e, h.flags[i], exp));
    }
    for t in 0..nt {
      let tt = t as Tid;
      let exp = [
        matches!(e, EvtEv::RequireStart(x, _, _) if *x == tt),
        matches!(e, EvtEv::RequireEnd(x, _, _, _, _) if *x == tt),
        matches!(e, EvtEv::ExecStart(x, _) | EvtEv::ExecEnd(x, _, _) if *x == tt),
        matches!(e, EvtEv::ExecStart(x, _) if *x == tt),
        matches!(e, EvtEv::ExecEnd(x, _, _) if *x == tt),
      ];
      if h.per_task[i][t] != exp {
        return Some(format!("event {} {:?} vs task T{}: [match_require_start, match_require_end, is_execute_of, match_execute_start, match_execute_end] = {:?}, expected {:?}", i, e, t, h.per_task[i][t], exp));
      }
    }
    for r in 0..nr {
      let rr = r as Rid;
      let exp = [
        matches!(e, EvtEv::ReadStart(x, _, _) if *x == rr),
        matches!(e, EvtEv::ReadEnd(x, _, _, _) if *x == rr),
        matches!(e, EvtEv::WriteStart(x, _, _) if *x == rr),
        matches!(e, EvtEv::WriteEnd(x, _, _, _) if *x == rr),
      ];
      if h.per_res[i][r] != exp {
        return Some(format!("event {} {:?} vs resource r{}: [match_read_start, match_read_end, match_write_start, match_write_end] = {:?}, expected {:?}", i, e, r, h.per_res[i][r], exp));
      }
    }
  }
  let any_exec = evt.iter().any(|e| matches!(e, EvtEv::ExecStart(..) | EvtEv::ExecEnd(..)));
  if h.any_execute != any_exec { return Some(format!("any_execute = {}, expected {}", h.any_execute, any_exec)); }
  for t in 0..nt {
    let tt = t as Tid;
    let any_of = evt.iter().any(|e| matches!(e, EvtEv::ExecStart(x, _) | EvtEv::ExecEnd(x, _, _) if *x == tt));
    let one_of = evt.iter().filter(|e| matches!(e, EvtEv::ExecStart(x, _) if *x == tt)).count() == 1;
    if h.exec_queries[t] != [any_of, one_of] {
      return Some(format!("T{}: [any_execute_of, one_execute_of] = {:?}, expected {:?}", t, h.exec_queries[t], [any_of, one_of]));
    }
    let rs = evt.iter().find(|e| matches!(e, EvtEv::RequireStart(x, _, _) if *x == tt)).map(idx_of);
    let re = evt.iter().find(|e| matches!(e, EvtEv::RequireEnd(x, _, _, _, _) if *x == tt)).map(idx_of);
    let es = evt.iter().find(|e| matches!(e, EvtEv::ExecStart(x, _) if *x == tt)).map(idx_of);
    let ee = evt.iter().find(|e| matches!(e, EvtEv::ExecEnd(x, _, _) if *x == tt)).map(idx_of);
    let req = rs.zip(re);
    let exe = es.zip(ee);
    let exp = [req, req, exe, exe];
    if h.task_firsts[t] != exp {
      return Some(format!("T{}: [first_require, first_require_range, first_execute, first_execute_range] = {:?}, expected {:?}", t, h.task_firsts[t], exp));
    }
    if h.task_first_exec_end[t] != ee {
      return Some(format!("T{}: first_execute_end_index = {:?}, expected {:?}", t, h.task_first_exec_end[t], ee));
    }
  }
  for r in 0..nr {
    let rr = r as Rid;
    let a = evt.iter().find(|e| matches!(e, EvtEv::ReadStart(x, _, _) if *x == rr)).map(idx_of);
    let b = evt.iter().find(|e| matches!(e, EvtEv::ReadEnd(x, _, _, _) if *x == rr)).map(idx_of);
    let c = evt.iter().find(|e| matches!(e, EvtEv::WriteStart(x, _, _) if *x == rr)).map(idx_of);
    let d = evt.iter().find(|e| matches!(e, EvtEv::WriteEnd(x, _, _, _) if *x == rr)).map(idx_of);
    let exp = [a.zip(b), a.zip(b), c.zip(d), c.zip(d)];
    if h.res_firsts[r] != exp {
      return Some(format!("r{}: [first_read, first_read_range, first_write, first_write_range] = {:?}, expected {:?}", r, h.res_firsts[r], exp));
    }
    if h.res_first_ends[r] != [b, d] {
      return Some(format!("r{}: [first_read_end_index, first_write_end_index] = {:?}, expected {:?}", r, h.res_first_ends[r], [b, d]));
    }
  }
  None
}
