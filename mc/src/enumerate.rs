//! Program enumeration (DESIGN §3.6): all programs up to a size bound, modulo renaming of tasks and resources and
//! modulo dead/redundant guards, smallest first.

use std::collections::BTreeSet;

use crate::m1::permutations;
use crate::prog::*;

#[derive(Clone, Debug)]
pub struct EnumCfg {
  pub n_tasks: usize,
  pub n_res: u8,
  /// total number of statements (exactly enumerated for every total 0..=max_total)
  pub max_total: usize,
  pub max_per_task: usize,
  pub ocs: Vec<OC>,
  pub read_rcs: Vec<RC>,
  pub write_rcs: Vec<RC>,
  pub srcs: Vec<Src>,
  pub write_decl: bool,
  pub panic_op: bool,
  pub guards: bool,
  /// guard values offered (subset of {0,1,2})
  pub guard_vals: Vec<u8>,
  /// allow a task to require itself / any task (cycles)
  pub self_req: bool,
  /// every body starts with this statement (not counted in the size bounds)
  pub mandatory_first: Option<Op>,
}

impl EnumCfg {
  pub fn structural(n_tasks: usize, n_res: u8, max_total: usize) -> Self {
    EnumCfg {
      n_tasks, n_res, max_total, max_per_task: max_total,
      ocs: vec![OC::Equals], read_rcs: vec![RC::Exact], write_rcs: vec![RC::Exact], srcs: vec![Src::Acc, Src::One],
      write_decl: false, panic_op: false, guards: true, guard_vals: vec![0, 1, 2], self_req: true, mandatory_first: None,
    }
  }
  pub fn describe(&self) -> String {
    format!("{}N={} R={} K<={} ocs={:?} read_rcs={:?} write_rcs={:?} srcs={:?} write_decl={} panic={} guards={}",
      match &self.mandatory_first { Some(op) => format!("every body starts with {:?} (+K more statements) ", op), None => String::new() },
      self.n_tasks, self.n_res, self.max_total, self.ocs, self.read_rcs, self.write_rcs, self.srcs, self.write_decl, self.panic_op, if self.guards { format!("{:?}", self.guard_vals) } else { "none".into() })
  }
}

fn ops(cfg: &EnumCfg, t: Tid) -> Vec<Op> {
  let mut v = Vec::new();
  for callee in 0..cfg.n_tasks as Tid {
    if callee == t && !cfg.self_req { continue; }
    for oc in &cfg.ocs { v.push(Op::Req(callee, *oc)); }
  }
  for r in 0..cfg.n_res {
    for rc in &cfg.read_rcs { v.push(Op::Read(r, *rc)); }
  }
  for r in 0..cfg.n_res {
    for src in &cfg.srcs {
      for rc in &cfg.write_rcs {
        v.push(Op::Write(r, *src, *rc));
        if cfg.write_decl { v.push(Op::WriteDecl(r, *src, *rc)); }
      }
    }
  }
  if cfg.panic_op { v.push(Op::Panic); }
  v
}

/// Possible values of `acc` after `op` executed with possible values `p` (bitmask over {0,1,2}).
fn effect(op: &Op, p: u8) -> u8 {
  match op {
    Op::Req(_, oc) => match oc { OC::Equals | OC::PieEquals => 0b111, OC::IsZero => 0b011, OC::Always | OC::PieAlways | OC::Near | OC::UnitPred => p },
    Op::Read(_, rc) => match rc { RC::Exact | RC::Faulty => 0b111, RC::Exists => 0b011, RC::Always => p },
    Op::Write(..) | Op::WriteDecl(..) => p,
    Op::Panic => 0,
  }
}

/// All bodies of exactly `len` statements for task `t` (guards pruned: a guard on a value `acc` cannot have is dead,
/// a guard on the only possible value is redundant).
fn bodies(cfg: &EnumCfg, t: Tid, len: usize) -> Vec<Vec<Stmt>> {
  fn go(cfg: &EnumCfg, ops: &[Op], len: usize, possible: u8, cur: &mut Vec<Stmt>, out: &mut Vec<Vec<Stmt>>) {
    if cur.len() == len { out.push(cur.clone()); return; }
    if possible == 0 { return; } // unreachable statement
    for op in ops {
      // unguarded
      cur.push(Stmt { guard: None, op: *op });
      go(cfg, ops, len, effect(op, possible), cur, out);
      cur.pop();
      if cfg.guards && possible.count_ones() > 1 {
        for g in 0..3u8 {
          if possible & (1 << g) == 0 || !cfg.guard_vals.contains(&g) { continue; }
          let after = (possible & !(1 << g)) | effect(op, 1 << g);
          cur.push(Stmt { guard: Some(g), op: *op });
          go(cfg, ops, len, after, cur, out);
          cur.pop();
        }
      }
    }
  }
  let mut out = Vec::new();
  match &cfg.mandatory_first {
    None => go(cfg, &ops(cfg, t), len, 0b001, &mut Vec::new(), &mut out),
    Some(op) => {
      let mut cur = vec![Stmt { guard: None, op: *op }];
      go(cfg, &ops(cfg, t), len + 1, effect(op, 0b001), &mut cur, &mut out);
    }
  }
  out
}

fn rename(p: &Prog, tperm: &[Tid], rperm: &[Rid]) -> Prog {
  // tperm[old] = new
  let n = p.bodies.len();
  let mut bodies = vec![Vec::new(); n];
  for (old, body) in p.bodies.iter().enumerate() {
    bodies[tperm[old] as usize] = body.iter().map(|s| Stmt {
      guard: s.guard,
      op: match s.op {
        Op::Req(t, oc) => Op::Req(tperm[t as usize], oc),
        Op::Read(r, rc) => Op::Read(rperm[r as usize], rc),
        Op::Write(r, src, rc) => Op::Write(rperm[r as usize], src, rc),
        Op::WriteDecl(r, src, rc) => Op::WriteDecl(rperm[r as usize], src, rc),
        Op::Panic => Op::Panic,
      },
    }).collect();
  }
  Prog { n_res: p.n_res, bodies }
}

/// Lexicographically least renaming.
pub fn canonical(p: &Prog) -> Prog {
  let tperms = permutations(p.bodies.len());
  let rperms = permutations(p.n_res as usize);
  let mut best: Option<Prog> = None;
  for tp in &tperms {
    for rp in &rperms {
      let q = rename(p, tp, rp);
      if best.as_ref().map(|b| q < *b).unwrap_or(true) { best = Some(q); }
    }
  }
  best.unwrap()
}

fn compositions(n: usize, total: usize, max_per: usize) -> Vec<Vec<usize>> {
  fn go(n: usize, left: usize, max_per: usize, cur: &mut Vec<usize>, out: &mut Vec<Vec<usize>>) {
    if cur.len() == n - 1 {
      if left <= max_per { let mut c = cur.clone(); c.push(left); out.push(c); }
      return;
    }
    for k in 0..=left.min(max_per) {
      cur.push(k);
      go(n, left - k, max_per, cur, out);
      cur.pop();
    }
  }
  let mut out = Vec::new();
  go(n, total, max_per, &mut Vec::new(), &mut out);
  out
}

/// Enumerates canonical programs, smallest total size first. `keep` filters (it is given the canonical program).
pub fn enumerate(cfg: &EnumCfg, mut keep: impl FnMut(&Prog) -> bool) -> Vec<Prog> {
  let mut seen: BTreeSet<Prog> = BTreeSet::new();
  let mut out = Vec::new();
  for total in 0..=cfg.max_total {
    for comp in compositions(cfg.n_tasks, total, cfg.max_per_task) {
      // Symmetry: only non-increasing body lengths need be generated (renaming sorts the rest) -- but renaming
      // also permutes require targets, so we simply generate everything and deduplicate on the canonical form.
      let per_task: Vec<Vec<Vec<Stmt>>> = comp.iter().enumerate().map(|(t, len)| bodies(cfg, t as Tid, *len)).collect();
      let mut idx = vec![0usize; cfg.n_tasks];
      'outer: loop {
        let p = Prog { n_res: cfg.n_res, bodies: (0..cfg.n_tasks).map(|t| per_task[t][idx[t]].clone()).collect() };
        let c = canonical(&p);
        if !seen.contains(&c) {
          if keep(&c) { out.push(c.clone()); }
          seen.insert(c);
        }
        // next index vector
        let mut t = 0;
        loop {
          if t == cfg.n_tasks { break 'outer; }
          idx[t] += 1;
          if idx[t] < per_task[t].len() { break; }
          idx[t] = 0;
          t += 1;
        }
      }
    }
  }
  out
}

#[cfg(test)]
mod tests {
  use super::*;
  #[test]
  fn small_counts() {
    let cfg = EnumCfg::structural(2, 1, 2);
    let all = enumerate(&cfg, |_| true);
    assert!(all.len() > 10);
    // canonical forms are fixed points
    for p in &all { assert_eq!(&canonical(p), p); }
  }
}
