//! C13 — "File checkers detect exactly what they document; stamp routes agree".
//!
//! Technique: exhaustive enumeration of a finite alphabet of path states on the REAL file system with the real
//! `ExistsChecker`, `ModifiedChecker`, `HashChecker`, `Resource for PathBuf` and a real `Pie`'s resource state.
//!
//! Alphabet: `Absent`; `File(size, variant, mtime)`; `Dir(names, mtime)` with modification times set explicitly to one
//! of two fixed instants (no sleeping, no dependence on timer granularity). Every state is materialised by removing
//! whatever is at the path, creating the new state, and setting the mtime last.
//! `Link(target)`: the path is a symbolic link to a regular file / directory living next to it (target with an explicit
//! mtime, link created afterwards so its own lstat mtime differs); for every oracle it is exactly its target's state.
//! Going from one link state to another keeps the link and modifies the target (through the link for file -> file,
//! directly otherwise). No dangling links, no link chains or loops.
//!
//! Phases (all exhaustive over the tier's alphabet, smallest states first):
//! * `write-open`: `path.write` on every prior state (creates / truncates + readable+writable handle / refuses dir).
//! * `untouched`: stamp by every route, check immediately without touching the path => consistent.
//! * `pair`: every ordered pair (S1 when stamped, S2 when checked) x 3 checkers x routes
//!   (path; fresh reader; writer that just produced the state; writer whose file was removed => Absent stamp).
//! * `seq`: all length-3 sequences S1,S2,S3 (thorough: full alphabet; quick: a 19-state core alphabet); every state
//!   is produced the way a task would (file: through a pie writer over the previous state; absent: writer created,
//!   file removed), stamped by every route of every checker, and stamps from every earlier state are checked at
//!   every later one.
//!
//! Directory states of the pair / seq phases are pre-built once per worker (entries created in a fresh directory) and
//! moved to the path with a same-directory `rename` (`mkdir`+`rmdir` cost ~0.5 ms here); the write-open phase and
//! the preflight build them in place. Each worker owns a private sub-directory of `/verif/tmp/c13-<pid>` and a
//! private `Pie`; the scratch directory is removed at the end of the run, also on failure paths.
//!
//! Nothing here is sampled; there is no randomness. Harness-side I/O failures are engine errors (exit 3).

use std::collections::{BTreeMap, BTreeSet};
use std::fs::{self, File};
use std::io::{self, Read, Seek, Write};
use std::panic::{catch_unwind, AssertUnwindSafe};
use std::path::{Path, PathBuf};
use std::sync::atomic::{AtomicBool, AtomicUsize, Ordering};
use std::sync::Mutex;
use std::time::{Duration, Instant, SystemTime, UNIX_EPOCH};

use pie::resource::file::hash_checker::HashChecker;
use pie::resource::file::{ExistsChecker, FsError, ModifiedChecker, OpenRead};
use pie::{Pie, Resource, ResourceChecker};
use serde_json::{json, Value};

use crate::common::{engine_error, verif_dir, Args, Report, Tier, Violation};

// ---------------------------------------------------------------------------------------------------------------------
// Alphabet
// ---------------------------------------------------------------------------------------------------------------------

const QUICK_SIZES: &[usize] = &[0, 1, 8192, 8193];
const FULL_SIZES: &[usize] = &[0, 1, 8191, 8192, 8193, 16384, 24577];
const NAME_POOL: &[&str] = &["a", "b", "c", "ab", "ba", "bc"];
/// Subsets of the extra names have at most this many names.
const MAX_EXTRA_NAMES: usize = 2;

/// A directory entry name: arbitrary bytes (unix), not necessarily UTF-8.
#[derive(Clone, PartialEq, Eq, PartialOrd, Ord, Hash)]
pub struct Name(pub Vec<u8>);

impl Name {
  pub fn new(b: &[u8]) -> Name { Name(b.to_vec()) }
  fn os(&self) -> &std::ffi::OsStr { <std::ffi::OsStr as std::os::unix::ffi::OsStrExt>::from_bytes(&self.0) }
  /// Readable, reversible text form: printable ASCII except `%` as is, every other byte as `%XX`.
  pub fn encoded(&self) -> String {
    let mut out = String::new();
    for &b in &self.0 {
      if (0x21..=0x7E).contains(&b) && b != b'%' { out.push(b as char); } else { out.push_str(&format!("%{:02X}", b)); }
    }
    out
  }
  pub fn decode(text: &str) -> Result<Name, String> {
    let t = text.as_bytes();
    let mut out = Vec::new();
    let mut i = 0;
    while i < t.len() {
      if t[i] == b'%' {
        let hex = text.get(i + 1..i + 3).ok_or_else(|| format!("bad escape in name {:?}", text))?;
        out.push(u8::from_str_radix(hex, 16).map_err(|_| format!("bad escape in name {:?}", text))?);
        i += 3;
      } else { out.push(t[i]); i += 1; }
    }
    if out.is_empty() || out == b"." || out == b".." || out.contains(&b'/') || out.contains(&0) || out.len() > 255 { return Err(format!("bad entry name {:?}", text)); }
    Ok(Name(out))
  }
}

impl std::fmt::Debug for Name {
  fn fmt(&self, f: &mut std::fmt::Formatter<'_>) -> std::fmt::Result { write!(f, "\"{}\"", self.encoded()) }
}

fn names_json(names: &[Name]) -> Value { Value::Array(names.iter().map(|n| json!(n.encoded())).collect()) }

/// Extra entry names: one representative per shortcut a name-hashing implementation could take. With the reason.
pub fn extra_names() -> Vec<(Name, &'static str)> {
  let long = |last: u8| { let mut v = vec![b'L'; 199]; v.push(last); Name(v) };
  vec![
    (Name::new(b"\xFF"), "not UTF-8, differs from %FE only in the invalid byte (lossy conversion maps both to U+FFFD)"),
    (Name::new(b"\xFE"), "not UTF-8"),
    (Name::new(b"x\xE9"), "not UTF-8 (Latin-1 'xé'), differs from x%E8 only in the invalid byte"),
    (Name::new(b"x\xE8"), "not UTF-8 (Latin-1 'xè')"),
    (Name::new("\u{e9}".as_bytes()), "valid 2-byte UTF-8 'é', differs from 'è' only in the last byte of the sequence"),
    (Name::new("\u{e8}".as_bytes()), "valid 2-byte UTF-8 'è'"),
    (Name::new("\u{FFFD}".as_bytes()), "the lossy replacement character itself (equals the lossy form of %FF / %FE)"),
    (Name::new(b"A"), "differs from 'a' only in case"),
    (Name::new(b"a b"), "contains a space; concatenation of a, b with a space delimiter"),
    (Name::new(b"b a"), "same, other read_dir order"),
    (Name::new(b"a\n"), "prefix 'a' plus a separator-like character"),
    (Name::new(b"a\nb"), "concatenation of a, b with a newline delimiter"),
    (Name::new(b"b\na"), "same, other read_dir order"),
    (long(b'0'), "200 bytes, differs from the other long name only in the last byte"),
    (long(b'1'), "200 bytes"),
    (Name::new(b".hidden"), "dot-file (a listing that skips names starting with '.' drops it)"),
    (Name::new(b".a"), "dot-file next to 'a': {a}, {a, .a} and {.a} are three different name sets"),
    (Name::new(b"..x"), "starts with two dots but is neither '.' nor '..'"),
    (Name::new(b"aa"), "repetition of one letter: {a, aaaa} and {aa, aaa} have equal cardinality and equal concatenation in every listing order"),
    (Name::new(b"aaa"), "repetition of one letter"),
    (Name::new(b"aaaa"), "repetition of one letter"),
  ]
}

/// The extra names form three groups: dot-names (starting with '.'), repetitions of the letter 'a', and all others
/// (encoding, case, delimiter, length).
fn name_group(n: &Name) -> u8 {
  if n.0.first() == Some(&b'.') { 1 } else if n.0.len() >= 2 && n.0.iter().all(|b| *b == b'a') { 2 } else { 0 }
}

/// Name sets over the extra names: every single extra name, every pair of two extra names of the same group, plus
/// every pair (one of the six ASCII names, one extra name; for the repetition group only with the ASCII name `a`).
/// Smallest first.
pub fn extra_name_sets(extra: &[Name]) -> Vec<Vec<Name>> {
  let mut sets: Vec<Vec<Name>> = Vec::new();
  for (i, a) in extra.iter().enumerate() {
    sets.push(vec![a.clone()]);
    if MAX_EXTRA_NAMES >= 2 { for b in &extra[i + 1..] { if name_group(a) == name_group(b) { sets.push(vec![a.clone(), b.clone()]); } } }
    for o in NAME_POOL { if name_group(a) != 2 || *o == "a" { sets.push(vec![Name::new(o.as_bytes()), a.clone()]); } }
  }
  for s in sets.iter_mut() { s.sort(); }
  sets.sort_by_key(|s| (s.len(), s.iter().map(|x| x.0.len()).sum::<usize>(), s.clone()));
  sets.dedup();
  sets
}
const MAX_NAMES: usize = 3;
/// The two explicit modification instants (whole seconds: representable on every file system).
const T_SECS: [u64; 2] = [1_000_000_000, 1_500_000_000];

/// Third logical instant (index 2): a modification time in the FUTURE, one day after the start of this process
/// (whole seconds), set explicitly like T1 / T2.
const MT_FUTURE: u8 = 2;
fn future_secs() -> u64 {
  static F: std::sync::OnceLock<u64> = std::sync::OnceLock::new();
  *F.get_or_init(|| SystemTime::now().duration_since(UNIX_EPOCH).map(|d| d.as_secs()).unwrap_or(2_000_000_000) + 86_400)
}
fn instant(mt: u8) -> SystemTime { UNIX_EPOCH + Duration::from_secs(if mt == MT_FUTURE { future_secs() } else { T_SECS[mt as usize] }) }
fn mt_name(mt: u8) -> &'static str { match mt { 0 => "T1", 1 => "T2", _ => "T_FUTURE" } }

/// Content variant of a file state.
#[derive(Clone, Copy, PartialEq, Eq, PartialOrd, Ord, Hash, Debug)]
pub enum Variant {
  /// Base pattern without short periods (byte i is a function of i only, so shorter base contents are prefixes).
  Base,
  LastDiffers,
  FirstDiffers,
  /// All bytes zero.
  Zero,
  /// All bytes `x`.
  Uniform,
  /// The 16-byte line `0123456789abcde\n` repeated (cut at `size`).
  Lines,
  /// Base pattern of `size - k` bytes followed by `k` NUL bytes.
  BaseNul(u8),
  /// The text `data\n` repeated (cut at `size`).
  Data,
  /// `Data` of `size - k` bytes followed by `k` NUL bytes.
  DataNul(u8),
}

const LINE16: &[u8; 16] = b"0123456789abcde\n";
const DATA: &[u8; 5] = b"data\n";

impl Variant {
  fn as_str(self) -> String {
    match self {
      Variant::Base => "base".into(), Variant::LastDiffers => "last-byte-differs".into(), Variant::FirstDiffers => "first-byte-differs".into(),
      Variant::Zero => "all-zero".into(), Variant::Uniform => "uniform-x".into(), Variant::Lines => "lines16".into(),
      Variant::BaseNul(k) => format!("base+{}nul", k), Variant::Data => "data".into(), Variant::DataNul(k) => format!("data+{}nul", k),
    }
  }
  fn parse(s: &str) -> Option<Self> {
    let nul = |rest: &str| rest.strip_suffix("nul").and_then(|k| k.parse::<u8>().ok()).filter(|k| *k >= 1);
    match s {
      "base" => Some(Variant::Base), "last-byte-differs" => Some(Variant::LastDiffers), "first-byte-differs" => Some(Variant::FirstDiffers),
      "all-zero" => Some(Variant::Zero), "uniform-x" => Some(Variant::Uniform), "lines16" => Some(Variant::Lines), "data" => Some(Variant::Data),
      _ => if let Some(r) = s.strip_prefix("base+") { nul(r).map(Variant::BaseNul) } else if let Some(r) = s.strip_prefix("data+") { nul(r).map(Variant::DataNul) } else { None },
    }
  }
  /// Smallest size at which the variant is defined.
  fn min_size(self) -> usize {
    match self { Variant::LastDiffers => 1, Variant::FirstDiffers => 2, Variant::BaseNul(k) | Variant::DataNul(k) => k as usize, _ => 0 }
  }
}

/// One state of the path.
#[derive(Clone, PartialEq, Eq, PartialOrd, Ord, Hash, Debug)]
pub enum St {
  Absent,
  File { size: usize, var: Variant, mt: u8 },
  /// `names` is sorted and duplicate free; entries are created in this order as empty files.
  Dir { names: Vec<Name>, mt: u8 },
  /// The path is a symbolic link to a regular file or directory (never to nothing, never to a link) that lives
  /// next to the path in the scratch directory. The target has the explicit mtime of its state; the link's own
  /// (lstat) mtime is the wall-clock time of its creation, i.e. different from both logical instants. For every oracle
  /// this state is exactly its target's state: the path resolves to it.
  Link { target: Box<St> },
}

#[derive(Clone, Copy, PartialEq, Eq, PartialOrd, Ord, Hash, Debug)]
pub enum Kind { Absent, File, Dir }

impl Kind { fn as_str(self) -> &'static str { match self { Kind::Absent => "absent", Kind::File => "file", Kind::Dir => "dir" } } }

impl St {
  /// What the path resolves to: the target for a symbolic link, the state itself otherwise.
  pub fn resolved(&self) -> &St { match self { St::Link { target } => target.resolved(), other => other } }
  pub fn is_link(&self) -> bool { matches!(self, St::Link { .. }) }
  pub fn kind(&self) -> Kind { match self.resolved() { St::Absent => Kind::Absent, St::File { .. } => Kind::File, St::Dir { .. } => Kind::Dir, St::Link { .. } => unreachable!() } }
  pub fn exists(&self) -> bool { !matches!(self.resolved(), St::Absent) }
  pub fn mtime(&self) -> Option<u8> { match self.resolved() { St::File { mt, .. } | St::Dir { mt, .. } => Some(*mt), _ => None } }
  /// File content (None for non-files).
  pub fn content(&self) -> Option<Vec<u8>> {
    match self.resolved() { St::File { size, var, .. } => Some(content(*size, *var)), _ => None }
  }
  pub fn to_json(&self) -> Value {
    match self {
      St::Absent => json!({"kind": "absent"}),
      St::File { size, var, mt } => json!({"kind": "file", "size": size, "variant": var.as_str(), "mtime": mt_name(*mt)}),
      St::Dir { names, mt } => json!({"kind": "dir", "names": names_json(names), "mtime": mt_name(*mt)}),
      St::Link { target } => json!({"kind": "symlink", "target": target.to_json()}),
    }
  }
  pub fn from_json(v: &Value) -> Result<St, String> {
    let mt = |v: &Value| -> Result<u8, String> {
      match v.get("mtime").and_then(|m| m.as_str()) { Some("T1") => Ok(0), Some("T2") => Ok(1), Some("T_FUTURE") => Ok(MT_FUTURE), o => Err(format!("bad mtime {:?}", o)) }
    };
    match v.get("kind").and_then(|k| k.as_str()) {
      Some("absent") => Ok(St::Absent),
      Some("symlink") => {
        let target = St::from_json(v.get("target").ok_or("symlink state without target")?)?;
        if !matches!(target, St::File { .. } | St::Dir { .. }) { return Err("a symlink state needs a file or directory target (no dangling links, no chains)".into()); }
        Ok(St::Link { target: Box::new(target) })
      }
      Some("file") => {
        let size = v.get("size").and_then(|s| s.as_u64()).ok_or("file state without size")? as usize;
        if size > (1 << 26) { return Err("file size too large".into()); }
        let var = v.get("variant").and_then(|s| s.as_str()).and_then(Variant::parse).ok_or("bad variant")?;
        if size < var.min_size() { return Err("variant not available at this size".into()); }
        Ok(St::File { size, var, mt: mt(v)? })
      }
      Some("dir") => {
        let arr = v.get("names").and_then(|n| n.as_array()).ok_or("dir state without names")?;
        let mut names = Vec::new();
        for n in arr {
          names.push(Name::decode(n.as_str().ok_or("name not a string")?)?);
        }
        names.sort();
        names.dedup();
        Ok(St::Dir { names, mt: mt(v)? })
      }
      o => Err(format!("bad state kind {:?}", o)),
    }
  }
}

/// Deterministic content of exactly `size` bytes.
pub fn content(size: usize, var: Variant) -> Vec<u8> {
  let base = |n: usize| -> Vec<u8> { (0..n).map(|i| ((i.wrapping_mul(31).wrapping_add(i >> 8).wrapping_add(7)) % 251) as u8).collect() };
  let cyclic = |n: usize, pat: &[u8]| -> Vec<u8> { (0..n).map(|i| pat[i % pat.len()]).collect() };
  let padded = |mut v: Vec<u8>, k: u8| -> Vec<u8> { v.extend(std::iter::repeat(0u8).take(k as usize)); v };
  let mut v = match var {
    Variant::Base | Variant::LastDiffers | Variant::FirstDiffers => base(size),
    Variant::Zero => vec![0u8; size],
    Variant::Uniform => vec![b'x'; size],
    Variant::Lines => cyclic(size, LINE16),
    Variant::Data => cyclic(size, DATA),
    Variant::BaseNul(k) => padded(base(size.saturating_sub(k as usize)), k),
    Variant::DataNul(k) => padded(cyclic(size.saturating_sub(k as usize), DATA), k),
  };
  match var {
    Variant::LastDiffers => if let Some(b) = v.last_mut() { *b ^= 0xFF },
    Variant::FirstDiffers => if let Some(b) = v.first_mut() { *b ^= 0xFF },
    _ => {}
  }
  debug_assert!(v.len() == size || size < var.min_size());
  v
}

thread_local! { static CONTENT_EQ: std::cell::RefCell<BTreeMap<((usize, Variant), (usize, Variant)), bool>> = const { std::cell::RefCell::new(BTreeMap::new()) }; }

/// Are the contents of two file states equal? (Decided on the actual bytes; memoised per thread.)
pub fn contents_equal(a: (usize, Variant), b: (usize, Variant)) -> bool {
  if a.0 != b.0 { return false; }
  if a.1 == b.1 { return true; }
  CONTENT_EQ.with(|m| *m.borrow_mut().entry((a, b)).or_insert_with(|| content(a.0, a.1) == content(b.0, b.1)))
}

fn contents_equal_states(a: &St, b: &St) -> bool {
  match (a.resolved(), b.resolved()) { (St::File { size: x, var: vx, .. }, St::File { size: y, var: vy, .. }) => contents_equal((*x, *vx), (*y, *vy)), _ => false }
}

/// The base file contents of a tier: (size, variant), smallest first.
pub fn base_file_contents(sizes: &[usize]) -> Vec<(usize, Variant)> {
  let mut out = Vec::new();
  for &size in sizes {
    for var in [Variant::Base, Variant::LastDiffers, Variant::FirstDiffers] { if size >= var.min_size() { out.push((size, var)); } }
  }
  out
}

/// Extra file contents: one representative per shortcut a content-hashing implementation could take (padding to a
/// block, ignoring trailing NULs, hashing a period or a prefix, ...). For every size class `s`: all-zero, uniform `x`,
/// periodic 16-byte lines (each of `s` bytes) and the base content of `s` bytes plus 1 and 2 trailing NULs (`s+1`,
/// `s+2` bytes); plus fixed representatives: `\0`, `\0\0` (against the empty file), `data\n` with 0/1/2 trailing NULs,
/// 8292 and 8392 bytes of `x`, 515 and 519 identical 16-byte lines. Smallest first; contents equal to an earlier
/// (base or extra) content are left out, so all file contents of the alphabet are pairwise different.
pub fn extra_file_contents(sizes: &[usize]) -> Vec<(usize, Variant)> {
  let mut cand: Vec<(usize, Variant)> = vec![
    (1, Variant::Zero), (2, Variant::Zero), (5, Variant::Data), (6, Variant::DataNul(1)), (7, Variant::DataNul(2)),
    (8292, Variant::Uniform), (8392, Variant::Uniform), (515 * 16, Variant::Lines), (519 * 16, Variant::Lines),
  ];
  for &s in sizes {
    cand.extend([(s, Variant::Zero), (s, Variant::Uniform), (s, Variant::Lines), (s + 1, Variant::BaseNul(1)), (s + 2, Variant::BaseNul(2))]);
  }
  cand.sort();
  cand.dedup();
  let mut seen: BTreeSet<Vec<u8>> = base_file_contents(sizes).into_iter().map(|(s, v)| content(s, v)).collect();
  cand.into_iter().filter(|(s, v)| seen.insert(content(*s, *v))).collect()
}

/// All subsets of at most `MAX_NAMES` names of the pool, smallest first (count, total length, lexicographic).
pub fn name_sets() -> Vec<Vec<Name>> {
  let n = NAME_POOL.len();
  let mut sets: Vec<Vec<Name>> = Vec::new();
  for mask in 0u32..(1 << n) {
    if mask.count_ones() as usize > MAX_NAMES { continue; }
    let mut s: Vec<Name> = (0..n).filter(|i| mask & (1 << i) != 0).map(|i| Name::new(NAME_POOL[i].as_bytes())).collect();
    s.sort();
    sets.push(s);
  }
  sets.sort_by_key(|s| (s.len(), s.iter().map(|x| x.0.len()).sum::<usize>(), s.clone()));
  sets
}

/// The alphabet of path states, smallest first.
pub fn alphabet(sizes: &[usize], sets: &[Vec<Name>]) -> Vec<St> {
  let mut out = vec![St::Absent];
  for (size, var) in base_file_contents(sizes) { for mt in 0..2u8 { out.push(St::File { size, var, mt }); } }
  for names in sets { for mt in 0..2u8 { out.push(St::Dir { names: names.clone(), mt }); } }
  out
}

/// Symbolic-link states (both tiers): links to files (empty; larger than the read buffer with two contents and two
/// mtimes, so that "target modified" covers content-only and mtime-only changes) and links to directories (three
/// listings, two mtimes). No dangling links, no link chains or loops.
pub fn link_states() -> Vec<St> {
  let l = |t: St| St::Link { target: Box::new(t) };
  let d = |names: &[&[u8]], mt: u8| { let mut n: Vec<Name> = names.iter().map(|s| Name::new(s)).collect(); n.sort(); St::Dir { names: n, mt } };
  vec![
    l(St::File { size: 0, var: Variant::Base, mt: 0 }),
    l(St::File { size: 8193, var: Variant::Base, mt: 0 }),
    l(St::File { size: 8193, var: Variant::Base, mt: 1 }),
    l(St::File { size: 8193, var: Variant::LastDiffers, mt: 0 }),
    l(d(&[], 0)), l(d(&[b"a"], 0)), l(d(&[b"a"], 1)), l(d(&[b"a", b"b"], 0)),
  ]
}

/// States whose modification time lies in the future (both tiers; base states: all checkers, all partners).
pub fn future_states() -> Vec<St> {
  let big = St::File { size: 8193, var: Variant::Base, mt: MT_FUTURE };
  vec![
    St::File { size: 0, var: Variant::Base, mt: MT_FUTURE }, big.clone(),
    St::Dir { names: vec![Name::new(b"a")], mt: MT_FUTURE }, St::Link { target: Box::new(big) },
  ]
}

/// Small alphabet for the quick tier's length-3 sequences.
fn core_alphabet() -> Vec<St> {
  let mut out = alphabet(&[0, 1, 8193], &[]);
  let d = |names: &[&[u8]], mt: u8| { let mut n: Vec<Name> = names.iter().map(|s| Name::new(s)).collect(); n.sort(); St::Dir { names: n, mt } };
  out.extend([d(&[], 0), d(&[b"a"], 0), d(&[b"a"], 1), d(&[b"ab"], 0), d(&[b"ba"], 0), d(&[b"a", b"b"], 0)]);
  out
}

// ---------------------------------------------------------------------------------------------------------------------
// Reference relations
// ---------------------------------------------------------------------------------------------------------------------

#[derive(Clone, Copy, PartialEq, Eq, PartialOrd, Ord, Hash, Debug)]
pub enum Ck { Exists, Modified, Hash }

impl Ck {
  pub const ALL: [Ck; 3] = [Ck::Exists, Ck::Modified, Ck::Hash];
  fn as_str(self) -> &'static str { match self { Ck::Exists => "ExistsChecker", Ck::Modified => "ModifiedChecker", Ck::Hash => "HashChecker" } }
  fn parse(s: &str) -> Option<Ck> { Ck::ALL.into_iter().find(|c| c.as_str() == s) }
}

#[derive(Clone, Copy, PartialEq, Eq, PartialOrd, Ord, Hash, Debug)]
pub enum Route {
  Path,
  Reader,
  Writer,
  /// The path became absent under the open writer: `remove_file(path)`.
  WriterRemoved,
  /// ... the file was renamed away to a sibling outside the inspected path (the inode keeps a link).
  WriterRenamed,
  /// ... the file was hard-linked to a sibling, then the path removed (the inode keeps a link).
  WriterHardlinked,
}

/// The three ways the path becomes absent under an open writer.
const ABSENT_WRITER_ROUTES: [Route; 3] = [Route::WriterRemoved, Route::WriterRenamed, Route::WriterHardlinked];

/// Sequences: which of them produces an Absent state at position `j`.
fn absent_route_at(j: usize) -> Route { [Route::WriterHardlinked, Route::WriterRenamed, Route::WriterRemoved][j % 3] }

impl Route {
  fn as_str(self) -> &'static str {
    match self {
      Route::Path => "path", Route::Reader => "reader", Route::Writer => "writer", Route::WriterRemoved => "writer-removed",
      Route::WriterRenamed => "writer-renamed-away", Route::WriterHardlinked => "writer-hardlinked-then-removed",
    }
  }
  fn parse(s: &str) -> Option<Route> {
    [Route::Path, Route::Reader, Route::Writer, Route::WriterRemoved, Route::WriterRenamed, Route::WriterHardlinked].into_iter().find(|r| r.as_str() == s)
  }
  /// Does this route apply to a state of this kind? (writer: the task wrote the file; writer-removed: the task
  /// removed the file after creating the writer, so the state is Absent.)
  fn applies(self, k: Kind) -> bool {
    match self {
      Route::Path | Route::Reader => true, Route::Writer => k == Kind::File,
      Route::WriterRemoved | Route::WriterRenamed | Route::WriterHardlinked => k == Kind::Absent,
    }
  }
}

/// What the property claims about `check(stamp of s1)` evaluated in `s2`.
#[derive(Clone, Copy, PartialEq, Eq, PartialOrd, Ord, Hash, Debug)]
pub enum Expect {
  Consistent,
  Inconsistent,
  /// Directory with the same name set, re-created: consistent is expected, but an inconsistent verdict caused by a
  /// different `read_dir` order is not claimed by the property (only "untouched => consistent" is).
  ConsistentUnlessReordered,
  /// Hash checker, change of kind between file and directory: not claimed.
  NotClaimed,
}

impl Expect {
  fn as_str(self) -> &'static str {
    match self {
      Expect::Consistent => "consistent", Expect::Inconsistent => "inconsistent",
      Expect::ConsistentUnlessReordered => "consistent (not judged if inconsistent: re-created directory)",
      Expect::NotClaimed => "not claimed",
    }
  }
}

/// The reference relation. `untouched`: the path was not touched between stamp and check (then `s1 == s2`).
pub fn reference(ck: Ck, s1: &St, s2: &St, untouched: bool) -> (Expect, &'static str) {
  // A symbolic link is, for every checker, what it resolves to.
  let (s1, s2) = (s1.resolved(), s2.resolved());
  if untouched {
    debug_assert!(s1 == s2);
    return (Expect::Consistent, "C13/untouched-consistent");
  }
  match ck {
    Ck::Exists => (if s1.exists() == s2.exists() { Expect::Consistent } else { Expect::Inconsistent }, "C13/exists"),
    Ck::Modified => {
      let c = match (s1.mtime(), s2.mtime()) { (None, None) => true, (Some(a), Some(b)) => a == b, _ => false };
      (if c { Expect::Consistent } else { Expect::Inconsistent }, "C13/modified")
    }
    Ck::Hash => match (s1, s2) {
      (St::Absent, St::Absent) => (Expect::Consistent, "C13/hash-absent"),
      (St::Absent, _) | (_, St::Absent) => (Expect::Inconsistent, "C13/hash-absent"),
      (St::File { size: a, var: va, .. }, St::File { size: b, var: vb, .. }) => {
        let eq = contents_equal((*a, *va), (*b, *vb));
        (if eq { Expect::Consistent } else { Expect::Inconsistent }, "C13/hash-file-content")
      }
      (St::Dir { names: a, .. }, St::Dir { names: b, .. }) => {
        if a == b { (Expect::ConsistentUnlessReordered, "C13/hash-dir-same-nameset") } else { (Expect::Inconsistent, "C13/hash-dir-nameset") }
      }
      _ => (Expect::NotClaimed, "C13/hash-kind-change"),
    },
  }
}

#[derive(Clone, Copy, PartialEq, Eq, Debug)]
pub enum Verdict { Agree, Violation, NotJudged }

pub fn judge(expect: Expect, observed_consistent: bool) -> Verdict {
  match (expect, observed_consistent) {
    (Expect::Consistent, true) | (Expect::Inconsistent, false) | (Expect::ConsistentUnlessReordered, true) => Verdict::Agree,
    (Expect::Consistent, false) | (Expect::Inconsistent, true) => Verdict::Violation,
    (Expect::ConsistentUnlessReordered, false) | (Expect::NotClaimed, _) => Verdict::NotJudged,
  }
}

// ---------------------------------------------------------------------------------------------------------------------
// Tallies, findings
// ---------------------------------------------------------------------------------------------------------------------

/// Harness-side result: `Err` is an engine error (never a verdict).
type H<T> = Result<T, String>;

#[derive(Clone, Debug)]
struct Finding { order: (u64, u64), oracle: &'static str, what: String, replay: Value }

const OUT_CONSISTENT: usize = 0;
const OUT_INCONSISTENT: usize = 1;
const OUT_NOT_JUDGED: usize = 2;

#[derive(Default)]
struct Tally {
  /// All oracle evaluations (reference comparisons, route agreement, reader position, read variant, write-open).
  evaluations: u64,
  per_oracle: BTreeMap<&'static str, u64>,
  /// Judged (S1,S2,checker,route) cases of the pair phase.
  pair_judged: u64,
  /// (S1,S2,checker) units run in the pair phase.
  pair_units: u64,
  /// All cases where the reference relation was compared with the real checker's verdict (all phases).
  judged: u64,
  /// Cases evaluated but not judged (not claimed by the property).
  not_judged: u64,
  /// Judged cases with S1 != S2.
  nontrivial: u64,
  /// [checker][consistent / inconsistent / not judged] as observed from the real checker.
  outcomes: [[u64; 3]; 3],
  /// Same name set, re-created directory, hash checker said inconsistent (not claimed; counted only).
  recreated_dir_inconsistent: u64,
  recreated_dir_consistent: u64,
  /// Hash checker, file<->dir: observed verdicts (never judged).
  kind_change: [u64; 2],
  states: BTreeSet<St>,
  materialisations: u64,
  findings: Vec<Finding>,
  findings_dropped: u64,
  /// Distinct colliding name-set pairs (hash checker consistent although the name sets differ).
  collisions: BTreeSet<(Vec<Name>, Vec<Name>)>,
  samples: BTreeMap<(u8, Ck, Kind, Kind, Expect), ((u64, u64), Value)>,
  items_done: BTreeMap<&'static str, u64>,
  /// CPU-side accounting (summed over workers): time in state materialisation and in calls into pie.
  t_materialise: Duration,
  t_pie: Duration,
}

impl Tally {
  fn eval(&mut self, oracle: &'static str) {
    self.evaluations += 1;
    *self.per_oracle.entry(oracle).or_insert(0) += 1;
  }
  fn merge(&mut self, o: Tally) {
    self.evaluations += o.evaluations;
    for (k, v) in o.per_oracle { *self.per_oracle.entry(k).or_insert(0) += v; }
    self.pair_judged += o.pair_judged;
    self.pair_units += o.pair_units;
    self.judged += o.judged;
    self.not_judged += o.not_judged;
    self.nontrivial += o.nontrivial;
    for c in 0..3 { for k in 0..3 { self.outcomes[c][k] += o.outcomes[c][k]; } }
    self.recreated_dir_inconsistent += o.recreated_dir_inconsistent;
    self.recreated_dir_consistent += o.recreated_dir_consistent;
    self.kind_change[0] += o.kind_change[0];
    self.kind_change[1] += o.kind_change[1];
    self.states.extend(o.states);
    self.materialisations += o.materialisations;
    self.findings.extend(o.findings);
    self.findings_dropped += o.findings_dropped;
    self.collisions.extend(o.collisions);
    for (k, v) in o.samples {
      match self.samples.get(&k) { Some(old) if old.0 <= v.0 => {} _ => { self.samples.insert(k, v); } }
    }
    for (k, v) in o.items_done { *self.items_done.entry(k).or_insert(0) += v; }
    self.t_materialise += o.t_materialise;
    self.t_pie += o.t_pie;
  }
}

/// Per-oracle cap of findings kept per worker (the smallest ones: work is handed out in increasing order).
const FINDINGS_PER_ORACLE_PER_WORKER: usize = 6;

// ---------------------------------------------------------------------------------------------------------------------
// Worker context: private directory, real Pie, materialisation
// ---------------------------------------------------------------------------------------------------------------------

struct Ctx {
  path: PathBuf,
  pie: Pie<()>,
  tally: Tally,
  /// Sort key of the unit being run (phase rank, index in phase).
  order: (u64, u64),
  /// Checker of the case being run (for replay objects of sequence units).
  ck: Option<Ck>,
  /// Replay mode: every observation, for the determinism comparison.
  observations: Option<Vec<String>>,
  content_cache: BTreeMap<(usize, Variant), Vec<u8>>,
  /// Pool of pre-built directories (one per name set, entries created once in a fresh directory), moved to the path
  /// with `rename` and moved back when the state is left: `mkdir`/`rmdir` cost ~0.5 ms each on this file system.
  pool_dir: PathBuf,
  pool: BTreeMap<Vec<Name>, PathBuf>,
  /// The pooled directory currently in use: (where it sits: the path or the link target location, its pool home).
  at_path: Option<(PathBuf, PathBuf)>,
  /// Where the target of a symbolic-link state lives: a sibling of the path.
  target: PathBuf,
  /// Something may be at the target location.
  target_used: bool,
  /// Stale-reader phase: change to apply between opening the reader and stamping it (consumed by `stamp_reader`),
  /// and a harness error raised while applying it.
  between_open_and_stamp: Option<(Change, St)>,
  pending_error: Option<String>,
  /// Sibling of the path that receives a file renamed away / hard-linked from the path under an open writer.
  away: PathBuf,
  away_used: bool,
}

/// Replaces every `SystemTime` debug text that is not one of the two logical instants (e.g. a link's own lstat
/// mtime) by a fixed token, so that the two runs of a replay compare equal.
fn mask_wall_clock(text: &str) -> String {
  let mut out = String::new();
  let mut rest = text;
  while let Some(i) = rest.find("tv_sec: ") {
    let (head, tail) = rest.split_at(i + "tv_sec: ".len());
    out.push_str(head);
    let digits = tail.chars().take_while(|c| c.is_ascii_digit()).count();
    let secs: Option<u64> = tail[..digits].parse().ok();
    if secs.map_or(false, |s| T_SECS.contains(&s)) {
      out.push_str(&tail[..digits]);
      rest = &tail[digits..];
    } else {
      out.push_str("<wall-clock>");
      let after = &tail[digits..];
      let skip = after.strip_prefix(", tv_nsec: ").map(|a| ", tv_nsec: ".len() + a.chars().take_while(|c| c.is_ascii_digit()).count()).unwrap_or(0);
      rest = &after[skip..];
    }
  }
  out.push_str(rest);
  out
}

fn io_ctx<T>(r: io::Result<T>, what: &str, path: &Path) -> H<T> { r.map_err(|e| format!("{} {}: {}", what, path.display(), e)) }

/// Runs pie code, turning a panic into `Err(message)`.
fn guard<T>(f: impl FnOnce() -> T) -> Result<T, String> {
  let t = Instant::now();
  let r = catch_unwind(AssertUnwindSafe(f));
  PIE_TIME.with(|c| c.set(c.get() + t.elapsed()));
  r.map_err(|p| {
    if let Some(s) = p.downcast_ref::<&str>() { s.to_string() } else if let Some(s) = p.downcast_ref::<String>() { s.clone() } else { "<non-string panic>".into() }
  })
}

impl Ctx {
  fn new(dir: &Path, replay: bool) -> H<Ctx> {
    io_ctx(fs::create_dir_all(dir), "create scratch dir", dir)?;
    Ok(Ctx {
      path: dir.join("p"), pie: Pie::default(), tally: Tally::default(), order: (0, 0), ck: None,
      observations: if replay { Some(Vec::new()) } else { None }, content_cache: BTreeMap::new(),
      pool_dir: dir.to_path_buf(), pool: BTreeMap::new(), at_path: None, target: dir.join("t"), target_used: false, away: dir.join("away"), away_used: false, between_open_and_stamp: None, pending_error: None,
    })
  }

  fn observe(&mut self, f: impl FnOnce() -> String) { if let Some(o) = self.observations.as_mut() { o.push(mask_wall_clock(&f())); } }

  fn content_of(&mut self, st: &St) -> Vec<u8> {
    match st.resolved() {
      St::File { size, var, .. } => self.content_cache.entry((*size, *var)).or_insert_with(|| content(*size, *var)).clone(),
      _ => Vec::new(),
    }
  }

  fn finding(&mut self, oracle: &'static str, what: String, replay: Value) {
    let n = self.tally.findings.iter().filter(|f| f.oracle == oracle).count();
    if n >= FINDINGS_PER_ORACLE_PER_WORKER { self.tally.findings_dropped += 1; return; }
    self.tally.findings.push(Finding { order: self.order, oracle, what, replay });
  }

  /// Removes whatever is at `loc` (a pooled directory goes back to the pool).
  fn clear_at(&mut self, loc: &Path) -> H<()> {
    if self.at_path.as_ref().map_or(false, |(l, _)| l == loc) {
      let (_, home) = self.at_path.take().unwrap();
      match fs::symlink_metadata(loc) {
        Ok(m) if m.is_dir() => return io_ctx(fs::rename(loc, &home), "move dir back to pool", loc),
        _ => return Err(format!("pooled directory vanished from {}", loc.display())),
      }
    }
    match fs::symlink_metadata(loc) {
      Err(e) if e.kind() == io::ErrorKind::NotFound => Ok(()),
      Err(e) => Err(format!("stat {}: {}", loc.display(), e)),
      Ok(m) if m.is_dir() => io_ctx(fs::remove_dir_all(loc), "remove dir", loc),
      Ok(_) => io_ctx(fs::remove_file(loc), "remove file or link", loc),
    }
  }

  /// Removes whatever is at the path: a link and its target, a file, a directory.
  fn clear(&mut self) -> H<()> {
    let path = self.path.clone();
    self.clear_at(&path)?;
    if self.target_used {
      let t = self.target.clone();
      self.clear_at(&t)?;
      self.target_used = false;
    }
    if self.away_used {
      let a = self.away.clone();
      self.clear_at(&a)?;
      self.away_used = false;
    }
    Ok(())
  }

  /// Changes the path from a plain file state to `s2` while a reader is open on it.
  fn change_under_reader(&mut self, change: Change, s2: &St) -> H<()> {
    let (path, away) = (self.path.clone(), self.away.clone());
    match (change, s2) {
      (Change::ReplacedByRename, St::File { mt, .. }) => {
        let bytes = self.content_of(s2);
        let mut f = io_ctx(File::create(&away), "create replacement", &away)?;
        io_ctx(f.write_all(&bytes), "write replacement", &away)?;
        io_ctx(f.set_modified(instant(*mt)), "set_modified (replacement)", &away)?;
        drop(f);
        io_ctx(fs::rename(&away, &path), "rename replacement over the path", &away)?;
      }
      (Change::MtimeInPlace, St::File { mt, .. }) => {
        let f = io_ctx(File::options().write(true).open(&path), "open in place", &path)?;
        io_ctx(f.set_modified(instant(*mt)), "set_modified (in place)", &path)?;
      }
      (Change::Removed, St::Absent) => io_ctx(fs::remove_file(&path), "remove under reader", &path)?,
      _ => return Err(format!("change {:?} does not fit state {:?}", change, s2)),
    }
    self.verify_mtime(s2)?;
    self.count_state(s2);
    Ok(())
  }

  fn path_is_link(&self) -> bool { fs::symlink_metadata(&self.path).map(|m| m.file_type().is_symlink()).unwrap_or(false) }

  /// Builds the directory and verifies that the file system lists exactly these names, byte for byte (a file
  /// system that refuses, normalises or case-folds a name is an engine error naming the entry).
  fn build_dir(at: &Path, names: &[Name]) -> H<()> {
    io_ctx(fs::create_dir(at), "create dir", at)?;
    for n in names {
      let p = at.join(n.os());
      File::create(&p).map_err(|e| format!("the file system refuses the entry name {:?} (in {}): {}", n, at.display(), e))?;
    }
    let l = Self::listing(at)?;
    if l != names { return Err(format!("the file system lists {:?} after creating the entries {:?} in {}", l, names, at.display())); }
    Ok(())
  }

  fn listing(at: &Path) -> H<Vec<Name>> {
    let mut l = Vec::new();
    for e in io_ctx(fs::read_dir(at), "read_dir", at)? {
      let name = io_ctx(e, "read_dir entry", at)?.file_name();
      l.push(Name::new(std::os::unix::ffi::OsStrExt::as_bytes(name.as_os_str())));
    }
    l.sort();
    Ok(l)
  }

  /// Creates the non-link state `st` at `loc` (which is empty): content / entries first, the mtime last.
  fn place(&mut self, st: &St, loc: &Path, fresh_dir: bool) -> H<()> {
    match st {
      St::Absent => {}
      St::Link { .. } => return Err("link chains are outside the alphabet".into()),
      St::File { mt, .. } => {
        let bytes = self.content_of(st);
        let mut f = io_ctx(File::create(loc), "create", loc)?;
        io_ctx(f.write_all(&bytes), "write", loc)?;
        io_ctx(f.set_modified(instant(*mt)), "set_modified (file)", loc)?;
      }
      St::Dir { names, mt } => {
        if fresh_dir {
          Self::build_dir(loc, names)?;
        } else {
          let home = match self.pool.get(names) {
            Some(h) => h.clone(),
            None => {
              io_ctx(fs::create_dir_all(&self.pool_dir), "create pool", &self.pool_dir)?;
              // Sibling of the path: a same-directory rename does not take the file-system wide rename lock.
              let h = self.pool_dir.join(format!("pool-d{}", self.pool.len()));
              Self::build_dir(&h, names)?;
              self.pool.insert(names.clone(), h.clone());
              h
            }
          };
          io_ctx(fs::rename(&home, loc), "move pooled dir into place", &home)?;
          self.at_path = Some((loc.to_path_buf(), home));
        }
        let d = io_ctx(File::open(loc), "open dir", loc)?;
        io_ctx(d.set_modified(instant(*mt)), "set_modified (dir)", loc)?;
      }
    }
    Ok(())
  }

  fn count_state(&mut self, st: &St) {
    self.tally.materialisations += 1;
    if !self.tally.states.contains(st) { self.tally.states.insert(st.clone()); }
  }

  /// Materialises `st` from scratch with std::fs only: remove what is there (link and target included), create the
  /// state, set the mtime last, read it back. A symbolic-link state: target first (next to the path, explicit
  /// mtime), then the link, so the link's own mtime is "now". `fresh_dir`: build a directory in place instead of
  /// moving a pre-built one (same content) there.
  fn materialise_with(&mut self, st: &St, fresh_dir: bool) -> H<()> {
    self.clear()?;
    let (path, target) = (self.path.clone(), self.target.clone());
    match st {
      St::Link { target: t } => {
        self.place(t, &target, fresh_dir)?;
        self.target_used = true;
        io_ctx(std::os::unix::fs::symlink(&target, &path), "create symbolic link", &path)?;
      }
      other => self.place(other, &path, fresh_dir)?,
    }
    self.verify_mtime(st)?;
    self.count_state(st);
    Ok(())
  }

  /// Moves from the current state to `st` the way the world would: if the path is a symbolic link and `st` is one
  /// too, the LINK stays and only its TARGET is modified -- file to file: through the link, in place (open the path
  /// for writing, truncate, write, set the mtime; same inode); otherwise directly (the target is removed and
  /// re-created next to the path). Every other transition re-materialises from scratch.
  fn materialise_after(&mut self, st: &St) -> H<()> {
    let t0 = Instant::now();
    let r = (|| -> H<()> {
      let St::Link { target: new_target } = st else { return self.materialise_with(st, false); };
      if !self.path_is_link() { return self.materialise_with(st, false); }
      let (path, target) = (self.path.clone(), self.target.clone());
      let cur_is_file = fs::metadata(&path).map(|m| m.is_file()).unwrap_or(false);
      match &**new_target {
        St::File { mt, .. } if cur_is_file => {
          let bytes = self.content_of(st);
          let mut f = io_ctx(File::options().write(true).truncate(true).open(&path), "open target through the link", &path)?;
          io_ctx(f.write_all(&bytes), "write through the link", &path)?;
          io_ctx(f.set_modified(instant(*mt)), "set_modified (through the link)", &path)?;
        }
        other => {
          self.clear_at(&target)?;
          self.place(other, &target, false)?;
          self.target_used = true;
        }
      }
      self.verify_mtime(st)?;
      self.count_state(st);
      Ok(())
    })();
    self.tally.t_materialise += t0.elapsed();
    r
  }

  fn materialise(&mut self, st: &St) -> H<()> {
    let t = Instant::now();
    let r = self.materialise_with(st, false);
    self.tally.t_materialise += t.elapsed();
    r
  }

  /// End of a worker: every pooled directory still has exactly its entries (nothing the code under test did may have
  /// changed them; if it did, the verdicts of this run are not trustworthy => engine error).
  fn verify_pool(&mut self) -> H<()> {
    self.clear()?;
    for (names, home) in &self.pool {
      let l = Self::listing(home)?;
      if l != *names { return Err(format!("pooled directory {} holds {:?} instead of {:?}", home.display(), l, names)); }
    }
    Ok(())
  }

  fn verify_mtime(&self, st: &St) -> H<()> {
    match (st.mtime(), fs::metadata(&self.path)) {
      (None, Err(e)) if e.kind() == io::ErrorKind::NotFound => Ok(()),
      (Some(mt), Ok(m)) => {
        let got = io_ctx(m.modified(), "mtime", &self.path)?;
        if got == instant(mt) { Ok(()) } else { Err(format!("explicit mtime not effective on {}: wanted {:?}, got {:?}", self.path.display(), instant(mt), got)) }
      }
      (want, got) => Err(format!("materialisation of {:?} failed: mtime wanted {:?}, metadata {:?}", st, want, got.map(|m| m.is_dir()))),
    }?;
    if self.path_is_link() != st.is_link() { return Err(format!("materialisation of {:?} failed: path is a symbolic link = {}", st, self.path_is_link())); }
    Ok(())
  }
}

// ---------------------------------------------------------------------------------------------------------------------
// Units of work (also the unit of replay)
// ---------------------------------------------------------------------------------------------------------------------

#[derive(Clone, Debug)]
enum Unit {
  /// `path.write` on a prior state.
  WriteOpen { prior: St },
  /// Stamp in `s1`, check in `s2` (`None`: untouched). `route: None` = every applicable route.
  Pair { ck: Ck, s1: St, s2: Option<St>, route: Option<Route> },
  /// Length-3 sequence; stamps of every earlier state are checked at every later one, all routes, all checkers
  /// (each state is materialised once and observed by the three checkers).
  Seq { states: [St; 3] },
  /// A reader is opened in file state `s1`, then the path is changed to `s2` (`change`), then the reader is stamped:
  /// the stamp must describe what the reader observes, i.e. equal the path stamp taken in `s1`.
  StaleReader { ck: Ck, s1: St, s2: St, change: Change },
}

/// How the path is changed between opening a reader and stamping it.
#[derive(Clone, Copy, PartialEq, Eq, Debug)]
pub enum Change {
  /// A sibling prepared with the new content and mtime is renamed over the path (atomic replace; new inode).
  ReplacedByRename,
  /// Same file, same content: only the mtime is changed in place.
  MtimeInPlace,
  /// The file is removed.
  Removed,
}

impl Change {
  fn as_str(self) -> &'static str { match self { Change::ReplacedByRename => "replaced-by-rename", Change::MtimeInPlace => "mtime-changed-in-place", Change::Removed => "removed" } }
  fn parse(s: &str) -> Option<Change> { [Change::ReplacedByRename, Change::MtimeInPlace, Change::Removed].into_iter().find(|c| c.as_str() == s) }
}

/// The representative (S1, S2, change) cases of the stale-reader phase.
pub fn stale_reader_cases() -> Vec<(St, St, Change)> {
  let f = |size, var, mt| St::File { size, var, mt };
  vec![
    (f(8193, Variant::Base, 0), f(8193, Variant::LastDiffers, 1), Change::ReplacedByRename),
    (f(1, Variant::Base, 0), f(8193, Variant::Base, 1), Change::ReplacedByRename),
    (f(8193, Variant::Base, 0), f(8193, Variant::Base, 1), Change::MtimeInPlace),
    (f(8193, Variant::Base, 0), St::Absent, Change::Removed),
    (f(0, Variant::Base, 0), St::Absent, Change::Removed),
  ]
}

const PHASE_STALE_READER: u8 = 4;
const PHASE_WRITE_OPEN: u8 = 0;
const PHASE_UNTOUCHED: u8 = 1;
const PHASE_PAIR: u8 = 2;
const PHASE_SEQ: u8 = 3;
const PHASE_NAMES: [&str; 5] = ["write-open", "untouched", "pair", "seq", "stale-reader"];

impl Unit {
  fn phase(&self) -> u8 {
    match self {
      Unit::WriteOpen { .. } => PHASE_WRITE_OPEN,
      Unit::Pair { s2: None, .. } => PHASE_UNTOUCHED,
      Unit::Pair { .. } => PHASE_PAIR,
      Unit::Seq { .. } => PHASE_SEQ,
      Unit::StaleReader { .. } => PHASE_STALE_READER,
    }
  }

  /// Replay object of one case of this unit.
  fn replay(&self, seq_ck: Option<Ck>, route: Option<Route>, from_to: Option<(usize, usize)>, expected: &str, observed: &str) -> Value {
    let mut m = serde_json::Map::new();
    m.insert("phase".into(), json!(PHASE_NAMES[self.phase() as usize]));
    match self {
      Unit::WriteOpen { prior } => {
        m.insert("checker".into(), Value::Null);
        m.insert("route".into(), json!("write-open"));
        m.insert("s1".into(), prior.to_json());
        m.insert("s2".into(), Value::Null);
      }
      Unit::StaleReader { ck, s1, s2, change } => {
        m.insert("checker".into(), json!(ck.as_str()));
        m.insert("route".into(), json!("reader"));
        m.insert("change_between_open_and_stamp".into(), json!(change.as_str()));
        m.insert("s1".into(), s1.to_json());
        m.insert("s2".into(), s2.to_json());
      }
      Unit::Pair { ck, s1, s2, .. } => {
        m.insert("checker".into(), json!(ck.as_str()));
        m.insert("route".into(), route.map_or(Value::Null, |r| json!(r.as_str())));
        m.insert("s1".into(), s1.to_json());
        m.insert("s2".into(), s2.as_ref().map_or(json!("untouched"), |s| s.to_json()));
      }
      Unit::Seq { states } => {
        m.insert("checker".into(), seq_ck.map_or(Value::Null, |c| json!(c.as_str())));
        m.insert("route".into(), route.map_or(Value::Null, |r| json!(r.as_str())));
        m.insert("states".into(), Value::Array(states.iter().map(|s| s.to_json()).collect()));
        if let Some((i, j)) = from_to {
          m.insert("stamped_at".into(), json!(i));
          m.insert("checked_at".into(), json!(j));
          m.insert("s1".into(), states[i].to_json());
          m.insert("s2".into(), states[j].to_json());
        }
      }
    }
    m.insert("expected".into(), json!(expected));
    m.insert("observed".into(), json!(observed));
    Value::Object(m)
  }

  fn from_replay(v: &Value) -> Result<Unit, String> {
    let phase = v.get("phase").and_then(|p| p.as_str()).ok_or("replay without phase")?;
    let ck = || v.get("checker").and_then(|c| c.as_str()).and_then(Ck::parse).ok_or_else(|| "replay without checker".to_string());
    let route = || -> Result<Option<Route>, String> {
      match v.get("route") {
        None | Some(Value::Null) => Ok(None),
        Some(r) => Ok(Some(r.as_str().and_then(Route::parse).ok_or_else(|| format!("bad route {}", r))?)),
      }
    };
    match phase {
      "write-open" => Ok(Unit::WriteOpen { prior: St::from_json(v.get("s1").ok_or("no s1")?)? }),
      "stale-reader" => {
        let change = v.get("change_between_open_and_stamp").and_then(|c| c.as_str()).and_then(Change::parse).ok_or("bad change")?;
        let (s1, s2) = (St::from_json(v.get("s1").ok_or("no s1")?)?, St::from_json(v.get("s2").ok_or("no s2")?)?);
        let ok = matches!(s1, St::File { .. }) && match change {
          Change::ReplacedByRename => matches!(s2, St::File { .. }),
          Change::MtimeInPlace => matches!(s2, St::File { .. }) && contents_equal_states(&s1, &s2),
          Change::Removed => s2 == St::Absent,
        };
        if !ok { return Err("stale-reader replay: states do not fit the change".into()); }
        Ok(Unit::StaleReader { ck: ck()?, s1, s2, change })
      }
      "untouched" => Ok(Unit::Pair { ck: ck()?, s1: St::from_json(v.get("s1").ok_or("no s1")?)?, s2: None, route: route()? }),
      "pair" => Ok(Unit::Pair {
        ck: ck()?, s1: St::from_json(v.get("s1").ok_or("no s1")?)?, s2: Some(St::from_json(v.get("s2").ok_or("no s2")?)?), route: route()?,
      }),
      "seq" => {
        let arr = v.get("states").and_then(|s| s.as_array()).ok_or("no states")?;
        if arr.len() != 3 { return Err("seq replay needs 3 states".into()); }
        Ok(Unit::Seq { states: [St::from_json(&arr[0])?, St::from_json(&arr[1])?, St::from_json(&arr[2])?] })
      }
      o => Err(format!("unknown phase {}", o)),
    }
  }
}

// ---------------------------------------------------------------------------------------------------------------------
// Running the real code
// ---------------------------------------------------------------------------------------------------------------------

thread_local! { static PIE_TIME: std::cell::Cell<Duration> = const { std::cell::Cell::new(Duration::ZERO) }; }

/// Turns the outcome of a guarded pie call into a value, recording an error / panic as a finding.
fn settle<T, E: std::fmt::Debug>(ctx: &mut Ctx, unit: &Unit, route: Option<Route>, op: &str, st: &St, r: Result<Result<T, E>, String>) -> Option<T> {
  match r {
    Ok(Ok(t)) => Some(t),
    Ok(Err(e)) => {
      ctx.tally.eval("C13/unexpected-error");
      let obs = format!("{} returned Err({:?}) in state {}", op, e, st.to_json());
      ctx.observe(|| obs.clone());
      ctx.finding("C13/unexpected-error", obs.clone(), unit.replay(ctx.ck, route, None, "Ok(..)", &obs));
      None
    }
    Err(p) => {
      ctx.tally.eval("C13/panic");
      let obs = format!("{} panicked in state {}: {}", op, st.to_json(), p);
      ctx.observe(|| obs.clone());
      ctx.finding("C13/panic", obs.clone(), unit.replay(ctx.ck, route, None, "no panic", &obs));
      None
    }
  }
}

fn stamp_path<C: ResourceChecker<PathBuf>>(c: &C, ctx: &mut Ctx, unit: &Unit, st: &St) -> Option<C::Stamp> {
  let path = ctx.path.clone();
  let r = { let state = ctx.pie.resource_state_mut::<PathBuf>(); guard(|| c.stamp(&path, state)) };
  let s = settle(ctx, unit, Some(Route::Path), "stamp", st, r);
  ctx.observe(|| format!("stamp(path) in {} = {:?}", st.to_json(), s));
  s
}

fn open_reader(ctx: &mut Ctx, unit: &Unit, st: &St) -> Option<OpenRead> {
  let path = ctx.path.clone();
  let r: Result<Result<OpenRead, FsError>, String> = { let state = ctx.pie.resource_state_mut::<PathBuf>(); guard(|| path.read(state)) };
  let reader = settle(ctx, unit, Some(Route::Reader), "Resource::read", st, r)?;
  // Oracle: the right `OpenRead` variant.
  ctx.tally.eval("C13/read-variant");
  let (ok, seen) = match (&reader, st.resolved()) {
    (OpenRead::NonExistent, St::Absent) => (true, "NonExistent".to_string()),
    (OpenRead::File(_, m), St::File { size, .. }) => (m.is_file() && m.len() == *size as u64, format!("File(is_file={}, len={})", m.is_file(), m.len())),
    (OpenRead::Directory(m), St::Dir { .. }) => (m.is_dir(), format!("Directory(is_dir={})", m.is_dir())),
    (OpenRead::NonExistent, _) => (false, "NonExistent".into()),
    (OpenRead::File(_, m), _) => (false, format!("File(len={})", m.len())),
    (OpenRead::Directory(_), _) => (false, "Directory".into()),
  };
  ctx.observe(|| format!("read in {} = {}", st.to_json(), seen));
  if !ok {
    let what = format!("path.read in state {} yields {}", st.to_json(), seen);
    ctx.finding("C13/read-variant", what, unit.replay(ctx.ck, Some(Route::Reader), None, st.kind().as_str(), &seen));
  }
  Some(reader)
}

fn stamp_reader<C: ResourceChecker<PathBuf>>(c: &C, ctx: &mut Ctx, unit: &Unit, st: &St) -> Option<C::Stamp> {
  let path = ctx.path.clone();
  let mut reader = open_reader(ctx, unit, st)?;
  if let Some((change, s2)) = ctx.between_open_and_stamp.take() {
    if let Err(e) = ctx.change_under_reader(change, &s2) { ctx.pending_error = Some(e); return None; }
  }
  let r = guard(|| c.stamp_reader(&path, &mut reader));
  let stamp = settle(ctx, unit, Some(Route::Reader), "stamp_reader", st, r)?;
  ctx.observe(|| format!("stamp_reader in {} = {:?}", st.to_json(), stamp));
  // Oracle: the same reader now yields the full content from offset 0.
  if let St::File { .. } = st.resolved() {
    ctx.tally.eval("C13/reader-rewound");
    let want = ctx.content_of(st);
    let got = guard(|| {
      let mut buf = Vec::new();
      match reader.as_file() { Some(f) => f.read_to_end(&mut buf).map(|_| Some(buf)), None => Ok(None) }
    });
    let seen = match &got {
      Ok(Ok(Some(buf))) if *buf == want => None,
      Ok(Ok(Some(buf))) => {
        let first = buf.iter().zip(want.iter()).position(|(a, b)| a != b);
        Some(format!("reader yields {} bytes (first differing offset {:?}) instead of the {} bytes of the file", buf.len(), first, want.len()))
      }
      Ok(Ok(None)) => Some("reader is not a file".into()),
      Ok(Err(e)) => Some(format!("reading failed: {}", e)),
      Err(p) => Some(format!("reading panicked: {}", p)),
    };
    ctx.observe(|| format!("reader after stamp_reader: {:?}", seen));
    if let Some(seen) = seen {
      let what = format!("after stamp_reader the reader is not at the start: {}", seen);
      ctx.finding("C13/reader-rewound", what, unit.replay(ctx.ck, Some(Route::Reader), None, "full content from offset 0", &seen));
    }
  }
  Some(stamp)
}

/// `path.write(state)` through pie.
fn open_writer(ctx: &mut Ctx, unit: &Unit, route: Option<Route>, st: &St) -> Option<File> {
  let path = ctx.path.clone();
  let r: Result<Result<File, FsError>, String> = { let state = ctx.pie.resource_state_mut::<PathBuf>(); guard(|| path.write(state)) };
  settle(ctx, unit, route, "Resource::write", st, r)
}

/// Produces the file state `st` through a pie writer and returns the just-used writer. `junk_prior`: first put a
/// larger junk file with the other mtime at the path (so that `write` has to truncate); otherwise the prior state is
/// whatever non-directory is at the path. `Ok(None)`: a finding was recorded.
fn produce_via_writer(ctx: &mut Ctx, unit: &Unit, st: &St, junk_prior: bool) -> H<Option<File>> {
  let St::File { size, mt, .. } = st.resolved() else { return Err("produce_via_writer on a non-file state".into()); };
  let (path, target) = (ctx.path.clone(), ctx.target.clone());
  // For a symbolic-link state the prior file lives at the target location and the path is a link to it: `write`
  // has to truncate the TARGET and leave the link alone.
  let link_to_file_in_place = ctx.path_is_link() && fs::metadata(&path).map(|m| m.is_file()).unwrap_or(false);
  if junk_prior || (st.is_link() && !link_to_file_in_place) {
    ctx.clear()?;
    let loc = if st.is_link() { &target } else { &path };
    let mut f = io_ctx(File::create(loc), "create junk", loc)?;
    io_ctx(f.write_all(&vec![0xEEu8; if junk_prior { size + 7 } else { 0 }]), "write junk", loc)?;
    io_ctx(f.set_modified(instant(if *mt == 0 { 1 } else { 0 })), "set_modified (junk)", loc)?;
    if st.is_link() {
      ctx.target_used = true;
      io_ctx(std::os::unix::fs::symlink(&target, &path), "create symbolic link", &path)?;
    }
  } else if !st.is_link() && fs::symlink_metadata(&path).map(|m| m.is_dir() || m.file_type().is_symlink()).unwrap_or(false) {
    ctx.clear()?;
  }
  let Some(mut w) = open_writer(ctx, unit, Some(Route::Writer), st) else { return Ok(None); };
  let bytes = ctx.content_of(st);
  ctx.tally.eval("C13/write-produces-content");
  if let Err(e) = w.write_all(&bytes).and_then(|_| w.flush()) {
    let obs = format!("writing through the handle returned by path.write failed: {}", e);
    ctx.observe(|| obs.clone());
    ctx.finding("C13/write-produces-content", obs.clone(), unit.replay(ctx.ck, Some(Route::Writer), None, "writable handle", &obs));
    return Ok(None);
  }
  // The mtime is part of the state: set it before the writer is stamped (T1 through the writer, T2 through a
  // second handle).
  if *mt == 0 {
    io_ctx(w.set_modified(instant(*mt)), "set_modified (writer)", &path)?;
  } else {
    let h = io_ctx(File::options().write(true).open(&path), "open second handle", &path)?;
    io_ctx(h.set_modified(instant(*mt)), "set_modified (second handle)", &path)?;
  }
  let on_disk = io_ctx(fs::read(&path), "read back", &path)?;
  if on_disk != bytes {
    let obs = format!("after path.write + write_all of {} bytes over a prior file the file holds {} bytes", bytes.len(), on_disk.len());
    ctx.observe(|| obs.clone());
    ctx.finding("C13/write-produces-content", obs.clone(), unit.replay(ctx.ck, Some(Route::Writer), None, "file holds exactly the written content", &obs));
    return Ok(None);
  }
  if st.is_link() {
    let kept = ctx.path_is_link() && fs::read(&target).map(|b| b == bytes).unwrap_or(false);
    if !kept {
      let obs = "after path.write through a symbolic link the path is no longer a link to the written file".to_string();
      ctx.observe(|| obs.clone());
      ctx.finding("C13/write-produces-content", obs.clone(), unit.replay(ctx.ck, Some(Route::Writer), None, "link kept, target holds the written content", &obs));
      return Ok(None);
    }
  }
  ctx.verify_mtime(st)?;
  ctx.count_state(st);
  Ok(Some(w))
}

/// Makes the path absent the way a task would: create a writer, write, then make the path absent (`how`: remove the
/// file; rename it away to a sibling; hard-link it to a sibling and remove the path -- in the last two the inode of the
/// open writer still has a link, only the PATH is absent); returns the writer.
fn produce_absent_via_writer(ctx: &mut Ctx, unit: &Unit, how: Route) -> H<Option<File>> {
  ctx.clear()?;
  let (path, away) = (ctx.path.clone(), ctx.away.clone());
  let Some(mut w) = open_writer(ctx, unit, Some(how), &St::Absent) else { return Ok(None); };
  ctx.tally.eval("C13/write-produces-content");
  if let Err(e) = w.write_all(b"written, then removed") {
    let obs = format!("writing through the handle returned by path.write failed: {}", e);
    ctx.observe(|| obs.clone());
    ctx.finding("C13/write-produces-content", obs.clone(), unit.replay(ctx.ck, Some(how), None, "writable handle", &obs));
    return Ok(None);
  }
  // Explicit mtime on the doomed file: whatever a checker might read from the stale handle is deterministic.
  io_ctx(w.set_modified(instant(1)), "set_modified (writer, to be removed)", &path)?;
  match how {
    Route::WriterRenamed => { io_ctx(fs::rename(&path, &away), "rename written file away", &path)?; ctx.away_used = true; }
    Route::WriterHardlinked => {
      io_ctx(fs::hard_link(&path, &away), "hard-link written file", &path)?;
      ctx.away_used = true;
      io_ctx(fs::remove_file(&path), "remove written file", &path)?;
    }
    _ => io_ctx(fs::remove_file(&path), "remove written file", &path)?,
  }
  if fs::symlink_metadata(&path).is_ok() { return Err(format!("{} still exists after making it absent", path.display())); }
  ctx.tally.materialisations += 1;
  if !ctx.tally.states.contains(&St::Absent) { ctx.tally.states.insert(St::Absent); }
  Ok(Some(w))
}

fn stamp_writer<C: ResourceChecker<PathBuf>>(c: &C, ctx: &mut Ctx, unit: &Unit, route: Route, st: &St, w: File) -> Option<C::Stamp> {
  let path = ctx.path.clone();
  let r = guard(|| c.stamp_writer(&path, w));
  let s = settle(ctx, unit, Some(route), "stamp_writer", st, r);
  ctx.observe(|| format!("stamp_writer({}) in {} = {:?}", route.as_str(), st.to_json(), s));
  s
}

/// Oracle: two routes yield equal stamps for the same state.
fn agree<S: PartialEq + std::fmt::Debug>(ctx: &mut Ctx, unit: &Unit, oracle: &'static str, st: &St, ra: Route, a: &Option<S>, rb: Route, b: &Option<S>) {
  let (Some(a), Some(b)) = (a, b) else { return; };
  ctx.tally.eval(oracle);
  if a != b {
    let what = format!("stamp routes disagree in state {}: {} gives {:?}, {} gives {:?}", st.to_json(), ra.as_str(), a, rb.as_str(), b);
    ctx.finding(oracle, what, unit.replay(ctx.ck, Some(rb), None, &format!("{:?} (route {})", a, ra.as_str()), &format!("{:?}", b)));
  }
}

/// Runs `check` of a stamp taken in `from` against the current state `to` and judges it with the reference relation.
fn check_and_judge<C: ResourceChecker<PathBuf>>(
  c: &C, ck: Ck, ctx: &mut Ctx, unit: &Unit, route: Route, from: &St, to: &St, untouched: bool, from_to: Option<(usize, usize)>, stamp: &C::Stamp,
) {
  let path = ctx.path.clone();
  let r = {
    let state = ctx.pie.resource_state_mut::<PathBuf>();
    guard(|| c.check(&path, state, stamp).map(|o| o.map(|d| format!("{:?}", d))))
  };
  let Some(incons) = settle(ctx, unit, Some(route), "check", to, r) else { return; };
  let consistent = incons.is_none();
  let observed = match &incons { None => "consistent".to_string(), Some(d) => format!("inconsistent ({})", d) };
  ctx.observe(|| format!("check[{}] {} -> {}{} = {}", route.as_str(), from.to_json(), to.to_json(), if untouched { " (untouched)" } else { "" }, observed));
  let (expect, oracle) = reference(ck, from, to, untouched);
  let verdict = judge(expect, consistent);
  let t = &mut ctx.tally;
  t.eval(oracle);
  let cki = ck as usize;
  match verdict {
    Verdict::NotJudged => { t.not_judged += 1; t.outcomes[cki][OUT_NOT_JUDGED] += 1; }
    _ => {
      t.judged += 1;
      if unit.phase() == PHASE_PAIR { t.pair_judged += 1; }
      if from != to { t.nontrivial += 1; }
      t.outcomes[cki][if consistent { OUT_CONSISTENT } else { OUT_INCONSISTENT }] += 1;
    }
  }
  match expect {
    Expect::ConsistentUnlessReordered => if consistent { t.recreated_dir_consistent += 1 } else { t.recreated_dir_inconsistent += 1 },
    Expect::NotClaimed => t.kind_change[consistent as usize] += 1,
    _ => {}
  }
  let key = (unit.phase(), ck, from.kind(), to.kind(), expect);
  if t.samples.get(&key).map_or(true, |old| old.0 > ctx.order) {
    let v = unit.replay(ctx.ck, Some(route), from_to, expect.as_str(), &observed);
    ctx.tally.samples.insert(key, (ctx.order, v));
  }
  if verdict == Verdict::Violation {
    if let (Ck::Hash, St::Dir { names: a, .. }, St::Dir { names: b, .. }) = (ck, from.resolved(), to.resolved()) {
      if a != b { ctx.tally.collisions.insert((a.clone(), b.clone())); }
    }
    let what = format!(
      "{} via {}: stamped in {}, checked in {}{}: expected {}, observed {}",
      ck.as_str(), route.as_str(), from.to_json(), to.to_json(), if untouched { " (untouched)" } else { "" }, expect.as_str(), observed
    );
    ctx.finding(oracle, what, unit.replay(ctx.ck, Some(route), from_to, expect.as_str(), &observed));
  }
}

/// Pair / untouched unit for one checker.
fn run_pair<C>(c: &C, ck: Ck, ctx: &mut Ctx, unit: &Unit, s1: &St, s2: Option<&St>, only: Option<Route>) -> H<()>
where C: ResourceChecker<PathBuf>, C::Stamp: PartialEq {
  let want = |r: Route| only.map_or(true, |o| o == r) && r.applies(s1.kind());
  ctx.ck = Some(ck);
  let untouched = s2.is_none();
  let target = s2.unwrap_or(s1);

  if want(Route::Path) || want(Route::Reader) {
    ctx.materialise(s1)?;
    let sp = if want(Route::Path) { stamp_path(c, ctx, unit, s1) } else { None };
    let sr = if want(Route::Reader) { stamp_reader(c, ctx, unit, s1) } else { None };
    agree(ctx, unit, "C13/routes-agree", s1, Route::Path, &sp, Route::Reader, &sr);
    if let Some(s2) = s2 { ctx.materialise_after(s2)?; }
    if let Some(s) = &sp { check_and_judge(c, ck, ctx, unit, Route::Path, s1, target, untouched, None, s); }
    if let Some(s) = &sr { check_and_judge(c, ck, ctx, unit, Route::Reader, s1, target, untouched, None, s); }
  }

  if want(Route::Writer) {
    if let Some(w) = produce_via_writer(ctx, unit, s1, true)? {
      // Reference stamp of the very same on-disk state, taken by path while the writer is still open.
      let sp = stamp_path(c, ctx, unit, s1);
      let sw = stamp_writer(c, ctx, unit, Route::Writer, s1, w);
      agree(ctx, unit, "C13/routes-agree", s1, Route::Path, &sp, Route::Writer, &sw);
      if let Some(s2) = s2 { ctx.materialise_after(s2)?; }
      if let Some(s) = &sw { check_and_judge(c, ck, ctx, unit, Route::Writer, s1, target, untouched, None, s); }
    }
  }

  for how in ABSENT_WRITER_ROUTES {
    if !want(how) { continue; }
    if let Some(w) = produce_absent_via_writer(ctx, unit, how)? {
      let sp = stamp_path(c, ctx, unit, s1);
      let sw = stamp_writer(c, ctx, unit, how, s1, w);
      agree(ctx, unit, "C13/writer-removed-absent", s1, Route::Path, &sp, how, &sw);
      if let Some(s2) = s2 { ctx.materialise_after(s2)?; }
      if let Some(s) = &sw { check_and_judge(c, ck, ctx, unit, how, s1, target, untouched, None, s); }
    }
  }
  Ok(())
}

/// One state of a sequence for one checker: stamp it by every applicable route (not at the last state), check the
/// stamps of all earlier states against it.
fn seq_step<C>(c: &C, ck: Ck, ctx: &mut Ctx, unit: &Unit, states: &[St; 3], j: usize, writer: Option<File>, live: &mut Vec<(usize, Route, C::Stamp)>)
where C: ResourceChecker<PathBuf>, C::Stamp: PartialEq {
  ctx.ck = Some(ck);
  let st = &states[j];
  let mut fresh: Vec<(usize, Route, C::Stamp)> = Vec::new();
  if j < 2 {
    let sp = stamp_path(c, ctx, unit, st);
    let sr = stamp_reader(c, ctx, unit, st);
    agree(ctx, unit, "C13/routes-agree", st, Route::Path, &sp, Route::Reader, &sr);
    let wroute = if st.kind() == Kind::File { Route::Writer } else { absent_route_at(j) };
    let sw = writer.and_then(|w| stamp_writer(c, ctx, unit, wroute, st, w));
    agree(ctx, unit, if wroute == Route::Writer { "C13/routes-agree" } else { "C13/writer-removed-absent" }, st, Route::Path, &sp, wroute, &sw);
    if let Some(s) = sp { fresh.push((j, Route::Path, s)); }
    if let Some(s) = sr { fresh.push((j, Route::Reader, s)); }
    if let Some(s) = sw { fresh.push((j, wroute, s)); }
  } else {
    drop(writer);
  }
  for (i, route, stamp) in live.iter() { check_and_judge(c, ck, ctx, unit, *route, &states[*i], st, false, Some((*i, j)), stamp); }
  live.extend(fresh);
}

/// Length-3 sequence. File states are produced through a pie writer over the previous state of the sequence, Absent
/// through "writer created, file removed"; every state is materialised once and stamped by every applicable route of
/// every checker (the writer is handed to `ExistsChecker` and `ModifiedChecker` as `try_clone`s of the handle, i.e.
/// the same open file description, and to `HashChecker` itself); the stamps of earlier states are checked at every
/// later state.
fn run_seq(ctx: &mut Ctx, unit: &Unit, states: &[St; 3]) -> H<()> {
  let (mut le, mut lm, mut lh) = (Vec::new(), Vec::new(), Vec::new());
  ctx.ck = None;
  ctx.clear()?; // the sequence starts from an absent path
  for j in 0..3 {
    let st = &states[j];
    let writer = match st.kind() {
      Kind::File => match produce_via_writer(ctx, unit, st, false)? { Some(w) => Some(w), None => return Ok(()) },
      Kind::Absent => match produce_absent_via_writer(ctx, unit, absent_route_at(j))? { Some(w) => Some(w), None => return Ok(()) },
      Kind::Dir => { ctx.materialise_after(st)?; None }
    };
    let (w1, w2) = match &writer {
      Some(w) => (Some(io_ctx(w.try_clone(), "dup writer", &ctx.path)?), Some(io_ctx(w.try_clone(), "dup writer", &ctx.path)?)),
      None => (None, None),
    };
    seq_step(&ExistsChecker, Ck::Exists, ctx, unit, states, j, w1, &mut le);
    seq_step(&ModifiedChecker, Ck::Modified, ctx, unit, states, j, w2, &mut lm);
    seq_step(&HashChecker, Ck::Hash, ctx, unit, states, j, writer, &mut lh);
  }
  Ok(())
}

/// Stale reader: path stamp in `s1`; reader opened in `s1`; path changed to `s2`; `stamp_reader`. Oracle
/// `C13/reader-stamp-is-reader-state`: the reader stamp equals the path stamp taken in `s1` (existence, mtime and
/// content of what the reader observes); the reader still yields `s1`'s full content from offset 0.
fn run_stale_reader<C>(c: &C, ck: Ck, ctx: &mut Ctx, unit: &Unit, s1: &St, s2: &St, change: Change) -> H<()>
where C: ResourceChecker<PathBuf>, C::Stamp: PartialEq {
  ctx.ck = Some(ck);
  ctx.materialise(s1)?;
  let sp = stamp_path(c, ctx, unit, s1);
  ctx.between_open_and_stamp = Some((change, s2.clone()));
  let sr = stamp_reader(c, ctx, unit, s1);
  ctx.between_open_and_stamp = None;
  if let Some(e) = ctx.pending_error.take() { return Err(e); }
  if let (Some(a), Some(b)) = (&sp, &sr) {
    ctx.tally.eval("C13/reader-stamp-is-reader-state");
    ctx.tally.judged += 1;
    ctx.tally.nontrivial += 1;
    let observed = format!("{:?}", b);
    ctx.observe(|| format!("stale reader ({}): path stamp in s1 {:?}, reader stamp {}", change.as_str(), a, observed));
    if a != b {
      let what = format!("{}: reader opened in {}, then path {} -> {}, then stamp_reader gives {:?}; the reader observes the state stamped {:?}",
        ck.as_str(), s1.to_json(), change.as_str(), s2.to_json(), b, a);
      ctx.finding("C13/reader-stamp-is-reader-state", what, unit.replay(ctx.ck, Some(Route::Reader), None, &format!("{:?}", a), &observed));
    }
  }
  Ok(())
}

/// `Resource::write` on a prior state: creates / truncates (handle readable and writable) / refuses a directory.
fn run_write_open(ctx: &mut Ctx, unit: &Unit, prior: &St) -> H<()> {
  ctx.ck = None;
  ctx.materialise_with(prior, true)?;
  let path = ctx.path.clone();
  let r: Result<Result<File, FsError>, String> = { let state = ctx.pie.resource_state_mut::<PathBuf>(); guard(|| path.write(state)) };
  let r = match r {
    Ok(r) => r,
    Err(p) => { settle::<(), FsError>(ctx, unit, None, "Resource::write", prior, Err(p)); return Ok(()); }
  };
  let link_note = |ctx: &Ctx| -> &'static str { if !prior.is_link() { "" } else if ctx.path_is_link() { ", link kept" } else { ", LINK REPLACED" } };
  let link_want = if prior.is_link() { ", link kept" } else { "" };
  match prior.resolved() {
    St::Link { .. } => unreachable!(),
    St::Dir { names, mt } => {
      ctx.tally.eval("C13/write-refuses-dir");
      let refused = r.is_err();
      let meta = io_ctx(fs::metadata(&path), "stat", &path)?;
      let listing = if meta.is_dir() { Ctx::listing(&path)? } else { Vec::new() };
      let intact = meta.is_dir() && listing == *names && io_ctx(meta.modified(), "mtime", &path)? == instant(*mt) && ctx.path_is_link() == prior.is_link();
      let observed = format!("write -> {}, directory intact = {} (listing {:?}{})", match &r { Ok(_) => "Ok(file)".to_string(), Err(e) => format!("Err({:?})", e) }, intact, listing, link_note(ctx));
      ctx.observe(|| observed.clone());
      if !refused || !intact {
        ctx.finding("C13/write-refuses-dir", format!("path.write on directory {}: {}", prior.to_json(), observed), unit.replay(ctx.ck, None, None, "Err(..) and directory intact", &observed));
      }
    }
    St::Absent | St::File { .. } => {
      let oracle = if prior.kind() == Kind::Absent { "C13/write-creates" } else { "C13/write-truncates" };
      ctx.tally.eval(oracle);
      let mut w = match r {
        Ok(w) => w,
        Err(e) => {
          let observed = format!("Err({:?})", e);
          ctx.observe(|| observed.clone());
          ctx.finding(oracle, format!("path.write on {} failed: {}", prior.to_json(), observed), unit.replay(ctx.ck, None, None, "Ok(empty file)", &observed));
          return Ok(());
        }
      };
      let observed = match fs::metadata(&path) {
        Ok(m) => format!("is_file={} len={}{}", m.is_file(), m.len(), link_note(ctx)),
        Err(e) => format!("no file ({})", e.kind()),
      };
      let wanted = format!("is_file=true len=0{}", link_want);
      ctx.observe(|| format!("write-open on {}: {}", prior.to_json(), observed));
      if observed != wanted {
        ctx.finding(oracle, format!("after path.write on {} the path is: {}", prior.to_json(), observed), unit.replay(ctx.ck, None, None, &wanted, &observed));
      }
      // The handle is writable and readable (checkers read the content through it).
      ctx.tally.eval("C13/write-handle-rw");
      let probe: &[u8] = b"probe: written through the pie writer";
      let rw = (|| -> io::Result<(Vec<u8>, Vec<u8>)> {
        w.seek(io::SeekFrom::End(0))?;
        w.write_all(probe)?;
        w.flush()?;
        w.rewind()?;
        let mut through_handle = Vec::new();
        w.read_to_end(&mut through_handle)?;
        Ok((through_handle, fs::read(&path)?))
      })();
      let observed = match &rw {
        Ok((h, d)) if h.ends_with(probe) && h == d => None,
        Ok((h, d)) => Some(format!("handle reads {} bytes, file holds {} bytes after writing a {} byte probe", h.len(), d.len(), probe.len())),
        Err(e) => Some(format!("I/O through the handle failed: {}", e)),
      };
      ctx.observe(|| format!("write-handle-rw: {:?}", observed));
      if let Some(observed) = observed {
        ctx.finding("C13/write-handle-rw", format!("handle of path.write on {}: {}", prior.to_json(), observed), unit.replay(ctx.ck, None, None, "handle writable and readable", &observed));
      }
    }
  }
  Ok(())
}

fn run_unit(ctx: &mut Ctx, unit: &Unit) -> H<()> {
  match unit {
    Unit::WriteOpen { prior } => run_write_open(ctx, unit, prior),
    Unit::StaleReader { ck, s1, s2, change } => match ck {
      Ck::Exists => run_stale_reader(&ExistsChecker, *ck, ctx, unit, s1, s2, *change),
      Ck::Modified => run_stale_reader(&ModifiedChecker, *ck, ctx, unit, s1, s2, *change),
      Ck::Hash => run_stale_reader(&HashChecker, *ck, ctx, unit, s1, s2, *change),
    },
    Unit::Pair { ck, s1, s2, route } => match ck {
      Ck::Exists => run_pair(&ExistsChecker, *ck, ctx, unit, s1, s2.as_ref(), *route),
      Ck::Modified => run_pair(&ModifiedChecker, *ck, ctx, unit, s1, s2.as_ref(), *route),
      Ck::Hash => run_pair(&HashChecker, *ck, ctx, unit, s1, s2.as_ref(), *route),
    },
    Unit::Seq { states } => run_seq(ctx, unit, states),
  }
}

// ---------------------------------------------------------------------------------------------------------------------
// Driver
// ---------------------------------------------------------------------------------------------------------------------

struct Plan {
  /// Base states (absent, files, directories over the six ASCII names at both mtimes) followed by the extended
  /// directory states (name sets involving an extra name, mtime T1).
  alpha: Vec<St>,
  n_base: usize,
  seq_alpha: Vec<St>,
  /// Start offsets of the phases in the flat item index space, plus the total as last element.
  starts: [usize; 5],
}

impl Plan {
  fn new(mut alpha: Vec<St>, extended: Vec<St>, seq_alpha: Vec<St>) -> Plan {
    let n_base = alpha.len();
    alpha.extend(extended);
    let n = alpha.len();
    let m = seq_alpha.len();
    let counts = [n, n * 3, n * n, m * m];
    let mut starts = [0usize; 5];
    for p in 0..4 { starts[p + 1] = starts[p] + counts[p]; }
    Plan { alpha, n_base, seq_alpha, starts }
  }

  /// Which checkers run on the ordered pair (i, j). Base x base: all three. A pair involving an extended state
  /// (extra file content / directory with an extra entry name): contents and names are observed by the hash checker
  /// only, so only `HashChecker` runs, and only against the partners that matter: an extended file meets every
  /// extended file, every base file at T1, Absent and the empty directory; an extended directory meets every extended
  /// directory, every base directory at T1, Absent and the smallest file.
  fn pair_checkers(&self, i: usize, j: usize) -> &'static [Ck] {
    if i < self.n_base && j < self.n_base { return &Ck::ALL; }
    let first_file = 1;
    let first_dir = self.alpha[..self.n_base].iter().position(|s| s.kind() == Kind::Dir).unwrap_or(usize::MAX);
    let accepts = |x: usize, y: usize| -> bool {
      if x < self.n_base { return true; }
      let (ext, t1) = (y >= self.n_base, self.alpha[y].mtime() != Some(1));
      match (self.alpha[x].kind(), self.alpha[y].kind()) {
        (_, Kind::Absent) => true,
        (Kind::File, Kind::File) | (Kind::Dir, Kind::Dir) => ext || t1,
        (Kind::File, Kind::Dir) => y == first_dir,
        (Kind::Dir, Kind::File) => y == first_file,
        (Kind::Absent, _) => true,
      }
    };
    if accepts(i, j) && accepts(j, i) { &[Ck::Hash] } else { &[] }
  }
  fn total(&self) -> usize { self.starts[4] }
  fn items(&self, phase: usize) -> usize { self.starts[phase + 1] - self.starts[phase] }

  /// Runs one work item (a batch of units); returns `Ok(false)` if stopped early.
  fn run_item(&self, ctx: &mut Ctx, item: usize, stop: &AtomicBool) -> H<bool> {
    let phase = (0..4).find(|p| item < self.starts[p + 1]).expect("item in range");
    let idx = item - self.starts[phase];
    let n = self.alpha.len();
    let m = self.seq_alpha.len();
    match phase as u8 {
      PHASE_WRITE_OPEN => {
        ctx.order = (phase as u64, idx as u64);
        run_unit(ctx, &Unit::WriteOpen { prior: self.alpha[idx].clone() })?;
      }
      PHASE_UNTOUCHED => {
        ctx.order = (phase as u64, idx as u64);
        run_unit(ctx, &Unit::Pair { ck: Ck::ALL[idx % 3], s1: self.alpha[idx / 3].clone(), s2: None, route: None })?;
      }
      PHASE_PAIR => {
        let (i, j) = (idx / n, idx % n);
        for (k, ck) in self.pair_checkers(i, j).iter().copied().enumerate() {
          ctx.order = (phase as u64, (idx * 3 + k) as u64);
          run_unit(ctx, &Unit::Pair { ck, s1: self.alpha[i].clone(), s2: Some(self.alpha[j].clone()), route: None })?;
          ctx.tally.pair_units += 1;
        }
      }
      _ => {
        let (i, j) = (idx / m, idx % m);
        for l in 0..m {
          if stop.load(Ordering::Relaxed) { return Ok(false); }
          ctx.order = (phase as u64, (idx * m + l) as u64);
          run_unit(ctx, &Unit::Seq { states: [self.seq_alpha[i].clone(), self.seq_alpha[j].clone(), self.seq_alpha[l].clone()] })?;
        }
      }
    }
    *ctx.tally.items_done.entry(PHASE_NAMES[phase]).or_insert(0) += 1;
    Ok(true)
  }
}

fn scratch_root() -> PathBuf { PathBuf::from(format!("{}/tmp/c13-{}", verif_dir(), std::process::id())) }

fn cleanup(root: &Path) {
  let _ = fs::remove_dir_all(root);
}

fn fail(root: &Path, msg: &str) -> ! {
  cleanup(root);
  engine_error(msg)
}

/// Verifies that this file system supports what the state alphabet needs (explicit mtimes on files and directories).
fn preflight(root: &Path) -> H<()> {
  let mut ctx = Ctx::new(&root.join("preflight"), false)?;
  for st in [
    St::File { size: 1, var: Variant::Base, mt: 0 }, St::File { size: 1, var: Variant::Base, mt: 1 },
    St::Dir { names: vec![Name::new(b"a")], mt: 0 }, St::Dir { names: vec![Name::new(b"a")], mt: 1 }, St::Absent,
  ] { ctx.materialise_with(&st, true)?; ctx.materialise(&st)?; }
  ctx.verify_pool()
}

/// Probes every extra entry name: a name the file system refuses (or does not list back byte for byte) is left out
/// of the alphabet with a recorded note. Returns (accepted, skipped with reason).
fn probe_names(root: &Path) -> H<(Vec<(Name, &'static str)>, Vec<(Name, String)>)> {
  let dir = root.join("probe");
  io_ctx(fs::create_dir_all(&dir), "create probe dir", &dir)?;
  let (mut ok, mut skipped) = (Vec::new(), Vec::new());
  for (k, (name, why)) in extra_names().into_iter().enumerate() {
    match Ctx::build_dir(&dir.join(format!("n{}", k)), std::slice::from_ref(&name)) {
      Ok(()) => ok.push((name, why)),
      Err(e) => skipped.push((name, e)),
    }
  }
  io_ctx(fs::remove_dir_all(&dir), "remove probe dir", &dir)?;
  Ok((ok, skipped))
}

/// Recorded, never judged: the path is REPLACED under the open writer by a different file (another file renamed over
/// it). The writer did not produce that state, so "a just-used writer yields the same stamp as the path" is not
/// claimed by the property; the evidence only says what the real code does.
fn probe_replaced_under_writer(root: &Path) -> H<Value> {
  fn one<C: ResourceChecker<PathBuf>>(c: &C, ck: Ck, ctx: &mut Ctx) -> H<Value> where C::Stamp: PartialEq {
    let unit = Unit::Pair { ck, s1: St::Absent, s2: None, route: None };
    ctx.ck = Some(ck);
    ctx.clear()?;
    let (path, away) = (ctx.path.clone(), ctx.away.clone());
    let Some(mut w) = open_writer(ctx, &unit, None, &St::Absent) else { return Ok(json!("path.write failed")); };
    io_ctx(w.write_all(b"old content, written through the writer"), "write", &path)?;
    io_ctx(w.set_modified(instant(0)), "set_modified", &path)?;
    let mut other = io_ctx(File::create(&away), "create other file", &away)?;
    io_ctx(other.write_all(b"a different file"), "write other file", &away)?;
    io_ctx(other.set_modified(instant(1)), "set_modified", &away)?;
    drop(other);
    io_ctx(fs::rename(&away, &path), "rename other file over the path", &away)?;
    let sp = stamp_path(c, ctx, &unit, &St::Absent);
    let sw = stamp_writer(c, ctx, &unit, Route::Writer, &St::Absent, w);
    Ok(match (sp, sw) { (Some(a), Some(b)) => json!(if a == b { "writer stamp equals path stamp" } else { "writer stamp differs from path stamp (the writer still refers to the replaced file)" }), _ => json!("stamping failed") })
  }
  let mut ctx = Ctx::new(&root.join("replaced"), false)?;
  let out = json!({
    "ExistsChecker": one(&ExistsChecker, Ck::Exists, &mut ctx)?,
    "ModifiedChecker": one(&ModifiedChecker, Ck::Modified, &mut ctx)?,
    "HashChecker": one(&HashChecker, Ck::Hash, &mut ctx)?,
  });
  if !ctx.tally.findings.is_empty() { return Err(format!("probe of the replaced-under-writer case hit an error: {}", ctx.tally.findings[0].what)); }
  ctx.clear()?;
  Ok(out)
}

/// Removes the scratch directory also when the harness unwinds.
struct ScratchGuard(PathBuf);
impl Drop for ScratchGuard { fn drop(&mut self) { cleanup(&self.0); } }

pub fn run(args: &Args) -> i32 {
  let root = scratch_root();
  let _guard = ScratchGuard(root.clone());
  cleanup(&root);
  if let Err(e) = fs::create_dir_all(&root) { engine_error(&format!("cannot create scratch dir {}: {}", root.display(), e)); }
  if let Err(e) = preflight(&root) { fail(&root, &format!("C13 preflight: {}", e)); }
  let code = match &args.replay {
    Some(file) => run_replay(args, file, &root),
    None => run_enumeration(args, &root),
  };
  cleanup(&root);
  code
}

fn run_enumeration(args: &Args, root: &Path) -> i32 {
  let mut rep = Report::new(args);
  rep.max_violations = 12;
  let sets = name_sets();
  let (extra, names_skipped) = match probe_names(root) { Ok(x) => x, Err(e) => fail(root, &format!("C13 name probe: {}", e)) };
  let (stale_tally, stale_units) = {
    let run = || -> H<(Tally, usize)> {
      let mut ctx = Ctx::new(&root.join("stale"), false)?;
      let mut n = 0;
      for (k, (s1, s2, change)) in stale_reader_cases().into_iter().enumerate() {
        for (j, ck) in Ck::ALL.into_iter().enumerate() {
          ctx.order = (PHASE_STALE_READER as u64, (k * 3 + j) as u64);
          run_unit(&mut ctx, &Unit::StaleReader { ck, s1: s1.clone(), s2: s2.clone(), change })?;
          n += 1;
        }
      }
      ctx.clear()?;
      Ok((ctx.tally, n))
    };
    match run() { Ok(x) => x, Err(e) => fail(root, &format!("C13 stale-reader phase: {}", e)) }
  };
  let replaced_probe = match probe_replaced_under_writer(root) { Ok(v) => v, Err(e) => fail(root, &format!("C13 replaced-under-writer probe: {}", e)) };
  let extra_only: Vec<Name> = extra.iter().map(|(n, _)| n.clone()).collect();
  let extra_sets = extra_name_sets(&extra_only);
  let (sizes, wall_cap) = match args.tier { Tier::Quick => (QUICK_SIZES, 22.0), Tier::Thorough => (FULL_SIZES, 570.0) };
  let extra_files = extra_file_contents(sizes);
  let mut extended: Vec<St> = extra_files.iter().map(|(size, var)| St::File { size: *size, var: *var, mt: 0 }).collect();
  let n_ext_files = extended.len();
  extended.extend(extra_sets.iter().map(|names| St::Dir { names: names.clone(), mt: 0 }));
  let mut alpha = alphabet(sizes, &sets);
  let n_plain = alpha.len();
  let links = link_states();
  alpha.extend(links.iter().cloned()); // symbolic-link states count as base states: all three checkers, all partners
  let futures = future_states();
  alpha.extend(futures.iter().cloned()); // so do the states with an mtime in the future
  let mut seq_alpha = match args.tier { Tier::Quick => core_alphabet(), Tier::Thorough => alpha[..n_plain].to_vec() };
  // Two non-UTF-8 single-name directories take part in the sequences as well.
  seq_alpha.extend(extended.iter().filter(|s| matches!(s, St::Dir { names, .. } if names.len() == 1 && std::str::from_utf8(&names[0].0).is_err())).take(2).cloned());
  // ... and two extra file contents (a NUL byte; 8392 bytes of 'x').
  seq_alpha.extend([St::File { size: 1, var: Variant::Zero, mt: 0 }, St::File { size: 8392, var: Variant::Uniform, mt: 0 }]);
  // ... and two symbolic-link states (link to a file larger than the read buffer, link to a directory), unless present.
  for l in [&links[1], &links[5]] { if !seq_alpha.contains(l) { seq_alpha.push(l.clone()); } }
  let plan = Plan::new(alpha, extended, seq_alpha);

  let threads = args.extra.iter().find_map(|a| a.strip_prefix("threads=").and_then(|n| n.parse::<usize>().ok()))
    .unwrap_or_else(|| std::thread::available_parallelism().map(|n| n.get()).unwrap_or(4)).clamp(1, 16);
  let next = AtomicUsize::new(0);
  let stop = AtomicBool::new(false);
  let capped = AtomicBool::new(false);
  let error: Mutex<Option<String>> = Mutex::new(None);
  let start = Instant::now();
  let mut total = Tally::default();
  total.merge(stale_tally);

  let results: Vec<Result<Tally, String>> = std::thread::scope(|scope| {
    let handles: Vec<_> = (0..threads).map(|w| {
      let (plan, next, stop, capped, error) = (&plan, &next, &stop, &capped, &error);
      let dir = root.join(format!("w{}", w));
      scope.spawn(move || -> Result<Tally, String> {
        let mut ctx = Ctx::new(&dir, false)?;
        let dir = dir; // moved into the worker
        loop {
          if stop.load(Ordering::Relaxed) { break; }
          if start.elapsed().as_secs_f64() > wall_cap { capped.store(true, Ordering::Relaxed); stop.store(true, Ordering::Relaxed); break; }
          let item = next.fetch_add(1, Ordering::Relaxed);
          if item >= plan.total() { break; }
          if let Err(e) = plan.run_item(&mut ctx, item, stop) {
            stop.store(true, Ordering::Relaxed);
            let mut g = error.lock().unwrap_or_else(|p| p.into_inner());
            if g.is_none() { *g = Some(e.clone()); }
            return Err(e);
          }
        }
        ctx.verify_pool()?;
        let _ = fs::remove_dir_all(&dir); // each worker removes its own pooled directories (rmdir is slow here)
        ctx.tally.t_pie = PIE_TIME.with(|c| c.get());
        Ok(ctx.tally)
      })
    }).collect();
    handles.into_iter().map(|h| match h.join() {
      Ok(r) => r,
      Err(p) => Err(format!("harness worker panicked: {}", p.downcast_ref::<String>().cloned().or_else(|| p.downcast_ref::<&str>().map(|s| s.to_string())).unwrap_or_default())),
    }).collect()
  });
  for r in results {
    match r { Ok(t) => total.merge(t), Err(e) => fail(root, &format!("C13: {}", e)) }
  }
  if let Some(e) = error.lock().unwrap_or_else(|p| p.into_inner()).take() { fail(root, &format!("C13: {}", e)); }

  let capped = capped.load(Ordering::Relaxed);
  let done = |p: usize| total.items_done.get(PHASE_NAMES[p]).copied().unwrap_or(0);
  let exhaustive = !capped && (0..4).all(|p| done(p) as usize == plan.items(p));

  // Findings: smallest first, at most two per oracle.
  total.findings.sort_by(|a, b| (a.order, a.oracle).cmp(&(b.order, b.oracle)));
  let mut per_oracle: BTreeMap<&'static str, usize> = BTreeMap::new();
  let mut all_per_oracle: BTreeMap<&'static str, u64> = BTreeMap::new();
  for f in &total.findings {
    *all_per_oracle.entry(f.oracle).or_insert(0) += 1;
    let n = per_oracle.entry(f.oracle).or_insert(0);
    if *n >= 2 { continue; }
    *n += 1;
    rep.violation(Violation { property: "C13".into(), oracle: f.oracle.into(), key: String::new(), what: f.what.clone(), replay: f.replay.clone() });
  }

  let n = plan.alpha.len();
  // Samples: for every (checker, expectation) class the two smallest recorded cases of each phase.
  let samples: Vec<Value> = {
    let mut groups: BTreeMap<(u8, Ck, Expect), Vec<((u64, u64), Value)>> = BTreeMap::new();
    for ((phase, ck, _, _, expect), v) in &total.samples { groups.entry((*phase, *ck, *expect)).or_default().push(v.clone()); }
    let mut out = Vec::new();
    for (_, mut g) in groups {
      g.sort_by(|a, b| a.0.cmp(&b.0));
      // Prefer cases whose two states differ.
      g.sort_by_key(|x| x.1.get("s1") == x.1.get("s2") || x.1.get("s2") == Some(&json!("untouched")));
      out.extend(g.into_iter().take(2).map(|x| x.1));
    }
    out
  };
  let outcomes = |c: Ck| json!({
    "consistent": total.outcomes[c as usize][OUT_CONSISTENT],
    "inconsistent": total.outcomes[c as usize][OUT_INCONSISTENT],
    "not_judged": total.outcomes[c as usize][OUT_NOT_JUDGED],
  });
  rep.set("states", json!(total.states.len()));
  rep.set("symlink_state_selection", json!(format!(
    "{} symbolic-link states in both tiers (target next to the path with an explicit mtime, link created afterwards: its own lstat \
     mtime is the wall clock): links to files (empty; 8193 bytes base at T1 and T2; 8193 bytes last-byte-differs at T1) and to \
     directories ({{}}, {{a}} at T1 and T2, {{a,b}}). For every oracle a link state is its target's state. They are base states: write-open, \
     untouched, and every ordered pair with every plain base state and with every link state under all three checkers and all \
     routes (the writer route writes through the link). link -> link keeps the link and modifies the target (file -> file through \
     the link in place, otherwise the target is re-created directly); link <-> plain re-materialises. Two of them take part in the \
     sequences. No dangling links, chains or loops.", links.len())));
  rep.set("future_mtime_states", json!({
    "what": "third logical mtime T_FUTURE = start of the run + 1 day (whole seconds), set explicitly like T1 / T2; oracle as for T1 / T2 (the stamp is the mtime: untouched => consistent, different mtime => inconsistent). Base states: write-open, untouched, every ordered pair with every plain base / symlink / future state under all three checkers and routes.",
    "states": futures.iter().map(|f| f.to_json()).collect::<Vec<_>>(), "T_FUTURE_unix_s": future_secs(),
  }));
  rep.set("stale_reader_phase", json!({
    "what": "reader opened in file state S1, then the path is changed to S2 (replaced by rename of a prepared sibling / mtime changed in place / removed), then stamp_reader; for all three checkers the reader stamp must equal the path stamp taken in S1 (the reader observes S1: its metadata, its existence, its content through the open handle) and the reader must still yield S1's full content",
    "cases": stale_reader_cases().iter().map(|(a, b, c)| json!({"s1": a.to_json(), "s2": b.to_json(), "change": c.as_str()})).collect::<Vec<_>>(),
    "units_run": stale_units,
  }));
  rep.set("absent_under_open_writer", json!("the Absent state is reached under an open pie writer in three ways, each a route of its own for every checker (untouched, every pair with Absent as S1, sequences): remove_file(path); rename(path, sibling); hard_link(path, sibling) + remove_file(path). Oracle for all three: the writer stamp equals the path stamp of the absent path."));
  rep.set("path_replaced_under_open_writer_recorded_not_judged", replaced_probe);
  rep.set("alphabet_states", json!({"plain_base": n_plain, "symlinks": links.len(), "future_mtime": futures.len(), "base": plan.n_base, "extended_files": n_ext_files, "extended_dirs": n - plan.n_base - n_ext_files, "total": n}));
  rep.set("file_state_selection", json!(format!(
    "base: sizes {:?} with the base pattern and its last-byte / first-byte variants ({} contents) at both mtimes; extended: {} extra \
     contents at mtime T1 only: for every size class s all-zero, uniform 'x', periodic 16-byte lines (s bytes) and base content + 1 / 2 \
     trailing NULs (s+1, s+2 bytes), plus NUL, NUL NUL, 'data\\n' with 0/1/2 trailing NULs, 8292 / 8392 bytes of 'x', 515 / 519 identical \
     16-byte lines; contents equal to an earlier one are left out (all file contents are pairwise different). Pair phase: every \
     ordered pair of file contents (base at T1 and extended) runs under HashChecker, all routes; ExistsChecker and ModifiedChecker \
     (which do not observe content) keep the base file alphabet; extended files also meet Absent and the empty directory.",
    sizes, base_file_contents(sizes).len(), n_ext_files)));
  rep.set("extra_file_contents", Value::Array(extra_files.iter().map(|(sz, v)| json!({"size": sz, "variant": v.as_str()})).collect()));
  rep.set("pair_units", json!(total.pair_units));
  rep.set("dir_state_selection", json!(format!(
    "base: every subset of <= {} names of the {} ASCII names ({} sets) at both mtimes; extended: every subset of <= {} of the \
     {} accepted extra names within a group (dot-names .hidden / .a / ..x; repetitions aa / aaa / aaaa; all other extra names) plus every pair (one ASCII \
     name, one extra name; repetitions only with a) ({} sets) at mtime T1 only. write-open and \
     untouched run on every state. pair phase: base x base with all three checkers; a pair involving an extended directory \
     runs HashChecker only (names are observed by no other checker) against every extended directory, every base directory at \
     T1, Absent and the smallest file, in both orders. seq phase: base alphabet (quick: core alphabet) plus two non-UTF-8 \
     single-name directories.", MAX_NAMES, NAME_POOL.len(), sets.len(), MAX_EXTRA_NAMES, extra.len(), extra_sets.len())));
  rep.set("extra_names", Value::Array(extra.iter().map(|(nm, why)| json!({"name": nm.encoded(), "bytes": nm.0.len(), "why": why})).collect()));
  rep.set("names_skipped", Value::Array(names_skipped.iter().map(|(nm, e)| json!({"name": nm.encoded(), "reason": e})).collect()));
  rep.set("name_encoding", json!("entry names are shown with every byte outside printable ASCII (and '%') as %XX"));
  rep.set("materialisations", json!(total.materialisations));
  rep.set("transitions", json!(total.pair_judged));
  rep.set("traces_validated_against_impl", json!(total.judged));
  rep.set("not_judged", json!(total.not_judged));
  rep.set("evaluations", json!(total.evaluations));
  rep.set("evaluations_per_oracle", json!(total.per_oracle));
  rep.set("distinct_nontrivial", json!(total.nontrivial));
  rep.set("distinct_outcomes", json!({
    "ExistsChecker": outcomes(Ck::Exists), "ModifiedChecker": outcomes(Ck::Modified), "HashChecker": outcomes(Ck::Hash),
    "hash_recreated_same_nameset_dir": {"consistent": total.recreated_dir_consistent, "inconsistent_not_judged": total.recreated_dir_inconsistent},
    "hash_file_dir_kind_change_not_judged": {"inconsistent": total.kind_change[0], "consistent": total.kind_change[1]},
  }));
  rep.set("hash_dir_collisions", json!(total.collisions.iter().map(|(a, b)| json!({"stamped": names_json(a), "checked": names_json(b)})).collect::<Vec<_>>()));
  rep.set("findings_per_oracle", json!(all_per_oracle));
  rep.set("findings_beyond_worker_cap", json!(total.findings_dropped));
  rep.set("samples", Value::Array(samples));
  rep.set("exhaustive", json!(exhaustive));
  rep.set("work_items", json!({
    "write-open": {"done": done(0), "of": plan.items(0)},
    "untouched": {"done": done(1), "of": plan.items(1)},
    "pair": {"done": done(2), "of": plan.items(2)},
    "seq": {"done": done(3), "of": plan.items(3), "sequences_per_item": plan.seq_alpha.len()},
  }));
  rep.set("threads", json!(threads));
  rep.set("cpu_seconds", json!({"materialise": total.t_materialise.as_secs_f64(), "calls_into_pie": total.t_pie.as_secs_f64()}));
  rep.set("rule", json!(
    "states: absent, regular file, directory, symbolic link to a regular file, symbolic link to a directory. \
     every state P of the alphabet: path.write on P; every (S1, checker, route): stamp then check untouched; every ordered \
     pair (S1,S2) x {Exists,Modified,Hash} x routes {path, fresh reader, writer that produced S1 (files), writer whose path \
     became absent under it in three ways: file removed / renamed away to a sibling / hard-linked to a sibling then removed (absent)}: materialise S1 on the real file system, stamp, materialise S2, check, compare with the \
     reference relation; every length-3 sequence over the sequence alphabet with stamps of earlier states checked at later \
     ones; smallest states first"));
  rep.set("bounds", json!({
    "file_sizes": sizes, "content_variants": ["base", "last-byte-differs", "first-byte-differs (size >= 2)", "all-zero", "uniform-x", "lines16", "base+1nul", "base+2nul", "data", "data+1nul", "data+2nul"],
    "extra_file_contents": n_ext_files,
    "dir_name_pool": NAME_POOL, "dir_max_names": MAX_NAMES, "dir_name_sets": sets.len(),
    "dir_extra_names": extra.len(), "dir_extra_max_names": MAX_EXTRA_NAMES, "dir_extra_name_sets": extra_sets.len(),
    "symlink_states": links.iter().map(|l| l.to_json()).collect::<Vec<_>>(),
    "mtimes_unix_s": T_SECS, "pair_alphabet": n, "sequence_alphabet": plan.seq_alpha.len(), "sequence_length": 3,
    "wall_cap_s": wall_cap, "file_system_dir": root.parent().map(|p| p.display().to_string()),
  }));
  rep.assume("entry names are the six ASCII names and the listed extra names (non-UTF-8 bytes, multi-byte UTF-8, U+FFFD, case, space, newline, 200 bytes, dot-names); directory entries are empty regular files");
  for (nm, e) in &names_skipped { rep.assume(&format!("entry name {:?} left out: {}", nm, e)); }
  rep.assume("a symbolic link is judged exactly like the file or directory it resolves to; dangling links and link loops are outside the alphabet");
  rep.assume("hash checker: file<->directory changes and re-created directories with the same name set are recorded, not judged");
  rep.finish()
}

fn run_replay(args: &Args, file: &Path, root: &Path) -> i32 {
  let text = match fs::read_to_string(file) { Ok(t) => t, Err(e) => { cleanup(root); eprintln!("cannot read {}: {}", file.display(), e); return 2; } };
  let v: Value = match serde_json::from_str(&text) { Ok(v) => v, Err(e) => { cleanup(root); eprintln!("{} does not parse: {}", file.display(), e); return 2; } };
  let replay = v.get("replay").unwrap_or(&v);
  let unit = match Unit::from_replay(replay) { Ok(u) => u, Err(e) => { cleanup(root); eprintln!("bad replay {}: {}", file.display(), e); return 2; } };
  let mut runs: Vec<(Vec<String>, Vec<Finding>)> = Vec::new();
  for k in 0..2 {
    let mut ctx = match Ctx::new(&root.join(format!("replay{}", k)), true) { Ok(c) => c, Err(e) => fail(root, &e) };
    if let Err(e) = run_unit(&mut ctx, &unit).and_then(|_| ctx.verify_pool()) { fail(root, &format!("C13 replay: {}", e)); }
    runs.push((ctx.observations.take().unwrap_or_default(), ctx.tally.findings));
  }
  if runs[0].0 != runs[1].0 {
    let diff = runs[0].0.iter().zip(runs[1].0.iter()).find(|(a, b)| a != b).map(|(a, b)| format!("{} / {}", a, b)).unwrap_or_else(|| "different lengths".into());
    fail(root, &format!("C13 replay is not reproducible: {}", diff));
  }
  let _ = args;
  let findings = &runs[0].1;
  if findings.is_empty() {
    println!("replay: no violation");
    return 0;
  }
  for f in findings {
    println!("VIOLATION property=C13 replay={}", file.display());
    println!("  oracle={} key= what={}", f.oracle, f.what);
  }
  1
}

// ---------------------------------------------------------------------------------------------------------------------
// Unit tests of the reference relations
// ---------------------------------------------------------------------------------------------------------------------

#[cfg(test)]
mod test {
  use super::*;

  fn f(size: usize, var: Variant, mt: u8) -> St { St::File { size, var, mt } }
  fn d(names: &[&str], mt: u8) -> St { let mut n: Vec<Name> = names.iter().map(|s| Name::new(s.as_bytes())).collect(); n.sort(); St::Dir { names: n, mt } }

  #[test]
  fn alphabet_sizes() {
    let sets = name_sets();
    assert_eq!(sets.len(), 42);
    assert_eq!(sets[0], Vec::<Name>::new());
    assert!(sets.windows(2).all(|w| w[0].len() <= w[1].len()));
    assert_eq!(alphabet(QUICK_SIZES, &sets).len(), 1 + (1 + 2 + 3 + 3) * 2 + 84);
    assert_eq!(alphabet(FULL_SIZES, &sets).len(), 1 + (1 + 2 + 3 * 5) * 2 + 84);
    let a = alphabet(FULL_SIZES, &sets);
    let distinct: BTreeSet<&St> = a.iter().collect();
    assert_eq!(distinct.len(), a.len());
  }

  #[test]
  fn contents_differ_where_they_should() {
    for &s in FULL_SIZES {
      let b = content(s, Variant::Base);
      assert_eq!(b.len(), s);
      if s >= 1 {
        let l = content(s, Variant::LastDiffers);
        assert_eq!(b[..s - 1], l[..s - 1]);
        assert_ne!(b[s - 1], l[s - 1]);
      }
      if s >= 2 {
        let fi = content(s, Variant::FirstDiffers);
        assert_eq!(b[1..], fi[1..]);
        assert_ne!(b[0], fi[0]);
        assert_ne!(fi, content(s, Variant::LastDiffers));
      }
    }
  }

  #[test]
  fn extra_file_contents_are_distinct_and_cover_the_shortcuts() {
    for sizes in [QUICK_SIZES, FULL_SIZES] {
      let mut all = base_file_contents(sizes);
      let extra = extra_file_contents(sizes);
      all.extend(extra.iter().copied());
      let bytes: BTreeSet<Vec<u8>> = all.iter().map(|(s, v)| content(*s, *v)).collect();
      assert_eq!(bytes.len(), all.len());
      for (s, v) in &all { assert_eq!(content(*s, *v).len(), *s); assert_eq!(Variant::parse(&v.as_str()), Some(*v)); }
      let has = |b: &[u8]| bytes.contains(b);
      assert!(has(b"") && has(b"\0") && has(b"\0\0") && has(b"data\n") && has(b"data\n\0") && has(b"data\n\0\0"));
      assert!(has(&vec![b'x'; 8292]) && has(&vec![b'x'; 8392]));
      assert!(has(&LINE16.repeat(515)) && has(&LINE16.repeat(519)));
      let mut b = content(8192, Variant::Base); b.push(0);
      assert!(has(&b)); b.push(0); assert!(has(&b));
      assert!(has(&vec![0u8; 8192]) && has(&vec![b'x'; 8193]));
      assert!(extra.windows(2).all(|w| w[0] < w[1]));
    }
    // Equality is decided on the bytes, not on the description.
    assert!(contents_equal((1, Variant::Zero), (1, Variant::BaseNul(1))));
    assert!(contents_equal((0, Variant::Base), (0, Variant::Uniform)));
    assert!(!contents_equal((5, Variant::Data), (7, Variant::DataNul(2))));
    assert!(!contents_equal((8292, Variant::Uniform), (8392, Variant::Uniform)));
    assert!(!contents_equal((8192, Variant::Base), (8192, Variant::LastDiffers)));
    let f = |size, var| St::File { size, var, mt: 0 };
    assert_eq!(reference(Ck::Hash, &f(0, Variant::Base), &f(1, Variant::Zero), false), (Expect::Inconsistent, "C13/hash-file-content"));
    assert_eq!(reference(Ck::Hash, &f(5, Variant::Data), &f(7, Variant::DataNul(2)), false).0, Expect::Inconsistent);
    assert_eq!(reference(Ck::Hash, &f(8292, Variant::Uniform), &f(8392, Variant::Uniform), false).0, Expect::Inconsistent);
    assert_eq!(reference(Ck::Hash, &f(1, Variant::Zero), &f(1, Variant::BaseNul(1)), false).0, Expect::Consistent);
  }

  #[test]
  fn exists_relation() {
    let e = |a: &St, b: &St| reference(Ck::Exists, a, b, false).0;
    assert_eq!(e(&St::Absent, &St::Absent), Expect::Consistent);
    assert_eq!(e(&St::Absent, &f(0, Variant::Base, 0)), Expect::Inconsistent);
    assert_eq!(e(&d(&[], 0), &St::Absent), Expect::Inconsistent);
    assert_eq!(e(&d(&["a"], 0), &f(1, Variant::Base, 1)), Expect::Consistent);
    assert_eq!(e(&f(1, Variant::Base, 0), &f(8193, Variant::LastDiffers, 1)), Expect::Consistent);
  }

  #[test]
  fn modified_relation() {
    let m = |a: &St, b: &St| reference(Ck::Modified, a, b, false).0;
    assert_eq!(m(&St::Absent, &St::Absent), Expect::Consistent);
    assert_eq!(m(&St::Absent, &f(0, Variant::Base, 0)), Expect::Inconsistent);
    assert_eq!(m(&f(0, Variant::Base, 0), &St::Absent), Expect::Inconsistent);
    // Same explicit mtime, different content: consistent by documentation (observes only the mtime).
    assert_eq!(m(&f(1, Variant::Base, 0), &f(1, Variant::LastDiffers, 0)), Expect::Consistent);
    assert_eq!(m(&f(1, Variant::Base, 0), &f(1, Variant::Base, 1)), Expect::Inconsistent);
    assert_eq!(m(&f(1, Variant::Base, 1), &d(&["a"], 1)), Expect::Consistent);
    assert_eq!(m(&d(&["a"], 0), &d(&["a"], 1)), Expect::Inconsistent);
  }

  #[test]
  fn hash_relation() {
    let h = |a: &St, b: &St| reference(Ck::Hash, a, b, false);
    assert_eq!(h(&St::Absent, &St::Absent).0, Expect::Consistent);
    assert_eq!(h(&St::Absent, &d(&[], 0)).0, Expect::Inconsistent);
    assert_eq!(h(&f(0, Variant::Base, 0), &St::Absent).0, Expect::Inconsistent);
    assert_eq!(h(&f(8193, Variant::Base, 0), &f(8193, Variant::Base, 1)).0, Expect::Consistent);
    assert_eq!(h(&f(8193, Variant::Base, 0), &f(8193, Variant::LastDiffers, 0)), (Expect::Inconsistent, "C13/hash-file-content"));
    assert_eq!(h(&f(8192, Variant::Base, 0), &f(8193, Variant::Base, 0)).0, Expect::Inconsistent);
    assert_eq!(h(&f(0, Variant::Base, 0), &d(&[], 0)).0, Expect::NotClaimed);
    assert_eq!(h(&d(&["a"], 0), &f(1, Variant::Base, 0)).0, Expect::NotClaimed);
    assert_eq!(h(&d(&["a", "b"], 0), &d(&["ab"], 0)), (Expect::Inconsistent, "C13/hash-dir-nameset"));
    assert_eq!(h(&d(&["a", "b"], 0), &d(&["ba"], 1)).0, Expect::Inconsistent);
    assert_eq!(h(&d(&["a", "b"], 0), &d(&["b", "a"], 1)).0, Expect::ConsistentUnlessReordered);
    assert_eq!(h(&d(&[], 0), &d(&[], 0)).0, Expect::ConsistentUnlessReordered);
  }

  #[test]
  fn untouched_is_always_consistent() {
    for ck in Ck::ALL {
      for s in alphabet(QUICK_SIZES, &name_sets()) { assert_eq!(reference(ck, &s, &s, true).0, Expect::Consistent); }
    }
  }

  #[test]
  fn judging() {
    assert_eq!(judge(Expect::Consistent, true), Verdict::Agree);
    assert_eq!(judge(Expect::Consistent, false), Verdict::Violation);
    assert_eq!(judge(Expect::Inconsistent, false), Verdict::Agree);
    assert_eq!(judge(Expect::Inconsistent, true), Verdict::Violation);
    assert_eq!(judge(Expect::ConsistentUnlessReordered, true), Verdict::Agree);
    assert_eq!(judge(Expect::ConsistentUnlessReordered, false), Verdict::NotJudged);
    assert_eq!(judge(Expect::NotClaimed, true), Verdict::NotJudged);
    assert_eq!(judge(Expect::NotClaimed, false), Verdict::NotJudged);
  }

  #[test]
  fn state_json_round_trip() {
    for s in alphabet(FULL_SIZES, &name_sets()) { assert_eq!(St::from_json(&s.to_json()).unwrap(), s); }
    let u = Unit::Pair { ck: Ck::Hash, s1: d(&["ba"], 0), s2: Some(d(&["a", "b"], 0)), route: None };
    let r = u.replay(None, Some(Route::Path), None, "inconsistent", "consistent");
    match Unit::from_replay(&r).unwrap() {
      Unit::Pair { ck: Ck::Hash, s1, s2: Some(s2), route: Some(Route::Path) } => { assert_eq!(s1, d(&["ba"], 0)); assert_eq!(s2, d(&["a", "b"], 0)); }
      o => panic!("{:?}", o),
    }
  }

  #[test]
  fn extra_names_and_sets() {
    let extra: Vec<Name> = extra_names().into_iter().map(|(n, _)| n).collect();
    let distinct: BTreeSet<&Name> = extra.iter().collect();
    assert_eq!(distinct.len(), extra.len());
    assert!(extra.iter().all(|n| !NAME_POOL.iter().any(|o| o.as_bytes() == n.0.as_slice()) && n.0.len() <= 255));
    // Reversible text form, also for non-UTF-8 bytes, spaces, newlines and '%'.
    for n in extra.iter().chain([Name::new(b"100%"), Name::new(b"%41")].iter()) { assert_eq!(&Name::decode(&n.encoded()).unwrap(), n); }
    assert_eq!(Name::new(b"x\xE9").encoded(), "x%E9");
    assert_eq!(Name::new(b"a b").encoded(), "a%20b");
    assert!(Name::decode("a/b").is_err() && Name::decode("..").is_err() && Name::decode("%00").is_err() && Name::decode("").is_err());
    let k = extra.len();
    let dots = extra.iter().filter(|n| n.0[0] == b'.').count();
    let reps = extra.iter().filter(|n| name_group(n) == 2).count();
    assert_eq!((dots, reps), (3, 3));
    let sets = extra_name_sets(&extra);
    let c2 = |n: usize| n * (n - 1) / 2;
    assert_eq!(sets.len(), k + c2(k - dots - reps) + c2(dots) + c2(reps) + (k - reps) * NAME_POOL.len() + reps);
    {
      // Equal cardinality, equal concatenation whatever the listing order, different name sets.
      let mk = |n: &[&[u8]]| { let mut v: Vec<Name> = n.iter().map(|b| Name::new(b)).collect(); v.sort(); v };
      assert!(sets.contains(&mk(&[b"a", b"aaaa"])) && sets.contains(&mk(&[b"aa", b"aaa"])));
      assert_eq!(reference(Ck::Hash, &St::Dir { names: mk(&[b"a", b"aaaa"]), mt: 0 }, &St::Dir { names: mk(&[b"aa", b"aaa"]), mt: 0 }, false).0, Expect::Inconsistent);
    }
    let distinct: BTreeSet<&Vec<Name>> = sets.iter().collect();
    assert_eq!(distinct.len(), sets.len());
    let base: BTreeSet<Vec<Name>> = name_sets().into_iter().collect();
    assert!(sets.iter().all(|s| !base.contains(s) && s.windows(2).all(|w| w[0] < w[1])));
    // The lossy-conversion pairs are both present, so is the pair they would collide with.
    let has = |names: &[&[u8]]| { let mut v: Vec<Name> = names.iter().map(|b| Name::new(b)).collect(); v.sort(); sets.contains(&v) };
    assert!(has(&[b"\xFF"]) && has(&[b"\xFE"]) && has(&[b"x\xE9"]) && has(&[b"x\xE8"]) && has(&["\u{FFFD}".as_bytes()]));
    assert!(has(&[b"A"]) && has(&[b"a", b"A"]) && has(&[b"a\nb"]) && has(&[b"a b"]));
    // Dot-names: {.a} and {a, .a} (next to the base set {a}), {.hidden}, {..x}, and pairs of dot-names.
    assert!(has(&[b".a"]) && has(&[b"a", b".a"]) && has(&[b".hidden"]) && has(&[b"..x"]) && has(&[b".a", b".hidden"]) && !has(&[b".a", b"A"]));
    assert!(base.contains(&vec![Name::new(b"a")]) && base.contains(&Vec::new()));
    let dd2 = |n: &[&[u8]]| { let mut v: Vec<Name> = n.iter().map(|b| Name::new(b)).collect(); v.sort(); St::Dir { names: v, mt: 0 } };
    assert_eq!(reference(Ck::Hash, &dd2(&[b"a"]), &dd2(&[b"a", b".a"]), false).0, Expect::Inconsistent);
    assert_eq!(reference(Ck::Hash, &dd2(&[]), &dd2(&[b".hidden"]), false).0, Expect::Inconsistent);
    // Different name sets are judged "inconsistent" whatever the bytes.
    let dd = |b: &[u8]| St::Dir { names: vec![Name::new(b)], mt: 0 };
    assert_eq!(reference(Ck::Hash, &dd(b"\xFF"), &dd(b"\xFE"), false), (Expect::Inconsistent, "C13/hash-dir-nameset"));
    assert_eq!(reference(Ck::Hash, &dd(b"\xFF"), &dd("\u{FFFD}".as_bytes()), false).0, Expect::Inconsistent);
    assert_eq!(reference(Ck::Hash, &dd(b"\xFF"), &dd(b"\xFF"), false).0, Expect::ConsistentUnlessReordered);
  }

  #[test]
  fn link_states_are_their_targets() {
    let links = link_states();
    assert_eq!(links.len(), 8);
    let base = alphabet(FULL_SIZES, &name_sets());
    for l in &links {
      let St::Link { target } = l else { panic!() };
      assert!(matches!(**target, St::File { .. } | St::Dir { .. }));
      assert!(l.is_link() && !target.is_link() && l.resolved() == &**target);
      assert_eq!((l.kind(), l.exists(), l.mtime(), l.content()), (target.kind(), true, target.mtime(), target.content()));
      assert_eq!(St::from_json(&l.to_json()).unwrap(), *l);
      assert_eq!(Route::Writer.applies(l.kind()), target.kind() == Kind::File);
      for ck in Ck::ALL {
        assert_eq!(reference(ck, l, l, true).0, Expect::Consistent);
        for o in base.iter().chain(links.iter()) {
          assert_eq!(reference(ck, l, o, false), reference(ck, target, o, false));
          assert_eq!(reference(ck, o, l, false), reference(ck, o, target, false));
        }
      }
    }
    // target modified: content only / mtime only.
    assert_eq!(reference(Ck::Hash, &links[1], &links[3], false).0, Expect::Inconsistent);
    assert_eq!(reference(Ck::Modified, &links[1], &links[3], false).0, Expect::Consistent);
    assert_eq!(reference(Ck::Hash, &links[1], &links[2], false).0, Expect::Consistent);
    assert_eq!(reference(Ck::Modified, &links[1], &links[2], false).0, Expect::Inconsistent);
    assert_eq!(reference(Ck::Hash, &links[5], &links[7], false).0, Expect::Inconsistent);
    assert!(St::from_json(&json!({"kind": "symlink", "target": {"kind": "absent"}})).is_err());
    assert!(St::from_json(&json!({"kind": "symlink", "target": links[0].to_json()})).is_err());
    assert_eq!(mask_wall_clock("Some(SystemTime { tv_sec: 1790000123, tv_nsec: 42 }) vs SystemTime { tv_sec: 1500000000, tv_nsec: 0 }"),
      "Some(SystemTime { tv_sec: <wall-clock> }) vs SystemTime { tv_sec: 1500000000, tv_nsec: 0 }");
  }

  #[test]
  fn future_mtime_states() {
    let fs = future_states();
    assert_eq!(fs.len(), 4);
    assert!(instant(MT_FUTURE) > SystemTime::now() + Duration::from_secs(80_000) && instant(MT_FUTURE) != instant(0) && instant(MT_FUTURE) != instant(1));
    for f in &fs {
      assert_eq!(f.mtime(), Some(MT_FUTURE));
      assert_eq!(St::from_json(&f.to_json()).unwrap(), *f);
      assert_eq!(reference(Ck::Modified, f, f, true).0, Expect::Consistent);
      assert_eq!(reference(Ck::Modified, f, f, false).0, Expect::Consistent);
      assert_eq!(reference(Ck::Modified, f, &St::Absent, false).0, Expect::Inconsistent);
    }
    let t1 = St::File { size: 0, var: Variant::Base, mt: 0 };
    assert_eq!(reference(Ck::Modified, &fs[0], &t1, false).0, Expect::Inconsistent);
    assert_eq!(reference(Ck::Modified, &t1, &fs[0], false).0, Expect::Inconsistent);
    assert_eq!(reference(Ck::Hash, &fs[0], &t1, false).0, Expect::Consistent);
    assert_eq!(reference(Ck::Exists, &fs[2], &t1, false).0, Expect::Consistent);
  }

  #[test]
  fn routes_apply() {
    assert!(Route::Writer.applies(Kind::File) && !Route::Writer.applies(Kind::Dir) && !Route::Writer.applies(Kind::Absent));
    assert!(Route::WriterRemoved.applies(Kind::Absent) && !Route::WriterRemoved.applies(Kind::File));
    for r in ABSENT_WRITER_ROUTES { assert!(r.applies(Kind::Absent) && !r.applies(Kind::File) && !r.applies(Kind::Dir)); assert_eq!(Route::parse(r.as_str()), Some(r)); }
    assert!((0..3).map(absent_route_at).collect::<BTreeSet<_>>().len() == 3);
    assert!(Route::Path.applies(Kind::Dir) && Route::Reader.applies(Kind::Dir));
  }
}
