//! M2/M3: the shadow store and the rule/validation/scheduling monitors (DESIGN §3.4, §4). The analyzer consumes the
//! unified log of each step of a history, keeps the shadow in lock-step, and judges the step with the oracles of ONE
//! property. Nothing here reads pie's store except the C08 comparison (and state identification elsewhere).

use crate::dump::{DEdgeKind, DNodeKind};
use crate::m1::{self, dedup_per_target, Class, Dep, Target};
use crate::prog::*;
use crate::runner::{panic_kind, Event, Outcome, PanicKind, Step};
use crate::tracker::TrkEv;
use crate::world::Ev;

#[derive(Clone, Copy, PartialEq, Eq, Hash, PartialOrd, Ord, Debug)]
pub enum Prop { C01, C02, C03, C04, C05, C06, C07, C08, C09, C15, C16, C17, C18, C19, C20 }

impl Prop {
  pub fn from_str(s: &str) -> Option<Prop> {
    Some(match s {
      "C01" => Prop::C01, "C02" => Prop::C02, "C03" => Prop::C03, "C04" => Prop::C04, "C05" => Prop::C05,
      "C06" => Prop::C06, "C07" => Prop::C07, "C08" => Prop::C08, "C09" => Prop::C09, "C15" => Prop::C15,
      "C16" => Prop::C16, "C17" => Prop::C17, "C18" => Prop::C18, "C19" => Prop::C19, "C20" => Prop::C20,
      _ => return None,
    })
  }
  pub fn name(&self) -> &'static str {
    match self {
      Prop::C01 => "C01", Prop::C02 => "C02", Prop::C03 => "C03", Prop::C04 => "C04", Prop::C05 => "C05",
      Prop::C06 => "C06", Prop::C07 => "C07", Prop::C08 => "C08", Prop::C09 => "C09", Prop::C15 => "C15",
      Prop::C16 => "C16", Prop::C17 => "C17", Prop::C18 => "C18", Prop::C19 => "C19", Prop::C20 => "C20",
    }
  }
}

/// A finding of the analyzer for the judged step.
#[derive(Clone, Debug, PartialEq, Eq)]
pub struct Finding {
  pub oracle: String,
  /// known-finding signature, or empty
  pub key: String,
  pub what: String,
}

/// Shadow record of one task (M2).
#[derive(Clone, Debug, Default, PartialEq, Eq)]
pub struct Shadow {
  pub known: bool,
  /// raw dependency list of the last execution that was started, in creation order
  pub deps: Vec<Dep>,
  /// require in flight (a reserved edge in pie); stays set when the execution was aborted
  pub pending: Option<Tid>,
  /// output of the last execution, if it completed and was not reset since
  pub output: Option<u8>,
  pub completed_ever: bool,
}

impl Shadow {
  pub fn edges(&self) -> Vec<Dep> { dedup_per_target(&self.deps) }
}

#[derive(Clone, Debug)]
enum Frame {
  /// validation of a task in progress (top-down)
  Validate { task: Tid, deps: Vec<Dep>, next: usize, inconsistent: bool, had_output: bool },
  /// the task is executing
  Exec { task: Tid },
  /// the task's make-consistent has finished its execution
  Done { task: Tid },
  /// already consistent in this session: nothing may happen
  Reuse { task: Tid },
}

#[derive(Clone, Copy, Debug, PartialEq, Eq)]
enum SchedCtx { None, Res(Rid), Task(Tid) }

#[derive(Clone, Debug)]
struct LastCheck { task: Tid, inconsistent: bool, recorded: bool }

#[derive(Clone, Debug)]
struct Obligation {
  /// acceptable diagnosed panic kinds
  kinds: Vec<PanicKind>,
  /// resource that must not be modified before the abort
  no_modify: Option<Rid>,
  what: String,
  /// which property owns the obligation
  hidden: bool,
  overlap: bool,
  cycle: bool,
}

/// Per-history analysis state.
pub struct Analyzer<'a> {
  pub prog: &'a Prog,
  pub class: Class,
  pub prop: Prop,
  pub sh: Vec<Shadow>,
  /// resources changed since all known tasks were last consistent (bitmask)
  pub dirty: u8,
  /// a top-down build or an abort happened while not all known tasks were consistent
  pub mixed: bool,
  /// some build of the history aborted
  pub post_abort: bool,
  pub n_steps: usize,
  /// M2 state at the start of the last bottom-up build (after the session's leading top-down requires)
  pub bu_snapshot: Option<(Vec<Shadow>, [Cell; MAX_RES], [bool; MAX_RES])>,
}

struct Session<'s> {
  cells: [Cell; MAX_RES],
  fail: [bool; MAX_RES],
  initial_cells: [Cell; MAX_RES],
  validated: u32,
  executed: u32,
  enter_count: Vec<u32>,
  exec_stack: Vec<Tid>,
  frames: Vec<Frame>,
  in_bu: bool,
  bu_seen: bool,
  queue: u32,
  sched_ctx: SchedCtx,
  /// the schedule-by-resource in progress was asked for by the explorer (a reported resource), not by an execution
  top_level_sched: bool,
  last_check: Option<LastCheck>,
  obligation: Option<Obligation>,
  /// the context call in progress: (kind, task, target)
  call: Vec<CallRec>,
  findings: Vec<Finding>,
  m1_cache: Vec<Option<Vec<Dep>>>,
  rc_errors: usize,
  /// C09: stamp bookkeeping of the call in progress
  win: Vec<Window>,
  step: &'s Step,
}

#[derive(Clone, Debug)]
enum CallRec { Read(Tid, Rid), Write(Tid, Rid, bool), Req(Tid, Tid) }

#[derive(Clone, Debug, Default)]
struct Window {
  res_read: Vec<(u32, Cell)>,
  stamp_reader: Vec<(RC, u32, bool, RStamp)>,
  stamp_path: Vec<(RC, RStamp)>,
  res_write: Vec<u32>,
  stores: Vec<(u32, u8)>,
  stamp_writer: Vec<(RC, u32, RStamp, usize)>,
  consumes: Vec<u32>,
  oc_stamps: Vec<(OC, u8, OStamp)>,
  n_stores_at_stamp: usize,
  ticks_in_write: usize,
}

fn bit(t: Tid) -> u32 { 1u32 << t }

impl<'a> Analyzer<'a> {
  pub fn new(prog: &'a Prog, class: Class, prop: Prop) -> Self {
    Analyzer {
      prog, class, prop,
      sh: vec![Shadow::default(); prog.n_tasks()],
      dirty: 0, mixed: false, post_abort: false, n_steps: 0, bu_snapshot: None,
    }
  }

  pub fn known_tasks(&self) -> Vec<Tid> {
    (0..self.sh.len()).filter(|t| self.sh[*t].known).map(|t| t as Tid).collect()
  }

  /// Shadow require edges of `t` (recorded requires plus a pending one).
  fn req_targets(&self, t: Tid) -> u32 {
    let mut m = 0;
    for d in &self.sh[t as usize].deps { if let Dep::Req(u, _, _) = d { m |= bit(*u); } }
    if let Some(u) = self.sh[t as usize].pending { m |= bit(u); }
    m
  }

  /// Tasks reachable from `from` through ≥ 1 shadow require edge.
  pub fn reach(&self, from: Tid) -> u32 {
    let mut seen = 0u32;
    let mut stack = vec![from];
    while let Some(t) = stack.pop() {
      let mut m = self.req_targets(t) & !seen;
      seen |= m;
      while m != 0 {
        let b = m.trailing_zeros() as Tid;
        m &= m - 1;
        stack.push(b);
      }
    }
    seen
  }

  /// Like `reach`, but ignoring the recorded require edges of the tasks in `excluded` (bitmask).
  fn reach_excluding(&self, from: Tid, excluded: u32) -> u32 {
    let mut seen = 0u32;
    let mut stack = vec![from];
    while let Some(t) = stack.pop() {
      if excluded & bit(t) != 0 { continue; }
      let mut m = self.req_targets(t) & !seen;
      seen |= m;
      while m != 0 {
        let b = m.trailing_zeros() as Tid;
        m &= m - 1;
        stack.push(b);
      }
    }
    seen
  }

  /// Is dependency `d` accepted by its own checker now? `None` = the checker errs.
  fn dep_accepted(&self, d: &Dep, cells: &[Cell; MAX_RES], fail: &[bool; MAX_RES]) -> Option<bool> {
    match d {
      Dep::Req(u, oc, stamp) => match self.sh[*u as usize].output {
        Some(out) => Some(oc.consistent(out, *stamp)),
        None => Some(false),
      },
      Dep::Read(r, rc, stamp) | Dep::Write(r, rc, stamp) => {
        if *rc == RC::Faulty && fail[*r as usize] { return None; }
        Some(rc.stamp_of(cells[*r as usize]) == *stamp)
      }
    }
  }

  /// M2: every known task has a completed output and every recorded dependency is accepted now.
  pub fn all_consistent(&self, cells: &[Cell; MAX_RES], fail: &[bool; MAX_RES]) -> bool {
    for s in &self.sh {
      if !s.known { continue; }
      if s.output.is_none() { return false; }
      for d in s.edges() {
        if self.dep_accepted(&d, cells, fail) != Some(true) { return false; }
      }
    }
    true
  }

  /// Key predicate of finding F1 (`C03/stale-before-bottom-up`): at the start of the last bottom-up build, task `x`
  /// (itself or through its recorded requires) already had a dependency that its checker rejects and that is NOT a
  /// dependency on a reported resource: a require stamp that disagrees with the callee's cached output, a read or
  /// write stamp on an unreported resource, or no completed output at all (aborted execution). Only an earlier
  /// top-down (or aborted) build can produce this; the bottom-up build looks at reported resources only.
  pub fn stale_before_bottom_up(&self, x: Tid, reported: u8) -> bool {
    let Some((sh, cells, fail)) = &self.bu_snapshot else { return false; };
    let mut seen: u32 = 1 << x;
    let mut stack = vec![x];
    while let Some(t) = stack.pop() {
      let s = &sh[t as usize];
      if s.known && s.output.is_none() { return true; }
      for d in dedup_per_target(&s.deps) {
        match d {
          Dep::Req(u, oc, stamp) => {
            match sh[u as usize].output {
              Some(out) => { if !oc.consistent(out, stamp) { return true; } }
              None => return true,
            }
            if seen & (1 << u) == 0 { seen |= 1 << u; stack.push(u); }
          }
          Dep::Read(r, rc, stamp) | Dep::Write(r, rc, stamp) => {
            if reported & (1 << r) != 0 { continue; }
            if rc == RC::Faulty && fail[r as usize] { return true; }
            if rc.stamp_of(cells[r as usize]) != stamp { return true; }
          }
        }
      }
    }
    false
  }

  /// Bytes of the scope bookkeeping that decides which events are in scope (part of the state identity).
  pub fn scope_bytes(&self, out: &mut Vec<u8>) {
    out.push(b'#');
    out.push(self.dirty);
    out.push(self.mixed as u8);
    out.push(self.post_abort as u8);
  }

  /// Processes one step. Findings are returned only when `judge` is set (the step is the last of the path).
  pub fn step(&mut self, st: &Step, judge: bool) -> Vec<Finding> {
    self.n_steps += 1;
    match &st.pev.ev {
      Event::Set(r, _) => {
        self.dirty |= 1 << *r;
        self.after_step(st);
        return Vec::new();
      }
      Event::SetFail(_, _) => {
        self.after_step(st);
        return Vec::new();
      }
      _ => {}
    }
    let n = self.prog.n_tasks();
    let mut s = Session {
      cells: st.pre_cells, fail: st.pre_fail, initial_cells: st.pre_cells,
      validated: 0, executed: 0, enter_count: vec![0; n], exec_stack: Vec::new(), frames: Vec::new(),
      in_bu: false, bu_seen: false, queue: 0, sched_ctx: SchedCtx::None, top_level_sched: false, last_check: None, obligation: None,
      call: Vec::new(), findings: Vec::new(), m1_cache: vec![None; n], rc_errors: 0, win: Vec::new(), step: st,
    };
    let pre_dirty = self.dirty;
    let pre_mixed = self.mixed;
    let pre_post_abort = self.post_abort;
    let pre_sh = self.sh.clone();
    for (i, ev) in st.log.iter().enumerate() {
      self.on_event(&mut s, i, ev);
    }
    self.end_of_step(&mut s, st, pre_dirty, pre_mixed, pre_post_abort, &pre_sh);
    let findings = std::mem::take(&mut s.findings);
    drop(s);
    self.after_step(st);
    if judge { findings } else { Vec::new() }
  }

  fn after_step(&mut self, st: &Step) {
    if let Outcome::Panicked(_) | Outcome::Partial(_, _) = st.outcome {
      self.post_abort = true;
      self.mixed = true;
    }
    if let Event::TopDown(_) | Event::TopDownKeep(_) = st.pev.ev {
      if self.dirty != 0 { self.mixed = true; }
    }
    if self.all_consistent(&st.post_cells, &st.post_fail) {
      self.dirty = 0;
      self.mixed = false;
    }
  }

  fn add(&self, s: &mut Session, props: &[Prop], oracle: &str, key: &str, what: String) {
    if props.contains(&self.prop) {
      s.findings.push(Finding { oracle: format!("{}/{}", self.prop.name(), oracle), key: key.to_string(), what });
    }
  }

  fn m1_deps(&self, s: &mut Session, t: Tid) -> Vec<Dep> {
    if s.m1_cache[t as usize].is_none() {
      let r = m1::build(self.prog, &s.initial_cells, &[t]);
      s.m1_cache[t as usize] = Some(r.deps[t as usize].clone().unwrap_or_default());
    }
    s.m1_cache[t as usize].clone().unwrap()
  }

  /// Is recorded dependency `d` of task `x` current in this session (DESIGN §4)?
  fn is_current(&self, s: &mut Session, x: Tid, d: &Dep) -> bool {
    if (s.validated | s.executed) & bit(x) != 0 { return true; }
    if s.exec_stack.contains(&x) { return true; }
    if self.sh[x as usize].output.is_none() { return false; } // aborted / never completed: will be reset
    let m = self.m1_deps(s, x);
    m.iter().any(|e| e.target() == d.target() && std::mem::discriminant(e) == std::mem::discriminant(d))
  }

  fn writers_of(&self, r: Rid) -> Vec<Tid> {
    (0..self.sh.len()).filter(|t| self.sh[*t].deps.iter().any(|d| matches!(d, Dep::Write(rr, _, _) if *rr == r))).map(|t| t as Tid).collect()
  }
  fn readers_of(&self, r: Rid) -> Vec<Tid> {
    (0..self.sh.len()).filter(|t| self.sh[*t].deps.iter().any(|d| matches!(d, Dep::Read(rr, _, _) if *rr == r))).map(|t| t as Tid).collect()
  }

  fn stmt_op(&self, t: Tid, stmt: usize) -> Op { self.prog.bodies[t as usize][stmt].op }

  // ------------------------------------------------------------------------------------------ event dispatch

  fn on_event(&mut self, s: &mut Session, _i: usize, ev: &Ev) {
    // An inconsistent bottom-up check must be followed at once by the scheduling of its task.
    if let Some(lc) = &s.last_check {
      let is_sched = matches!(ev, Ev::T(TrkEv::ScheduleTask(t)) if *t == lc.task);
      if lc.inconsistent && !is_sched {
        let lc = lc.clone();
        self.add(s, &[Prop::C03, Prop::C09, Prop::C18], "inconsistent-not-scheduled", "",
          format!("bottom-up check of a dependency of T{} was inconsistent (or erred) but the task was not scheduled", lc.task));
      }
      if !is_sched { s.last_check = None; }
    }
    match ev {
      Ev::T(t) => self.on_tracker(s, t),
      Ev::RootReq(t) => { self.sh[*t as usize].known = true; }
      Ev::RootRet(..) => {}
      Ev::RootAbort(t, msg, file, line) => {
        // a require of a kept session aborted (the panic was caught around this one require)
        let p = crate::runner::PanicInfo { msg: msg.clone(), file: file.clone(), line: *line };
        let roots: Vec<Tid> = match &s.step.pev.ev { Event::TopDownKeep(r) => r.clone(), _ => vec![*t] };
        let was_post_abort = self.post_abort;
        let st = s.step;
        self.handle_abort(s, st, &p, &roots, was_post_abort);
        // the build is over; the session (its `consistent` set) lives on
        s.exec_stack.clear(); s.frames.clear(); s.call.clear(); s.win.clear(); s.obligation = None; s.in_bu = false;
        s.last_check = None; s.sched_ctx = SchedCtx::None;
        self.post_abort = true;
        self.mixed = true;
      }
      Ev::BottomUpStart => {
        s.in_bu = true;
        if !s.bu_seen { self.bu_snapshot = Some((self.sh.clone(), s.cells, s.fail)); }
        s.bu_seen = true;
        s.queue = 0;
        // C04 counts executions per bottom-up build
        for c in s.enter_count.iter_mut() { *c = 0; }
      }
      Ev::BottomUpSchedule(_) => { s.top_level_sched = true; }
      Ev::BottomUpUpdate => {}
      Ev::BottomUpDone => { s.in_bu = false; }
      Ev::Enter(t) => {
        let t = *t;
        if s.exec_stack.contains(&t) {
          self.add(s, &[Prop::C07], "entered-while-executing", "", format!("T{} was entered while it was still executing", t));
        }
        s.enter_count[t as usize] += 1;
        if s.enter_count[t as usize] > 1 {
          // Top-down sessions: C02 (and C07). Bottom-up builds: C04, whose quantifier does not cover histories with
          // an aborted build (a task without output that is also scheduled is executed twice there: noted in DESIGN).
          let in_bu = s.in_bu || s.bu_seen;
          let props: &[Prop] = if !in_bu { &[Prop::C02, Prop::C07] } else if !self.post_abort { &[Prop::C04] } else { &[] };
          self.add(s, props, "executed-twice", "",
            format!("T{} was executed {} times in one session (bottom-up phase: {})", t, s.enter_count[t as usize], in_bu));
        }
        let sh = &mut self.sh[t as usize];
        sh.known = true;
        sh.deps.clear();
        sh.pending = None;
        sh.output = None;
        s.exec_stack.push(t);
        s.executed |= bit(t);
      }
      Ev::Exit(t, out) => {
        let sh = &mut self.sh[*t as usize];
        sh.output = Some(*out);
        sh.completed_ever = true;
        sh.pending = None;
        s.exec_stack.pop();
      }
      Ev::CallReq(c, stmt, callee, oc) => self.on_call_req(s, *c, *stmt, *callee, *oc),
      Ev::RetReq(c, stmt, callee, out) => self.on_ret_req(s, *c, *stmt, *callee, *out),
      Ev::CallRead(c, stmt, r, rc) => self.on_call_read(s, *c, *stmt, *r, *rc),
      Ev::RetRead(c, stmt, r, serial, cell) => self.on_ret_read(s, *c, *stmt, *r, *serial, *cell),
      Ev::CallWrite(c, stmt, r, rc, decl) => self.on_call_write(s, *c, *stmt, *r, *rc, *decl),
      Ev::RetWrite(c, stmt, r) => self.on_ret_write(s, *c, *stmt, *r),
      Ev::RetWriteErr(c, _stmt, r) => {
        s.call.pop();
        s.win.pop();
        if let Some(ob) = s.obligation.take() {
          let mut props = Vec::new();
          if ob.hidden { props.push(Prop::C05); }
          if ob.overlap { props.push(Prop::C06); }
          self.add(s, &props, "conflicting-write-returned", "", format!("{}; the declaration of the write of r{} by T{} returned an error instead of aborting the build", ob.what, r, c));
        }
      }
      Ev::Tick(..) => { if let Some(w) = s.win.last_mut() { w.ticks_in_write += 1; } }
      Ev::ResRead(r, serial, cell) => {
        let _ = r;
        if let Some(w) = s.win.last_mut() { w.res_read.push((*serial, *cell)); }
      }
      Ev::ResWrite(r, serial) => {
        self.check_no_modify(s, *r, "a writer was created");
        if let Some(w) = s.win.last_mut() { w.res_write.push(*serial); }
      }
      Ev::Store(r, serial, v) => {
        self.check_no_modify(s, *r, "the resource was stored to");
        s.cells[*r as usize] = Some(*v);
        if let Some(w) = s.win.last_mut() { w.stores.push((*serial, *v)); }
      }
      Ev::Consume(_, serial) => { if let Some(w) = s.win.last_mut() { w.consumes.push(*serial); } }
      Ev::RcStamp(rc, _, st) => { if let Some(w) = s.win.last_mut() { w.stamp_path.push((*rc, *st)); } }
      Ev::RcStampReader(rc, _, serial, consumed, st) => { if let Some(w) = s.win.last_mut() { w.stamp_reader.push((*rc, *serial, *consumed, *st)); } }
      Ev::RcStampWriter(rc, _, serial, st) => {
        if let Some(w) = s.win.last_mut() { let n = w.stores.len(); w.stamp_writer.push((*rc, *serial, *st, n)); }
      }
      Ev::RcCheck(_, _, _, res) => { if res.is_err() { s.rc_errors += 1; } }
      Ev::OcStamp(oc, out, st) => { if let Some(w) = s.win.last_mut() { w.oc_stamps.push((*oc, *out, *st)); } }
      Ev::OcCheck(..) => {}
    }
  }

  fn check_no_modify(&mut self, s: &mut Session, r: Rid, how: &str) {
    if let Some(ob) = &s.obligation {
      if ob.no_modify == Some(r) {
        let (hidden, overlap, what) = (ob.hidden, ob.overlap, ob.what.clone());
        let mut props = Vec::new();
        if hidden { props.push(Prop::C05); }
        if overlap { props.push(Prop::C06); }
        self.add(s, &props, "modified-before-abort", "", format!("{}: r{} was touched ({}) although the write had to be rejected first", what, r, how));
      }
    }
  }

  // ------------------------------------------------------------------------------------------ rule monitor

  fn on_call_req(&mut self, s: &mut Session, c: Tid, _stmt: usize, callee: Tid, _oc: OC) {
    s.call.push(CallRec::Req(c, callee));
    s.win.push(Window::default());
    self.sh[callee as usize].known = true;
    self.sh[c as usize].pending = Some(callee);
    if s.exec_stack.contains(&callee) {
      s.obligation = Some(Obligation {
        kinds: vec![PanicKind::Cycle], no_modify: None, hidden: false, overlap: false, cycle: true,
        what: format!("T{} requires T{} which is still executing (stack {:?})", c, callee, s.exec_stack),
      });
    }
  }

  fn on_ret_req(&mut self, s: &mut Session, c: Tid, stmt: usize, callee: Tid, out: u8) {
    s.call.pop();
    let win = s.win.pop().unwrap_or_default();
    if let Some(ob) = s.obligation.take() {
      if ob.cycle {
        self.add(s, &[Prop::C07], "cyclic-require-returned", "", format!("{}; the require returned {}", ob.what, out));
      }
    }
    let Op::Req(_, oc) = self.stmt_op(c, stmt) else { return; };
    // C09: the stamp of the require is taken from the output returned to the requirer.
    if matches!(oc, OC::Equals | OC::IsZero | OC::Always | OC::Near | OC::UnitPred) {
      match win.oc_stamps.last() {
        Some((soc, sout, sst)) if *soc == oc && *sout == out && *sst == oc.stamp_of(out) => {}
        other => {
          self.add(s, &[Prop::C09], "require-stamp", "",
            format!("T{} required T{} and received {}, but the checker's last stamp call in that window was {:?}", c, callee, out, other));
        }
      }
    }
    let sh = &mut self.sh[c as usize];
    sh.pending = None;
    sh.deps.push(Dep::Req(callee, oc, oc.stamp_of(out)));
    s.validated |= bit(callee);
  }

  fn on_call_read(&mut self, s: &mut Session, c: Tid, _stmt: usize, r: Rid, _rc: RC) {
    s.call.push(CallRec::Read(c, r));
    s.win.push(Window::default());
    // Hidden dependency obligation: a current writer W != c that c does not (transitively) require.
    let reach = self.reach(c);
    let mut culprit = None;
    for w in self.writers_of(r) {
      if w == c || reach & bit(w) != 0 { continue; }
      let d = Dep::Write(r, RC::Exact, RStamp::Unit);
      if self.is_current(s, w, &d) { culprit = Some(w); break; }
    }
    if let Some(w) = culprit {
      s.obligation = Some(Obligation {
        kinds: vec![PanicKind::Hidden], no_modify: None, hidden: true, overlap: false, cycle: false,
        what: format!("T{} reads r{} whose current writer T{} it does not transitively require", c, r, w),
      });
    }
  }

  fn on_ret_read(&mut self, s: &mut Session, c: Tid, stmt: usize, r: Rid, serial: u32, cell: Cell) {
    s.call.pop();
    let win = s.win.pop().unwrap_or_default();
    if let Some(ob) = s.obligation.take() {
      if ob.hidden {
        self.add(s, &[Prop::C05], "hidden-read-returned", "", format!("{}; the read returned", ob.what));
      }
    }
    let Op::Read(_, rc) = self.stmt_op(c, stmt) else { return; };
    // C09: read route: Resource::read -> stamp_reader on that very reader (unconsumed) -> the task gets that reader.
    let ok = win.res_read.len() == 1
      && win.res_read[0] == (serial, cell)
      && win.stamp_reader.len() == 1
      && win.stamp_reader[0] == (rc, serial, false, rc.stamp_of(cell))
      && win.stamp_path.is_empty()
      && win.consumes == vec![serial];
    if !ok {
      self.add(s, &[Prop::C09], "read-stamp-route", "",
        format!("T{} read r{} with {:?}: expected one reader, stamped unconsumed through stamp_reader with {:?} and then handed to the task; saw readers {:?}, stamp_reader calls {:?}, path stamps {:?}, consumed {:?}, handed serial {}",
          c, r, rc, rc.stamp_of(cell), win.res_read, win.stamp_reader, win.stamp_path, win.consumes, serial));
    }
    self.sh[c as usize].deps.push(Dep::Read(r, rc, rc.stamp_of(cell)));
  }

  fn on_call_write(&mut self, s: &mut Session, c: Tid, _stmt: usize, r: Rid, _rc: RC, declared: bool) {
    s.call.push(CallRec::Write(c, r, declared));
    s.win.push(Window::default());
    let mut kinds = Vec::new();
    let mut what = Vec::new();
    let mut overlap = false;
    let mut hidden = false;
    for w in self.writers_of(r) {
      if w == c { continue; }
      let d = Dep::Write(r, RC::Exact, RStamp::Unit);
      if self.is_current(s, w, &d) {
        overlap = true;
        what.push(format!("T{} writes r{} whose current writer is T{}", c, r, w));
        break;
      }
    }
    for x in self.readers_of(r) {
      if x == c { continue; }
      if self.reach(x) & bit(c) != 0 { continue; }
      let d = Dep::Read(r, RC::Exact, RStamp::Unit);
      if self.is_current(s, x, &d) {
        hidden = true;
        what.push(format!("T{} writes r{} which current reader T{} reads without transitively requiring T{}", c, r, x, c));
        break;
      }
    }
    if overlap { kinds.push(PanicKind::Overlap); }
    if hidden { kinds.push(PanicKind::Hidden); }
    if overlap || hidden {
      // With both present either diagnosis is acceptable.
      s.obligation = Some(Obligation {
        kinds, no_modify: if declared { None } else { Some(r) }, hidden, overlap, cycle: false, what: what.join("; "),
      });
    }
  }

  fn on_ret_write(&mut self, s: &mut Session, c: Tid, stmt: usize, r: Rid) {
    s.call.pop();
    let win = s.win.pop().unwrap_or_default();
    if let Some(ob) = s.obligation.take() {
      let mut props = Vec::new();
      if ob.hidden { props.push(Prop::C05); }
      if ob.overlap { props.push(Prop::C06); }
      self.add(s, &props, "conflicting-write-returned", "", format!("{}; the write returned", ob.what));
    }
    let (rc, declared) = match self.stmt_op(c, stmt) {
      Op::Write(_, _, rc) => (rc, false),
      Op::WriteDecl(_, _, rc) => (rc, true),
      _ => return,
    };
    let now = s.cells[r as usize];
    // C09: write route.
    if !declared {
      let ok = win.res_write.len() == 1
        && win.stores.len() == 1 && win.stores[0].0 == win.res_write[0]
        && win.stamp_writer.len() == 1
        && win.stamp_writer[0].0 == rc && win.stamp_writer[0].1 == win.res_write[0]
        && win.stamp_writer[0].2 == rc.stamp_of(now)
        && win.stamp_writer[0].3 == 1
        && win.stamp_path.is_empty();
      if !ok {
        self.add(s, &[Prop::C09], "write-stamp-route", "",
          format!("T{} wrote r{} with {:?}: expected stamp_writer on the writer used by the write function, after it finished, with {:?}; saw writers {:?}, stores {:?}, stamp_writer calls {:?}, path stamps {:?}",
            c, r, rc, rc.stamp_of(now), win.res_write, win.stores, win.stamp_writer, win.stamp_path));
      }
    } else {
      let ok = win.stamp_path.len() == 1 && win.stamp_path[0] == (rc, rc.stamp_of(now)) && win.stamp_writer.is_empty() && win.stores.len() == 1;
      if !ok {
        self.add(s, &[Prop::C09], "declared-write-stamp-route", "",
          format!("T{} declared its write of r{} with {:?}: expected one path stamp {:?} at the declaration; saw stores {:?}, path stamps {:?}, stamp_writer calls {:?}",
            c, r, rc, rc.stamp_of(now), win.stores, win.stamp_path, win.stamp_writer));
      }
    }
    self.sh[c as usize].deps.push(Dep::Write(r, rc, rc.stamp_of(now)));
  }

  // ------------------------------------------------------------------------------------------ tracker monitors

  fn model_res_verdict(&self, s: &Session, r: Rid, rc: RC, stamp: RStamp) -> Option<bool> {
    if rc == RC::Faulty && s.fail[r as usize] { return None; }
    Some(rc.stamp_of(s.cells[r as usize]) == stamp)
  }

  fn begin_consistent(&mut self, s: &mut Session, t: Tid) {
    self.sh[t as usize].known = true;
    if s.validated & bit(t) != 0 {
      s.frames.push(Frame::Reuse { task: t });
    } else {
      let sh = &self.sh[t as usize];
      s.frames.push(Frame::Validate { task: t, deps: sh.edges(), next: 0, inconsistent: false, had_output: sh.output.is_some() });
    }
  }

  /// Ends the make-consistent of `t` (at RequireEnd / CheckTaskEnd).
  fn end_consistent(&mut self, s: &mut Session, t: Tid) {
    match s.frames.pop() {
      Some(Frame::Validate { task, deps, next, inconsistent, had_output }) if task == t => {
        // The task was reused without being executed.
        if !had_output {
          self.add(s, &[Prop::C09, Prop::C19], "reused-without-output", "", format!("T{} has no completed output but was not executed", t));
        } else if inconsistent {
          self.add(s, &[Prop::C09, Prop::C18], "reused-although-inconsistent", "",
            format!("T{} was reused although a dependency of its last execution was reported inconsistent (or erred)", t));
        } else if next != deps.len() {
          self.add(s, &[Prop::C09], "reused-without-full-validation", "",
            format!("T{} was reused after only {} of its {} recorded dependencies were validated", t, next, deps.len()));
        }
      }
      Some(Frame::Done { task }) if task == t => {}
      Some(Frame::Reuse { task }) if task == t => {}
      other => {
        self.add(s, &[], "nesting", "", format!("end of require/check of T{} does not match the open operation {:?}", t, other));
      }
    }
    s.validated |= bit(t);
  }

  fn on_tracker(&mut self, s: &mut Session, t: &TrkEv) {
    if s.in_bu { self.on_tracker_bottom_up(s, t); } else { self.on_tracker_top_down(s, t); }
  }

  fn on_tracker_top_down(&mut self, s: &mut Session, t: &TrkEv) {
    match t {
      TrkEv::RequireStart(task, _) => self.begin_consistent(s, *task),
      TrkEv::RequireEnd(task, ..) => self.end_consistent(s, *task),
      TrkEv::CheckTaskStart(u, oc, stamp) => {
        self.expect_next_dep(s, Target::Task(*u), format!("Req(T{},{:?},{:?})", u, oc, stamp), |d| matches!(d, Dep::Req(uu, o, st) if uu == u && o == oc && st == stamp), |d| matches!(d, Dep::Req(uu, o, _) if uu == u && o == oc));
        self.begin_consistent(s, *u);
      }
      TrkEv::CheckTaskEnd(u, oc, stamp, inc) => {
        self.end_consistent(s, *u);
        let model = match self.sh[*u as usize].output { Some(out) => oc.consistent(out, *stamp), None => false };
        let observed = inc.is_none();
        if model != observed {
          self.add(s, &[Prop::C09], "require-verdict", "",
            format!("check of require T{} with {:?} against stamp {:?}: callee output {:?}, checker relation says consistent={}, pie reported consistent={}", u, oc, stamp, self.sh[*u as usize].output, model, observed));
        }
        self.advance_frame(s, !observed);
      }
      TrkEv::CheckResStart(r, rc, stamp) => {
        self.expect_next_dep(s, Target::Res(*r), format!("Read|Write(r{},{:?},{:?})", r, rc, stamp),
          |d| matches!(d, Dep::Read(rr, c, st) | Dep::Write(rr, c, st) if rr == r && c == rc && st == stamp),
          |d| matches!(d, Dep::Read(rr, c, _) | Dep::Write(rr, c, _) if rr == r && c == rc));
      }
      TrkEv::CheckResEnd(r, rc, stamp, res) => {
        let model = self.model_res_verdict(s, *r, *rc, *stamp);
        let observed = match res { Ok(None) => Some(true), Ok(Some(_)) => Some(false), Err(_) => None };
        if model != observed {
          self.add(s, &[Prop::C09, Prop::C18], "resource-verdict", "",
            format!("check of r{} with {:?} against stamp {:?}: model verdict {:?}, reported {:?} (None = error)", r, rc, stamp, model, observed));
        }
        self.advance_frame(s, observed != Some(true));
      }
      TrkEv::ExecStart(task) => {
        let task = *task;
        match s.frames.pop() {
          Some(Frame::Validate { task: ft, deps: _, next: _, inconsistent, had_output }) if ft == task => {
            if had_output && !inconsistent {
              self.add(s, &[Prop::C02, Prop::C09], "unjustified-execution", "",
                format!("T{} was executed top-down although it had completed before and no dependency of its last execution was reported inconsistent", task));
            }
          }
          other => {
            self.add(s, &[], "nesting", "", format!("execution of T{} starts outside its require/check: open operation {:?}", task, other));
          }
        }
        s.frames.push(Frame::Exec { task });
      }
      TrkEv::ExecEnd(task, _) => {
        match s.frames.pop() {
          Some(Frame::Exec { task: ft }) if ft == *task => {}
          other => { self.add(s, &[], "nesting", "", format!("execution end of T{} does not match {:?}", task, other)); }
        }
        s.frames.push(Frame::Done { task: *task });
      }
      _ => {}
    }
  }

  /// The check that starts now must be the next recorded dependency of the task being validated.
  fn expect_next_dep(&mut self, s: &mut Session, target: Target, shown: String, pred: impl Fn(&Dep) -> bool, same_edge: impl Fn(&Dep) -> bool) {
    let (task, expected, had_output) = match s.frames.last() {
      Some(Frame::Validate { task, deps, next, had_output, .. }) => (*task, deps.get(*next).copied(), *had_output),
      other => {
        let other = format!("{:?}", other);
        self.add(s, &[], "nesting", "", format!("dependency check {} outside a validation: {}", shown, other));
        return;
      }
    };
    if !had_output { return; } // leftovers of an aborted execution: order not judged (C19 judges the outcome)
    let ok = expected.map(|d| pred(&d)).unwrap_or(false);
    if !ok && expected.map(|d| same_edge(&d)).unwrap_or(false) {
      // the right dependency in the right place, but checked against a stamp that is not the one taken when the
      // dependency was created
      self.add(s, &[Prop::C09, Prop::C08], "stamp-not-from-creation", "",
        format!("validation of T{}: pie checks {} but the stamp taken when that dependency was created is {:?}", task, shown, expected));
    }
    if !ok {
      let _ = target;
      self.add(s, &[Prop::C02], "validation-order", "",
        format!("validation of T{}: pie checks {} but the next dependency in creation order of its last execution is {:?} (recorded list {:?})",
          task, shown, expected, self.sh[task as usize].edges()));
    }
  }

  fn advance_frame(&mut self, s: &mut Session, inconsistent_now: bool) {
    if let Some(Frame::Validate { next, inconsistent, .. }) = s.frames.last_mut() {
      *next += 1;
      if inconsistent_now { *inconsistent = true; }
    }
  }

  fn on_tracker_bottom_up(&mut self, s: &mut Session, t: &TrkEv) {
    match t {
      TrkEv::SchedByResStart(r) => s.sched_ctx = SchedCtx::Res(*r),
      TrkEv::SchedByResEnd(r) => {
        // Completeness: every task whose recorded dependency on this resource is rejected by its checker now must be
        // scheduled (reported resource: read and write dependencies; resource written by an executed task: readers).
        let top = s.top_level_sched;
        s.top_level_sched = false;
        s.sched_ctx = SchedCtx::None;
        if !self.post_abort {
          for x in 0..self.sh.len() as Tid {
            if s.exec_stack.contains(&x) || s.queue & bit(x) != 0 || self.sh[x as usize].output.is_none() { continue; }
            for d in self.sh[x as usize].edges() {
              let relevant = match d { Dep::Read(rr, ..) => rr == *r, Dep::Write(rr, ..) => rr == *r && top, _ => false };
              if relevant && self.dep_accepted(&d, &s.cells, &s.fail) != Some(true) {
                self.add(s, &[Prop::C03, Prop::C08, Prop::C09, Prop::C18], "declared-dependency-did-not-schedule", "",
                  format!("r{} was {} and T{}'s recorded dependency {:?} is rejected by its checker now, but T{} was not scheduled", r, if top { "reported" } else { "written by an executed task" }, x, d, x));
              }
            }
          }
        }
      }
      TrkEv::SchedByTaskEnd(u) => {
        s.sched_ctx = SchedCtx::None;
        if !self.post_abort {
          let out = self.sh[*u as usize].output;
          for x in 0..self.sh.len() as Tid {
            if s.exec_stack.contains(&x) || s.queue & bit(x) != 0 || self.sh[x as usize].output.is_none() { continue; }
            for d in self.sh[x as usize].edges() {
              if let Dep::Req(uu, oc, stamp) = d {
                if uu == *u && !out.map(|o| oc.consistent(o, stamp)).unwrap_or(false) {
                  self.add(s, &[Prop::C03, Prop::C08, Prop::C09], "declared-dependency-did-not-schedule", "",
                    format!("T{} was executed with output {:?}; T{}'s recorded require {:?} is rejected by its checker now, but T{} was not scheduled", u, out, x, d, x));
                }
              }
            }
          }
        }
      }
      TrkEv::SchedByTaskStart(u) => s.sched_ctx = SchedCtx::Task(*u),
      TrkEv::CheckReadResEnd(x, rc, stamp, res) => {
        let SchedCtx::Res(r) = s.sched_ctx else {
          self.add(s, &[], "nesting", "", format!("resource check of T{} outside schedule-by-resource", x));
          return;
        };
        let model = self.model_res_verdict(s, r, *rc, *stamp);
        let observed = match res { Ok(None) => Some(true), Ok(Some(_)) => Some(false), Err(_) => None };
        if model != observed {
          self.add(s, &[Prop::C09, Prop::C18], "resource-verdict", "",
            format!("bottom-up check of r{} for T{} with {:?} against {:?}: model verdict {:?}, reported {:?}", r, x, rc, stamp, model, observed));
        }
        let recorded = self.sh[*x as usize].edges().iter().any(|d| matches!(d, Dep::Read(rr, c, st) | Dep::Write(rr, c, st) if *rr == r && c == rc && st == stamp));
        s.last_check = Some(LastCheck { task: *x, inconsistent: observed != Some(true), recorded });
      }
      TrkEv::CheckReqTaskEnd(x, oc, stamp, inc) => {
        let SchedCtx::Task(u) = s.sched_ctx else {
          self.add(s, &[], "nesting", "", format!("require check of T{} outside schedule-by-task", x));
          return;
        };
        let model = match self.sh[u as usize].output { Some(out) => oc.consistent(out, *stamp), None => false };
        let observed = inc.is_none();
        if model != observed {
          self.add(s, &[Prop::C09], "require-verdict", "",
            format!("bottom-up check of T{}'s require of T{} with {:?} against {:?}: callee output {:?}, relation says consistent={}, reported consistent={}", x, u, oc, stamp, self.sh[u as usize].output, model, observed));
        }
        let recorded = self.sh[*x as usize].edges().iter().any(|d| matches!(d, Dep::Req(uu, o, st) if *uu == u && o == oc && st == stamp));
        s.last_check = Some(LastCheck { task: *x, inconsistent: !observed, recorded });
      }
      TrkEv::ScheduleTask(x) => {
        match s.last_check.take() {
          Some(lc) if lc.task == *x && lc.inconsistent && lc.recorded => {}
          Some(lc) if lc.task == *x && lc.inconsistent => {
            self.add(s, &[Prop::C04, Prop::C08], "scheduled-by-unrecorded-dependency", "",
              format!("T{} was scheduled because of a dependency that its last execution did not record (recorded: {:?})", x, self.sh[*x as usize].edges()));
          }
          other => {
            self.add(s, &[Prop::C04, Prop::C09], "unjustified-schedule", "",
              format!("T{} was scheduled without an immediately preceding inconsistent check of one of its dependencies ({:?})", x, other));
          }
        }
        s.queue |= bit(*x);
      }
      TrkEv::ExecStart(task) => {
        let task = *task;
        if s.queue & bit(task) != 0 {
          s.queue &= !bit(task);
        } else if self.sh[task as usize].output.is_some() {
          self.add(s, &[Prop::C04], "unjustified-execution", "",
            format!("T{} was executed in the bottom-up build although it was not scheduled and is not new", task));
        }
        // Order: no other scheduled task may be reachable from the task through its recorded requires.
        let reach = self.reach(task);
        let bad = reach & s.queue & !bit(task);
        if bad != 0 && !self.post_abort {
          self.add(s, &[Prop::C04], "order", "",
            format!("T{} was executed before scheduled task(s) {:#b} that it (transitively) requires", task, bad));
        }
        s.frames.push(Frame::Exec { task });
      }
      TrkEv::ExecEnd(task, _) => {
        if let Some(Frame::Exec { task: ft }) = s.frames.last() { if ft == task { s.frames.pop(); } }
        s.validated |= bit(*task);
      }
      TrkEv::RequireStart(task, _) => { self.sh[*task as usize].known = true; }
      TrkEv::RequireEnd(task, ..) => {
        // A require that returns during a bottom-up build hands out a consistent task: no scheduled task may still be
        // pending among the tasks it (transitively) requires.
        let pending = (self.reach(*task) | bit(*task)) & s.queue;
        if pending != 0 && !self.post_abort {
          self.add(s, &[Prop::C04, Prop::C03], "require-returned-with-scheduled-dependency", "",
            format!("during the bottom-up build a require of T{} returned while scheduled task(s) {:#b} that it (transitively) requires had not been executed yet", task, pending));
        }
        s.validated |= bit(*task);
      }
      _ => {}
    }
  }

  // ------------------------------------------------------------------------------------------ end of step

  fn end_of_step(&mut self, s: &mut Session, st: &Step, pre_dirty: u8, pre_mixed: bool, pre_post_abort: bool, pre_sh: &[Shadow]) {
    let roots: Vec<Tid> = match &st.pev.ev {
      Event::TopDown(r) | Event::TopDownKeep(r) => r.clone(),
      Event::BottomUp { pre, then, .. } => pre.iter().chain(then.iter()).copied().collect(),
      _ => Vec::new(),
    };
    let is_top_down = matches!(st.pev.ev, Event::TopDown(_));
    let in_scope_bu = match &st.pev.ev {
      Event::BottomUp { reported, .. } => {
        let rep: u8 = reported.iter().fold(0, |m, r| m | (1 << *r));
        rep & pre_dirty == pre_dirty
      }
      _ => false,
    };
    if self.prop == Prop::C17 {
      for (oracle, what) in crate::c17::check(self.prog, st) { self.add(s, &[Prop::C17], &oracle, "", what); }
    }
    match &st.outcome {
      Outcome::Returned(outs) => {
        if let Some(ob) = s.obligation.take() {
          let mut props = Vec::new();
          if ob.hidden { props.push(Prop::C05); }
          if ob.overlap { props.push(Prop::C06); }
          if ob.cycle { props.push(Prop::C07); }
          self.add(s, &props, "violation-not-diagnosed", "", format!("{}; the build returned", ob.what));
        }
        // C01 (also the output part of C18/C19): from-scratch comparison.
        if is_top_down || in_scope_bu {
          // Content/outputs are compared with a clean build only under exact write checkers (a writer that declares
          // "I only care that the file exists" legitimately lets a foreign content stand).
          let m = m1::build(self.prog, &st.pre_cells, &roots);
          // C19 also covers programs that have a violation in SOME state: judged whenever a from-scratch build of
          // the same roots in the current state is free of any flag.
          let judge_c01 = self.exact_writes() && (self.class.wf() || (self.prop == Prop::C19 && !m.flags.any() && !m.aborted));
          if judge_c01 {
            let expect: Vec<u8> = m.outputs.iter().map(|o| o.unwrap_or(255)).collect();
            if *outs != expect {
              self.add(s, &[Prop::C01, Prop::C18, Prop::C19], "output", "",
                format!("roots {:?} returned {:?}, a from-scratch build in cells {:?} returns {:?}", roots, outs, &st.pre_cells[..self.prog.n_res as usize], expect));
            }
            if is_top_down && st.post_cells != m.cells {
              self.add(s, &[Prop::C01, Prop::C18, Prop::C19], "resource-content", "",
                format!("after the build cells are {:?}, after a from-scratch build of {:?} they are {:?}", &st.post_cells[..self.prog.n_res as usize], roots, &m.cells[..self.prog.n_res as usize]));
            }
            // C02(e): with exact checkers nothing is executed that a from-scratch build would not execute.
            if is_top_down && self.exact_only() {
              for t in 0..self.prog.n_tasks() as Tid {
                if s.executed & bit(t) != 0 && !m.entered.contains(&t) {
                  self.add(s, &[Prop::C02], "executed-outside-scratch-build", "",
                    format!("T{} was executed but a from-scratch build of {:?} in the current state does not execute it (it executes {:?})", t, roots, m.entered));
                }
              }
            }
          }
        }
        // dependency check errors must be exactly the failing checker calls
        if st.dep_errors.len() != s.rc_errors {
          self.add(s, &[Prop::C18], "errors-reported", "",
            format!("{} resource checker call(s) failed during validation but the session reports {} dependency check error(s): {:?}", s.rc_errors, st.dep_errors.len(), st.dep_errors));
        }
        if !st.dep_errors.is_empty() && !self.uses_faulty() {
          self.add(s, &[Prop::C01], "unexpected-check-error", "", format!("dependency check errors without a failing checker: {:?}", st.dep_errors));
        }
        self.check_store_vs_shadow(s, st);
      }
      Outcome::Panicked(p) => {
        self.handle_abort(s, st, p, &roots, pre_post_abort);
        let _ = pre_mixed;
      }
      Outcome::Partial(_, _) => {
        // every abort of the session was judged where it happened (Ev::RootAbort); the surviving requires are not
        // compared with a from-scratch build (the session contains an aborted build)
        s.obligation = None;
      }
      Outcome::Applied => {}
    }
  }

  /// Judges one aborted build (the session's, or one require of a session that is kept after a caught panic).
  fn handle_abort(&mut self, s: &mut Session, st: &Step, p: &crate::runner::PanicInfo, roots: &[Tid], pre_post_abort: bool) {
      let kind = panic_kind(p);
      let diagnosed = matches!(kind, PanicKind::Hidden | PanicKind::Overlap | PanicKind::Cycle);
      let site = match s.call.last() {
        Some(CallRec::Read(..)) => "hidden-read",
        Some(CallRec::Write(..)) => if kind == PanicKind::Overlap { "overlap" } else { "hidden-write" },
        Some(CallRec::Req(..)) => "cycle",
        None => "none",
      };
      match kind {
        PanicKind::Recursion => {
          self.add(s, &[Prop::C07], "unbounded-recursion", "", "the recursion bound of the harness was hit: a cycle was not diagnosed".to_string());
        }
        PanicKind::Runaway => {
          let all = [Prop::C01, Prop::C02, Prop::C03, Prop::C04, Prop::C05, Prop::C06, Prop::C07, Prop::C08, Prop::C09, Prop::C16, Prop::C17, Prop::C18, Prop::C19, Prop::C20];
          self.add(s, &all, "non-terminating-build", "", format!("the build produced {} events without finishing (runaway bound of the harness)", crate::world::RUNAWAY_EVENTS));
        }
        PanicKind::Internal => {
          // After an earlier abort this is C19's concern only; in a history without aborts no property expects it.
          let props: &[Prop] = if pre_post_abort { &[Prop::C19] } else { &[Prop::C19, Prop::C18, Prop::C20, Prop::C01] };
          self.add(s, props, "internal-panic", "",
            format!("build failed with an internal error: {} ({}:{})", p.msg, p.file, p.line));
        }
        _ => {}
      }
      let ob = s.obligation.take();
      // Does a conflict of the reported kind exist over the recorded (shadow) edges, stale ones included?
      // `doomed`: tasks whose validation is in progress and has ALREADY found an inconsistent dependency: a correct
      // implementation stops validating them at that point and drops their edges before anything else executes, so
      // their recorded edges can no longer justify an abort (not even as the recorded stale-edge finding).
      let mut doomed: u32 = 0;
      for f in &s.frames {
        if let Frame::Validate { task, inconsistent: true, had_output: true, .. } = f { doomed |= bit(*task); }
      }
      let (conflict_recorded, conflict_not_doomed) = match s.call.last() {
        Some(CallRec::Read(c, r)) => {
          let reach = self.reach(*c);
          let ws: Vec<Tid> = self.writers_of(*r).into_iter().filter(|w| *w != *c && reach & bit(*w) == 0).collect();
          (kind == PanicKind::Hidden && !ws.is_empty(), ws.iter().any(|w| doomed & bit(*w) == 0))
        }
        Some(CallRec::Write(c, r, _)) => {
          if kind == PanicKind::Overlap {
            let ws: Vec<Tid> = self.writers_of(*r).into_iter().filter(|w| *w != *c).collect();
            (!ws.is_empty(), ws.iter().any(|w| doomed & bit(*w) == 0))
          } else {
            let xs: Vec<Tid> = self.readers_of(*r).into_iter().filter(|x| *x != *c && self.reach(*x) & bit(*c) == 0).collect();
            (kind == PanicKind::Hidden && !xs.is_empty(), xs.iter().any(|x| doomed & bit(*x) == 0))
          }
        }
        Some(CallRec::Req(c, u)) => {
          let any = *c == *u || self.reach(*u) & bit(*c) != 0 || s.exec_stack.contains(u);
          let without_doomed = *c == *u || (doomed & bit(*u) == 0 && self.reach_excluding(*u, doomed) & bit(*c) != 0) || s.exec_stack.contains(u);
          (kind == PanicKind::Cycle && any, without_doomed)
        }
        None => (false, false),
      };
      if let Some(ob) = &ob {
        // A different diagnosis is accepted when a conflict of that kind is recorded as well (coexisting
        // conflicts, possibly a stale one: pie tests overlap before hidden dependencies; staleness is C20's).
        if diagnosed && !ob.kinds.contains(&kind) && !conflict_recorded {
          let mut props = Vec::new();
          if ob.hidden { props.push(Prop::C05); }
          if ob.overlap { props.push(Prop::C06); }
          if ob.cycle { props.push(Prop::C07); }
          self.add(s, &props, "wrong-diagnosis", "", format!("{}; the build aborted with '{}'", ob.what, p.msg));
        }
      }
      if diagnosed {
        // C20: the abort must be justified by a violation that exists now.
        let justified_by_current = ob.as_ref().map(|o| o.kinds.contains(&kind)).unwrap_or(false);
        let mut tasks = self.known_tasks();
        for r in roots { if !tasks.contains(r) { tasks.push(*r); } }
        tasks.sort();
        let scratch = m1::scratch_flags(self.prog, &st.pre_cells, &tasks);
        let justified = justified_by_current || scratch.any_violation();
        if !justified {
          // Stale-edge finding? The conflict must exist over the recorded (shadow) edges.
          let conflict = conflict_recorded;
          let key = if conflict && conflict_not_doomed { format!("C20/stale-edge/{}", site) } else { String::new() };
          // C18: a build in which a resource checker failed must not abort because of it
          let checker_failed = st.log.iter().any(|e| matches!(e, crate::world::Ev::RcCheck(_, _, _, Err(_))));
          let props: &[Prop] = if checker_failed { &[Prop::C20, Prop::C19, Prop::C18] } else { &[Prop::C20, Prop::C19] };
          self.add(s, props, "unjustified-abort", &key,
            format!("build aborted with '{}' (site {}), but a from-scratch build of all known tasks {:?} in cells {:?} has no cycle, hidden dependency or overlapping write; conflict over recorded edges: {}; a conflicting edge belongs to a task not already known to be inconsistent: {}",
              p.msg, site, tasks, &st.pre_cells[..self.prog.n_res as usize], conflict, conflict_not_doomed));
        }
      }
      // Tasks that were executing keep their partial dependency lists and no output.
    
  }

  fn writers_in(&self, sh: &[Shadow], r: Rid) -> Vec<Tid> {
    (0..sh.len()).filter(|t| sh[*t].deps.iter().any(|d| matches!(d, Dep::Write(rr, _, _) if *rr == r))).map(|t| t as Tid).collect()
  }

  fn exact_only(&self) -> bool {
    self.prog.bodies.iter().flatten().all(|s| match s.op {
      Op::Req(_, oc) => oc.is_exact(),
      Op::Read(_, rc) | Op::Write(_, _, rc) | Op::WriteDecl(_, _, rc) => rc == RC::Exact,
      Op::Panic => true,
    })
  }
  pub fn exact_writes(&self) -> bool {
    self.prog.bodies.iter().flatten().all(|s| match s.op {
      Op::Write(_, _, rc) | Op::WriteDecl(_, _, rc) => matches!(rc, RC::Exact | RC::Faulty),
      _ => true,
    })
  }
  fn uses_faulty(&self) -> bool {
    self.prog.bodies.iter().flatten().any(|s| matches!(s.op, Op::Read(_, RC::Faulty) | Op::Write(_, _, RC::Faulty) | Op::WriteDecl(_, _, RC::Faulty)))
  }

  /// C08: the store's record of every task equals the shadow of its latest execution.
  fn check_store_vs_shadow(&mut self, s: &mut Session, st: &Step) {
    if self.prop != Prop::C08 && self.prop != Prop::C15 { return; }
    for n in &st.dump.nodes {
      let DNodeKind::Task(t, out) = n.kind else { continue; };
      let sh = &self.sh[t as usize];
      let expected: Vec<Dep> = sh.edges();
      let observed: Vec<Option<Dep>> = n.out.iter().map(|(_, k)| match k {
        DEdgeKind::Reserved => None,
        DEdgeKind::Req(u, oc, stv) => Some(Dep::Req(*u, *oc, *stv)),
        DEdgeKind::Read(r, rc, stv) => Some(Dep::Read(*r, *rc, *stv)),
        DEdgeKind::Write(r, rc, stv) => Some(Dep::Write(*r, *rc, *stv)),
      }).collect();
      if self.post_abort && sh.output.is_none() { continue; } // leftovers of an aborted execution
      if observed.iter().any(|o| o.is_none()) {
        self.add(s, &[Prop::C08], "reserved-edge-left", "", format!("T{} still has a reserved require edge after a build that returned", t));
        continue;
      }
      let observed: Vec<Dep> = observed.into_iter().flatten().collect();
      if out != sh.output {
        self.add(s, &[Prop::C08, Prop::C15], "cached-output", "", format!("T{}: store holds output {:?}, its latest execution returned {:?}", t, out, sh.output));
      }
      let mut observed_sorted = observed.clone(); observed_sorted.sort();
      let mut expected_sorted = expected.clone(); expected_sorted.sort();
      if observed_sorted != expected_sorted {
        // Known finding F2: several dependencies on one target with different checkers -> only one is kept.
        let raw = &sh.deps;
        let multi = raw.iter().enumerate().any(|(i, a)| raw[i + 1..].iter().any(|b| a.target() == b.target() && a.sig() != b.sig()));
        let key = if multi && observed.len() == expected.len() && observed.iter().zip(expected.iter()).all(|(o, e)| o.target() == e.target()) {
          "C08/one-edge-per-target"
        } else { "" };
        self.add(s, &[Prop::C08, Prop::C15], "recorded-dependencies", key,
          format!("T{}: store records {:?}, its latest execution performed {:?} (deduplicated per target: {:?})", t, observed, raw, expected));
      } else {
        let raw = &sh.deps;
        let multi = raw.iter().enumerate().any(|(i, a)| raw[i + 1..].iter().any(|b| a.target() == b.target() && a.sig() != b.sig()));
        if multi {
          self.add(s, &[Prop::C08], "recorded-dependencies", "C08/one-edge-per-target",
            format!("T{} declared several dependencies with different checkers on one target; the store keeps one per target: {:?} of {:?}", t, observed, raw));
        }
      }
    }
  }
}
