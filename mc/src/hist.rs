//! The history explorer (DESIGN §3.5): breadth-first explicit-state search over explorer events on the REAL `Pie`,
//! states identified by the canonical store dump + cells + scope bookkeeping, re-derived by re-execution.

use std::collections::{BTreeMap, HashMap, HashSet, VecDeque};
use std::hash::{Hash, Hasher};
use std::sync::atomic::{AtomicUsize, Ordering};
use std::sync::Mutex;
use std::time::Instant;

use serde_json::{json, Value};

use crate::analyze::{Analyzer, Finding, Prop};
use crate::common::{engine_error, Args, Report, Tier, Violation};
use crate::m1::{self, Class};
use crate::prog::*;
use crate::runner::*;
use crate::world::set_program;

#[derive(Clone, Debug)]
pub struct HistCfg {
  pub prop: Prop,
  /// maximum number of roots per top-down session
  pub max_roots: usize,
  pub bottom_up: bool,
  /// bottom-up sessions may continue with one top-down require
  pub bu_then: bool,
  /// bottom-up sessions may start with one top-down require
  pub bu_pre: bool,
  /// also report `dirty ∪ {one unchanged resource}`
  pub bu_over_report: bool,
  /// also sessions that run the bottom-up build twice (same report; the second build must find nothing to do)
  pub bu_twice: bool,
  /// also sessions whose report is SPLIT over two bottom-up builds: the first build then works from an incomplete report,
  /// which is outside the quantifier of C03/C04 (only the checker-relative oracles of C08/C09 apply)
  pub bu_split: bool,
  /// also top-down sessions that are used again after a caught panic (each require caught on its own)
  pub keep_session: bool,
  pub set_fail: bool,
  /// crash decorations: number of crashes allowed per history
  pub crashes: usize,
  pub depth: usize,
  /// cap on states per program (0 = none)
  pub state_cap: usize,
  /// run the all-known-tasks probe after in-scope bottom-up builds
  pub probe: bool,
  /// include scope bookkeeping in the state identity
  pub scope_in_key: bool,
  /// wall-clock cap for the whole run (seconds)
  pub wall_cap: f64,
  /// C16: record (program hash, history hash, step digest) of every transition
  pub collect_digests: bool,
  /// C16: look for the history with this hash (to write a replayable artefact for a cross-process mismatch)
  pub find_path_hash: Option<u64>,
  /// failure flags also make the stamp of a declared write fail (C05/C06 group)
  pub stamp_fail: bool,
  /// staged exploration ("start from non-initial states"): when > 0, a first stage of up to `stage1` events over the
  /// graph-building alphabet only (Set of the LAST resource, TopDown with one root) is explored breadth-first, and from
  /// EVERY state of that stage (including the initial one) all sequences of up to `depth` events over the full alphabet.
  /// The number of second-stage events is part of the state identity, so no second-stage continuation is lost to
  /// deduplication.
  pub stage1: usize,
  /// declared writes do not use `create_writer`: the content appears by other means right before `written_to` stamps it
  pub decl_direct: bool,
}

/// Fixed-key hash (no addresses, no random seeds): used for trace digests only.
pub struct Fnv(pub u64);
impl Default for Fnv { fn default() -> Self { Fnv(0xcbf29ce484222325) } }
impl Hasher for Fnv {
  fn finish(&self) -> u64 { self.0 }
  fn write(&mut self, bytes: &[u8]) {
    for b in bytes { self.0 ^= *b as u64; self.0 = self.0.wrapping_mul(0x100000001b3); }
  }
}

/// Digest of everything observed in a step.
pub fn step_digest(st: &Step) -> u64 {
  let mut h = Fnv::default();
  st.log.hash(&mut h);
  st.rec2.hash(&mut h);
  st.evt.hash(&mut h);
  st.helpers.hash(&mut h);
  st.dep_errors.hash(&mut h);
  st.post_cells.hash(&mut h);
  st.post_fail.hash(&mut h);
  st.dump.hash(&mut h);
  match &st.outcome {
    Outcome::Applied => 0u8.hash(&mut h),
    Outcome::Returned(o) => { 1u8.hash(&mut h); o.hash(&mut h); }
    Outcome::Panicked(p) => { 2u8.hash(&mut h); p.msg.hash(&mut h); }
    Outcome::Partial(o, ps) => { 3u8.hash(&mut h); o.hash(&mut h); for p in ps { p.msg.hash(&mut h); } }
  }
  h.finish()
}

struct NodeRec {
  path: Vec<PEvent>,
  digests: Vec<u64>,
  cells: [Cell; MAX_RES],
  fail: [bool; MAX_RES],
  dirty: u8,
  known: Vec<Tid>,
  crashes_used: usize,
  last_ticks: usize,
  /// staged exploration: number of second-stage events in `path` (0 = still in the first stage)
  p2: usize,
}

#[derive(Default, Clone, Debug)]
pub struct Stats {
  pub programs: usize,
  pub states: usize,
  pub transitions: usize,
  pub sessions_executed: usize,
  pub max_depth: usize,
  pub depth_capped_programs: usize,
  pub state_capped_programs: usize,
  pub fixed_point_programs: usize,
  pub distinct_traces: usize,
  pub aborts: BTreeMap<String, usize>,
  pub builds_returned: usize,
  pub tasks_executed: usize,
  pub tasks_reused: usize,
  pub probes: usize,
  pub in_scope_bottom_up: usize,
  pub replays_checked: usize,
  pub wall_capped: bool,
  pub digests: Vec<(u64, u64, u64)>,
  /// a few explored histories written out (the deepest ones met by each worker)
  pub samples: Vec<Value>,
  pub found_path: Option<Vec<PEvent>>,
  pub unconfirmed_divergences: usize,
  /// programs whose exploration was abandoned because the process' resident set exceeded the memory cap
  pub rss_capped_programs: usize,
}

/// Resident set size of this process in GiB (0 when /proc is unavailable).
pub fn rss_gib() -> f64 {
  std::fs::read_to_string("/proc/self/statm").ok()
    .and_then(|s| s.split_whitespace().nth(1).and_then(|p| p.parse::<f64>().ok()))
    .map(|pages| pages * 4096.0 / (1u64 << 30) as f64).unwrap_or(0.0)
}

/// Memory cap of the explorer (GiB, env VERIF_RSS_GB): beyond it the programs in flight are abandoned (reported as
/// cut, never as a verdict) so that the operating system does not kill the check.
pub fn rss_cap_gib() -> f64 { std::env::var("VERIF_RSS_GB").ok().and_then(|v| v.parse().ok()).unwrap_or(20.0) }

impl Stats {
  pub fn merge(&mut self, o: &Stats) {
    self.programs += o.programs; self.states += o.states; self.transitions += o.transitions;
    self.sessions_executed += o.sessions_executed;
    self.max_depth = self.max_depth.max(o.max_depth);
    self.depth_capped_programs += o.depth_capped_programs; self.state_capped_programs += o.state_capped_programs;
    self.fixed_point_programs += o.fixed_point_programs; self.distinct_traces += o.distinct_traces;
    for (k, v) in &o.aborts { *self.aborts.entry(k.clone()).or_default() += v; }
    self.builds_returned += o.builds_returned; self.tasks_executed += o.tasks_executed; self.tasks_reused += o.tasks_reused;
    self.probes += o.probes; self.in_scope_bottom_up += o.in_scope_bottom_up; self.replays_checked += o.replays_checked;
    self.wall_capped |= o.wall_capped;
    self.digests.extend_from_slice(&o.digests);
    for s in &o.samples { if self.samples.len() < 12 { self.samples.push(s.clone()); } }
    if self.found_path.is_none() { self.found_path = o.found_path.clone(); }
    self.unconfirmed_divergences += o.unconfirmed_divergences;
    self.rss_capped_programs += o.rss_capped_programs;
  }
}

fn sequences(n_tasks: usize, max_len: usize) -> Vec<Vec<Tid>> {
  // sequences of distinct tasks of length 1..=max_len
  let mut out: Vec<Vec<Tid>> = Vec::new();
  let mut level: Vec<Vec<Tid>> = vec![Vec::new()];
  for _ in 0..max_len {
    let mut next = Vec::new();
    for s in &level {
      for t in 0..n_tasks as Tid {
        if s.contains(&t) { continue; }
        let mut s2 = s.clone();
        s2.push(t);
        next.push(s2);
      }
    }
    out.extend(next.iter().cloned());
    level = next;
  }
  out
}

fn enabled_events(prog: &Prog, cfg: &HistCfg, node: &NodeRec) -> Vec<Event> {
  let mut evs = Vec::new();
  for r in 0..prog.n_res {
    for v in [None, Some(0), Some(1)] {
      if node.cells[r as usize] != v { evs.push(Event::Set(r, v)); }
    }
  }
  if cfg.set_fail {
    for r in 0..prog.n_res {
      if uses_faulty_on(prog, r) { evs.push(Event::SetFail(r, !node.fail[r as usize])); }
    }
  }
  for roots in sequences(prog.n_tasks(), cfg.max_roots) { evs.push(Event::TopDown(roots)); }
  if cfg.keep_session && cfg.max_roots >= 2 {
    for roots in sequences(prog.n_tasks(), 2) { if roots.len() == 2 { evs.push(Event::TopDownKeep(roots)); } }
  }
  if cfg.max_roots >= 2 {
    // the same root twice in one session (the session-level "already consistent" path)
    for t in 0..prog.n_tasks() as Tid { evs.push(Event::TopDown(vec![t, t])); }
  }
  if cfg.bottom_up && !node.known.is_empty() {
    let dirty: Vec<Rid> = (0..prog.n_res).filter(|r| node.dirty & (1 << r) != 0).collect();
    let mut reports: Vec<Vec<Rid>> = Vec::new();
    reports.push(dirty.clone());
    if dirty.len() == 2 { reports.push(vec![dirty[1], dirty[0]]); }
    if cfg.bu_over_report {
      for r in 0..prog.n_res {
        if !dirty.contains(&r) { let mut d = dirty.clone(); d.push(r); reports.push(d); }
      }
    }
    for rep in reports {
      evs.push(Event::BottomUp { pre: vec![], reported: rep.clone(), then: vec![], builds: 1 });
      if cfg.bu_twice {
        evs.push(Event::BottomUp { pre: vec![], reported: rep.clone(), then: vec![], builds: 2 });
        if cfg.bu_split && rep.len() >= 2 { evs.push(Event::BottomUp { pre: vec![], reported: rep.clone(), then: vec![], builds: 3 }); }
      }
      if cfg.bu_then {
        for t in 0..prog.n_tasks() as Tid { evs.push(Event::BottomUp { pre: vec![], reported: rep.clone(), then: vec![t], builds: 1 }); }
      }
      if cfg.bu_pre {
        for t in 0..prog.n_tasks() as Tid { evs.push(Event::BottomUp { pre: vec![t], reported: rep.clone(), then: vec![], builds: 1 }); }
      }
    }
  }
  evs
}

/// First-stage alphabet of a staged exploration: the last resource is the "mode" resource.
fn is_stage1_event(prog: &Prog, ev: &Event) -> bool {
  match ev {
    Event::Set(r, _) => *r + 1 == prog.n_res,
    Event::TopDown(roots) => roots.len() == 1,
    _ => false,
  }
}

fn uses_faulty_on(prog: &Prog, r: Rid) -> bool {
  prog.bodies.iter().flatten().any(|s| matches!(s.op, Op::Read(rr, RC::Faulty) | Op::Write(rr, _, RC::Faulty) | Op::WriteDecl(rr, _, RC::Faulty) if rr == r))
}

fn state_key(st: Option<&Step>, an: &Analyzer, cfg: &HistCfg, crashes_used: usize) -> Vec<u8> {
  let mut k = Vec::with_capacity(256);
  if let Some(st) = st {
    st.dump.bytes(&mut k);
    for c in &st.post_cells { k.push(match c { None => 9, Some(v) => *v }); }
    for f in &st.post_fail { k.push(*f as u8); }
  }
  if cfg.scope_in_key { an.scope_bytes(&mut k); }
  k.push(crashes_used as u8);
  k
}

pub fn path_json(path: &[PEvent]) -> Value { Value::Array(path.iter().map(|p| p.to_json()).collect()) }
pub fn path_strings(path: &[PEvent]) -> Vec<String> { path.iter().map(|p| p.to_string()).collect() }

fn finding_to_violation(prog: &Prog, path: &[PEvent], f: &Finding, prop: Prop, st: Option<&Step>) -> Violation {
  Violation {
    property: prop.name().to_string(),
    oracle: f.oracle.clone(),
    key: f.key.clone(),
    what: f.what.clone(),
    replay: json!({
      "engine": "hist",
      "program": prog.to_json(),
      "program_short": prog.short(),
      "history": path_json(path),
      "history_short": path_strings(path),
      "last_step_outcome": st.map(|s| format!("{:?}", s.outcome)),
    }),
  }
}

/// Result of judging one path (the last step only).
pub struct Judged {
  pub findings: Vec<Finding>,
  pub steps: Vec<Step>,
  pub key: Vec<u8>,
  pub dirty: u8,
  pub known: Vec<Tid>,
  pub sessions: usize,
}

/// Re-executes `path` on a fresh Pie, analyses it, judges the last step, optionally probes.
thread_local! {
  static PRELUDE_COUNTER: std::cell::Cell<usize> = std::cell::Cell::new(0);
}

/// C16: "independent of ... earlier unrelated instances". Before a history is (re-)executed, an unrelated Pie instance
/// on the same thread runs one of a few fixed histories that end in an abort or exercise re-ordering (rotating per
/// execution), so that state leaking between instances (thread-locals, statics) shows up as a replay divergence.
fn unrelated_prelude() {
  let k = PRELUDE_COUNTER.with(|c| { let v = c.get(); c.set(v + 1); v }) % 7;
  let st = |op| Stmt { guard: None, op };
  let q = OC::Equals;
  let (p, path): (Prog, Vec<PEvent>) = match k {
    0 => return,
    1 => (Prog { n_res: 0, bodies: vec![vec![st(Op::Req(1, q))], vec![st(Op::Req(2, q))], vec![st(Op::Req(0, q))]] },
          vec![PEvent::plain(Event::TopDown(vec![0]))]),
    2 => (Prog { n_res: 0, bodies: vec![vec![st(Op::Req(1, q))], vec![st(Op::Req(2, q))], vec![st(Op::Req(3, q))], vec![st(Op::Req(0, q))]] },
          vec![PEvent::plain(Event::TopDown(vec![2])), PEvent::plain(Event::TopDown(vec![0]))]),
    3 => (Prog { n_res: 1, bodies: vec![vec![st(Op::Read(0, RC::Exact))], vec![st(Op::Write(0, Src::One, RC::Exact))], vec![st(Op::Write(0, Src::Zero, RC::Exact))]] },
          vec![PEvent::plain(Event::TopDown(vec![1, 0])), PEvent::plain(Event::TopDown(vec![2]))]),
    // a resource checker that fails during top-down validation (the validation gives up with an error half-way)
    5 => (Prog { n_res: 2, bodies: vec![vec![st(Op::Req(1, q)), st(Op::Read(1, RC::Faulty))], vec![st(Op::Read(1, RC::Exact)), st(Op::Read(0, RC::Faulty)), st(Op::Read(1, RC::Exists))]] },
          vec![PEvent::plain(Event::TopDown(vec![0])), PEvent::plain(Event::SetFail(0, true)), PEvent::plain(Event::TopDown(vec![0, 1]))]),
    // ... and during bottom-up scheduling, followed by a top-down require in the same session
    6 => (Prog { n_res: 2, bodies: vec![vec![st(Op::Req(1, q)), st(Op::Read(1, RC::Faulty))], vec![st(Op::Read(0, RC::Faulty)), st(Op::Read(1, RC::Exact))]] },
          vec![PEvent::plain(Event::TopDown(vec![0])), PEvent::plain(Event::SetFail(0, true)), PEvent::plain(Event::SetFail(1, true)), PEvent::plain(Event::Set(1, Some(1))), PEvent::plain(Event::BottomUp { pre: vec![], reported: vec![0, 1], then: vec![0], builds: 1 })]),
    _ => (Prog { n_res: 1, bodies: vec![vec![st(Op::Read(0, RC::Exact)), Stmt { guard: Some(1), op: Op::Req(2, q) }], vec![st(Op::Req(0, q))], vec![st(Op::Req(1, q)), st(Op::Read(0, RC::Exact))]] },
          vec![PEvent::plain(Event::TopDown(vec![2, 1])), PEvent::plain(Event::Set(0, Some(1))), PEvent::plain(Event::BottomUp { pre: vec![], reported: vec![0], then: vec![2], builds: 1 })]),
  };
  let _ = run_history(&p, &path);
}

pub fn judge_path(prog: &Prog, class: Class, cfg: &HistCfg, path: &[PEvent], crashes_used: usize) -> Judged {
  if cfg.prop == Prop::C16 { unrelated_prelude(); }
  crate::world::set_stamp_failures(cfg.stamp_fail);
  crate::world::set_decl_direct(cfg.decl_direct);
  set_program(Some(prog.clone()));
  let mut live = Live::new();
  let mut an = Analyzer::new(prog, class, cfg.prop);
  let mut findings = Vec::new();
  let mut sessions = 0;
  for (i, pev) in path.iter().enumerate() {
    let last = i + 1 == path.len();
    let pre_dirty = an.dirty;
    let pre_mixed = an.mixed;
    let st = live.apply(pev).clone();
    if st.pev.ev.is_build() { sessions += 1; }
    if let Outcome::Partial(_, ps) = &st.outcome {
      for p in ps { if is_harness_bug(p) { engine_error(&format!("harness bug while executing {:?} of program {}: {} ({}:{})", path_strings(path), prog.short(), p.msg, p.file, p.line)); } }
    }
    if let Outcome::Panicked(p) = &st.outcome {
      if is_harness_bug(p) { engine_error(&format!("harness bug while executing {:?} of program {}: {} ({}:{})", path_strings(path), prog.short(), p.msg, p.file, p.line)); }
    }
    let f = an.step(&st, last);
    if last { findings = f; }
    let _ = (pre_dirty, pre_mixed);
  }
  let key = state_key(live.steps.last(), &an, cfg, crashes_used);
  let dirty = an.dirty;
  let known = an.known_tasks();
  // C03 probe: after an in-scope bottom-up build, requiring every known task must execute nothing.
  if cfg.probe && !path.is_empty() {
    let last = live.steps.last().unwrap().clone();
    if let (Event::BottomUp { reported, .. }, Outcome::Returned(_)) = (&last.pev.ev, &last.outcome) {
      // in scope: reported ⊇ dirty before the step
      let mut an2 = Analyzer::new(prog, class, cfg.prop);
      for st in &live.steps[..live.steps.len() - 1] { an2.step(st, false); }
      let rep: u8 = reported.iter().fold(0, |m, r| m | (1 << *r));
      let in_scope = rep & an2.dirty == an2.dirty;
      let pre_mixed = an2.mixed;
      if in_scope && !known.is_empty() {
        let probe_ev = PEvent::plain(Event::TopDown(known.clone()));
        let pst = live.apply(&probe_ev).clone();
        live.steps.pop(); // the probe is a throw-away continuation, not a step of the explored history
        sessions += 1;
        let entered: Vec<Tid> = pst.log.iter().filter_map(|e| if let crate::world::Ev::Enter(t) = e { Some(*t) } else { None }).collect();
        let m = m1::build(prog, &last.post_cells, &known);
        let mut problems: Vec<(String, String)> = Vec::new();
        match &pst.outcome {
          Outcome::Returned(outs) => {
            if !entered.is_empty() {
              problems.push(("stale-after-bottom-up".into(), format!("after the bottom-up build, requiring all known tasks {:?} executed {:?}", known, entered)));
            }
            if class.wf() && an.exact_writes() {
              let expect: Vec<u8> = m.outputs.iter().map(|o| o.unwrap_or(255)).collect();
              if *outs != expect {
                problems.push(("probe-output".into(), format!("after the bottom-up build, known tasks {:?} return {:?}; from scratch they return {:?}", known, outs, expect)));
              }
              if pst.post_cells != m.cells && entered.is_empty() {
                problems.push(("probe-content".into(), format!("after the bottom-up build cells are {:?}; a from-scratch build of all known tasks leaves {:?}", &pst.post_cells[..prog.n_res as usize], &m.cells[..prog.n_res as usize])));
              }
            }
          }
          Outcome::Panicked(p) => {
            problems.push(("probe-abort".into(), format!("after the bottom-up build, requiring all known tasks aborted: {}", p.msg)));
          }
          Outcome::Applied | Outcome::Partial(..) => {}
        }
        // Known finding F1: every stale task already had, at the start of this bottom-up build, an inconsistent
        // dependency that is not a dependency on a reported resource (left behind by an earlier top-down or aborted
        // build, possibly the leading require of this very session).
        let rep_mask: u8 = reported.iter().fold(0, |m, r| m | (1 << *r));
        // (tasks entered by the probe that were not known before it are new tasks required by a re-executed stale
        // task, not stale tasks themselves)
        let stale: Vec<Tid> = entered.iter().copied().filter(|t| known.contains(t)).collect();
        // A task that was re-executed DURING the build and then required such a task got its stale output handed
        // out: it is stale as a consequence (its requires as recorded after the build are followed as well).
        let f1_task = |t: Tid| -> bool {
          if an.stale_before_bottom_up(t, rep_mask) { return true; }
          let mut m = an.reach(t);
          while m != 0 {
            let y = m.trailing_zeros() as Tid;
            m &= m - 1;
            if an.stale_before_bottom_up(y, rep_mask) { return true; }
          }
          false
        };
        let f1 = !stale.is_empty() && stale.iter().all(|t| f1_task(*t));
        let _ = pre_mixed;
        for (oracle, what) in problems {
          let key = if f1 { "C03/stale-before-bottom-up" } else { "" };
          if cfg.prop == Prop::C03 {
            findings.push(Finding { oracle: format!("C03/{}", oracle), key: key.to_string(), what });
          }
        }
      }
    }
  }
  Judged { findings, steps: live.steps, key, dirty, known, sessions }
}

/// Explores one program. Returns violations (already classified findings are passed through the sink).
pub fn explore_program(prog: &Prog, class: Class, cfg: &HistCfg, stats: &mut Stats, deadline: Instant, sink: &mut dyn FnMut(Violation), is_known: &dyn Fn(&str) -> bool) {
  stats.programs += 1;
  let mut seen: HashSet<Vec<u8>> = HashSet::new();
  let mut traces: HashSet<u64> = HashSet::new();
  let mut frontier: VecDeque<NodeRec> = VecDeque::new();
  {
    let an = Analyzer::new(prog, class, cfg.prop);
    seen.insert(state_key(None, &an, cfg, 0));
  }
  frontier.push_back(NodeRec { path: vec![], digests: vec![], cells: [None; MAX_RES], fail: [false; MAX_RES], dirty: 0, known: vec![], crashes_used: 0, last_ticks: 0, p2: 0 });
  let mut depth_capped = false;
  let mut state_capped = false;
  let rss_cap = rss_cap_gib();
  let mut iter = 0usize;
  while let Some(node) = frontier.pop_front() {
    if Instant::now() > deadline { stats.wall_capped = true; break; }
    iter += 1;
    if iter % 512 == 0 && rss_gib() > rss_cap { state_capped = true; stats.rss_capped_programs += 1; break; }
    let staged = cfg.stage1 > 0;
    let in_stage1 = staged && node.p2 == 0 && node.path.len() < cfg.stage1;
    if !staged && node.path.len() >= cfg.depth { depth_capped = true; continue; }
    if staged && !in_stage1 && node.p2 >= cfg.depth { depth_capped = true; continue; }
    if cfg.state_cap != 0 && seen.len() >= cfg.state_cap { state_capped = true; break; }
    let mut candidates: Vec<(PEvent, usize)> = Vec::new();
    for ev in enabled_events(prog, cfg, &node) {
      if staged && node.p2 >= cfg.depth && !is_stage1_event(prog, &ev) { continue; }
      candidates.push((PEvent::plain(ev), node.crashes_used));
    }
    let mut ci = 0;
    while ci < candidates.len() {
      let (pev, crashes_used) = candidates[ci].clone();
      ci += 1;
      let mut path = node.path.clone();
      path.push(pev.clone());
      let mut j = judge_path(prog, class, cfg, &path, crashes_used);
      let p2 = if !staged { 0 } else if in_stage1 && is_stage1_event(prog, &pev.ev) { 0 } else { node.p2 + 1 };
      if staged { j.key.push(p2 as u8); }
      stats.transitions += 1;
      stats.sessions_executed += j.sessions;
      stats.max_depth = stats.max_depth.max(path.len());
      // Determinism guard: every re-execution of the prefix must reproduce the recorded digests.
      for (i, d) in node.digests.iter().enumerate() {
        if step_digest(&j.steps[i]) != *d {
          let v = Violation {
            property: "C16".into(), oracle: "C16/replay-divergence".into(), key: String::new(),
            what: format!("re-execution of step {} of the history produced a different trace", i),
            replay: json!({"engine": "hist", "program": prog.to_json(), "history": path_json(&path), "diverging_step": i}),
          };
          // Confirmation: re-execute the path six more times. The divergence is confirmed when the recorded digest
          // shows up again or the re-executions disagree among themselves (two outcomes that both recur / several
          // outcomes); a recorded digest that never recurs while six executions agree is counted as unconfirmed
          // (reported in the evidence with a diagnostics file) and the agreeing trace becomes the reference.
          let now = step_digest(&j.steps[i]);
          let mut seen_digests: Vec<u64> = vec![now];
          let mut txt = format!("program {}\nhistory {:?}\ndiverging step {}\nrecorded digest {:016x}, now {:016x}\n", prog.short(), path_strings(&path), i, d, now);
          for run in 0..6 {
            let again = judge_path(prog, class, cfg, &path, crashes_used);
            let st = &again.steps[i];
            seen_digests.push(step_digest(st));
            if run < 2 {
              txt.push_str(&format!("--- re-run {}: digest {:016x}\noutcome {:?}\npost_cells {:?}\ndep_errors {:?}\ndump {}\nrec2 {:?}\nevt {:?}\nlog {:#?}\n", run, step_digest(st), st.outcome, st.post_cells, st.dep_errors, st.dump.to_json(), st.rec2, st.evt, st.log));
            }
          }
          txt.push_str(&format!("digests of the re-executions: {:x?}\n", seen_digests));
          let _ = std::fs::create_dir_all(format!("{}/tmp", crate::common::verif_dir()));
          let _ = std::fs::write(format!("{}/tmp/divergence-{}-{}.txt", crate::common::verif_dir(), cfg.prop.name(), std::process::id()), txt);
          let confirmed = seen_digests.iter().any(|x| x == d) || seen_digests.iter().any(|x| *x != now);
          if !confirmed {
            stats.unconfirmed_divergences += 1;
            continue;
          }
          if cfg.prop == Prop::C16 { sink(v); return; }
          engine_error(&format!("non-reproducible execution (not a verdict for {}): program {} history {:?} step {}", cfg.prop.name(), prog.short(), path_strings(&path), i));
        }
      }
      stats.replays_checked += node.digests.len();
      let last = j.steps.last().unwrap();
      let last_digest = step_digest(last);
      traces.insert(last_digest);
      if cfg.collect_digests {
        let mut ph = Fnv::default(); prog.hash(&mut ph);
        let mut hh = Fnv::default(); path.hash(&mut hh);
        stats.digests.push((ph.finish(), hh.finish(), last_digest));
        if cfg.find_path_hash == Some(hh.finish()) { stats.found_path = Some(path.clone()); }
      }
      match &last.outcome {
        Outcome::Returned(_) => {
          stats.builds_returned += 1;
          stats.tasks_executed += last.log.iter().filter(|e| matches!(e, crate::world::Ev::Enter(_))).count();
        }
        Outcome::Panicked(p) => { *stats.aborts.entry(format!("{:?}", panic_kind(p))).or_default() += 1; }
        Outcome::Partial(_, ps) => { for p in ps { *stats.aborts.entry(format!("{:?}(session kept)", panic_kind(p))).or_default() += 1; } }
        Outcome::Applied => {}
      }
      if let Event::BottomUp { .. } = last.pev.ev { stats.in_scope_bottom_up += 1; }
      if stats.samples.len() < 2 && path.len() >= cfg.depth.min(4) && last.pev.ev.is_build() && stats.transitions % 97 == 0 {
        stats.samples.push(json!({"program": prog.short(), "history": path_strings(&path), "last_outcome": format!("{:?}", last.outcome),
          "tasks_executed_in_last_step": last.log.iter().filter_map(|e| if let crate::world::Ev::Enter(t) = e { Some(format!("T{}", t)) } else { None }).collect::<Vec<_>>() }));
      }
      let mut blocked = false;
      for f in &j.findings {
        if !is_known(&f.key) { blocked = true; }
        sink(finding_to_violation(prog, &path, f, cfg.prop, Some(last)));
      }
      // Crash decorations: one more execution per crash point of this build.
      if cfg.crashes > crashes_used && pev.crash_at.is_none() && pev.ev.is_build() {
        for k in 0..last.ticks { candidates.push((PEvent { ev: pev.ev.clone(), crash_at: Some(k) }, crashes_used + 1)); }
      }
      if blocked { continue; }
      if seen.insert(j.key.clone()) {
        let mut digests = node.digests.clone();
        digests.push(last_digest);
        frontier.push_back(NodeRec {
          path, digests, cells: last.post_cells, fail: last.post_fail, dirty: j.dirty, known: j.known.clone(),
          crashes_used, last_ticks: last.ticks, p2,
        });
      }
    }
  }
  let _ = frontier.iter().map(|n| n.last_ticks).count();
  stats.states += seen.len();
  stats.distinct_traces += traces.len();
  if state_capped { stats.state_capped_programs += 1; }
  else if depth_capped { stats.depth_capped_programs += 1; }
  else if !stats.wall_capped { stats.fixed_point_programs += 1; }
}

/// Runs the exploration of all programs over the worker threads and fills the report.
pub fn run_programs(rep: &mut Report, cfg: &HistCfg, programs: Vec<(Prog, Class)>, threads: usize) -> Stats {
  let start = Instant::now();
  let deadline = start + std::time::Duration::from_secs_f64(cfg.wall_cap);
  let next = AtomicUsize::new(0);
  let total = Mutex::new(Stats::default());
  let violations: Mutex<Vec<(usize, Violation)>> = Mutex::new(Vec::new());
  let known: Mutex<HashMap<String, (usize, Violation, usize)>> = Mutex::new(HashMap::new());
  let known_keys: Vec<String> = rep_known_keys(rep);
  install_panic_hook();
  std::thread::scope(|scope| {
    for _ in 0..threads {
      // generous stacks: a recursion that escapes both harness bounds must not take the process down
      std::thread::Builder::new().stack_size(256 << 20).spawn_scoped(scope, || {
        let mut stats = Stats::default();
        loop {
          let i = next.fetch_add(1, Ordering::SeqCst);
          if i >= programs.len() { break; }
          if Instant::now() > deadline { stats.wall_capped = true; break; }
          let (prog, class) = &programs[i];
          let mut local: Vec<Violation> = Vec::new();
          // known findings are met millions of times in the deeper tiers: count them, keep one sample per key
          let mut local_known: HashMap<String, (Violation, usize)> = HashMap::new();
          let is_known = |k: &str| !k.is_empty() && known_keys.iter().any(|x| x == k);
          explore_program(prog, *class, cfg, &mut stats, deadline, &mut |v| {
            if is_known(&v.key) {
              match local_known.get_mut(&v.key) { Some(e) => e.1 += 1, None => { local_known.insert(v.key.clone(), (v, 1)); } }
            } else if local.len() < 64 { local.push(v); }
          }, &is_known);
          if !local.is_empty() {
            let mut g = violations.lock().unwrap();
            for v in local { g.push((i, v)); }
          }
          if !local_known.is_empty() {
            let mut g = known.lock().unwrap();
            for (k, (v, n)) in local_known {
              match g.get_mut(&k) { Some(e) => { let e: &mut (usize, Violation, usize) = e; e.2 += n; if i < e.0 { e.0 = i; e.1 = v; } }, None => { g.insert(k, (i, v, n)); } }
            }
          }
        }
        total.lock().unwrap().merge(&stats);
      }).expect("cannot spawn worker thread");
    }
  });
  let mut vs = violations.into_inner().unwrap();
  // Deterministic order: program index (programs are enumerated smallest first), then history length.
  vs.sort_by(|a, b| a.0.cmp(&b.0).then_with(|| {
    let la = a.1.replay.get("history").and_then(|h| h.as_array()).map(|a| a.len()).unwrap_or(0);
    let lb = b.1.replay.get("history").and_then(|h| h.as_array()).map(|a| a.len()).unwrap_or(0);
    la.cmp(&lb)
  }));
  for (_, v) in vs { rep.violation(v); }
  let mut ks: Vec<(String, (usize, Violation, usize))> = known.into_inner().unwrap().into_iter().collect();
  ks.sort_by(|a, b| a.0.cmp(&b.0));
  for (_, (_, v, n)) in ks { rep.known_hits_n(v, n); }
  total.into_inner().unwrap()
}

fn rep_known_keys(rep: &Report) -> Vec<String> { rep.known_keys() }

pub fn fill_evidence(rep: &mut Report, cfg: &HistCfg, stats: &Stats, programs: &[(Prog, Class)], rule: &str, samples: Vec<Value>) {
  let exhaustive = !stats.wall_capped && stats.state_capped_programs == 0 && stats.depth_capped_programs == 0;
  rep.set("programs", json!(stats.programs));
  rep.set("states", json!(stats.states));
  rep.set("transitions", json!(stats.transitions));
  rep.set("traces_validated_against_impl", json!(stats.transitions));
  rep.set("sessions_executed_on_real_pie", json!(stats.sessions_executed));
  rep.set("max_depth", json!(stats.max_depth));
  rep.set("programs_explored_to_fixed_point", json!(stats.fixed_point_programs));
  rep.set("programs_cut_at_depth_bound", json!(stats.depth_capped_programs));
  rep.set("programs_cut_at_state_cap", json!(stats.state_capped_programs));
  rep.set("wall_cap_hit", json!(stats.wall_capped));
  rep.set("programs_abandoned_at_memory_cap", json!(stats.rss_capped_programs));
  rep.set("exhaustive", json!(exhaustive));
  rep.set("exhaustive_note", json!(if exhaustive { "every program of the enumerated space was explored to its fixed point (no new states)" } else { "complete up to the stated history depth for every program listed as cut at the depth bound; programs beyond a wall/state cap are not fully covered" }));
  rep.set("distinct_outcomes", json!({
    "distinct_step_traces": stats.distinct_traces,
    "builds_returned": stats.builds_returned,
    "aborts_by_kind": stats.aborts,
    "task_executions_in_returned_builds": stats.tasks_executed,
    "bottom_up_builds": stats.in_scope_bottom_up,
  }));
  rep.set("prefix_replays_compared", json!(stats.replays_checked));
  rep.set("unconfirmed_one_off_divergences", json!(stats.unconfirmed_divergences));
  rep.set("bounds", json!({
    "history_depth": cfg.depth, "max_roots_per_session": cfg.max_roots, "bottom_up": cfg.bottom_up, "bu_then": cfg.bu_then, "bu_pre": cfg.bu_pre,
    "over_report": cfg.bu_over_report, "two_bottom_up_builds_in_one_session": cfg.bu_twice, "set_fail": cfg.set_fail, "crashes_per_history": cfg.crashes, "state_cap_per_program": cfg.state_cap, "wall_cap_s": cfg.wall_cap,
  }));
  rep.set("rule", json!(rule));
  rep.set("evaluations", json!(stats.transitions));
  rep.set("distinct_nontrivial", json!(stats.distinct_traces));
  let mut s = samples;
  for (p, _) in programs.iter().take(2) { s.push(json!({"program": p.short()})); }
  rep.set("samples", Value::Array(s));
}

pub fn threads() -> usize { std::thread::available_parallelism().map(|n| n.get()).unwrap_or(4).min(16) }

pub fn tier_of(args: &Args) -> Tier { args.tier }
