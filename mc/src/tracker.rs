//! Full-fidelity recording tracker (all 23 `Tracker` methods, typed payloads obtained by downcasting).

use std::error::Error;
use std::fmt::Debug;

use pie::task::{AlwaysConsistent, EqualsChecker};
use pie::tracker::Tracker;
use pie::trait_object::{KeyObj, ValueObj};

use crate::prog::*;
use crate::world::{log, nest_enter, nest_exit, Ev, OCh, RCh, VRes, VTask};

/// Result of a resource check as seen by the tracker: Ok(None) consistent, Ok(Some(debug)) inconsistent, Err(text).
pub type ResCheck = Result<Option<String>, String>;

#[derive(Clone, PartialEq, Eq, Hash, Debug)]
pub enum TrkEv {
  BuildStart,
  BuildEnd,
  RequireStart(Tid, OC),
  RequireEnd(Tid, OC, OStamp, u8),
  ReadStart(Rid, RC),
  ReadEnd(Rid, RC, RStamp),
  WriteStart(Rid, RC),
  WriteEnd(Rid, RC, RStamp),
  CheckTaskStart(Tid, OC, OStamp),
  CheckTaskEnd(Tid, OC, OStamp, Option<String>),
  CheckResStart(Rid, RC, RStamp),
  CheckResEnd(Rid, RC, RStamp, ResCheck),
  ExecStart(Tid),
  ExecEnd(Tid, u8),
  SchedByTaskStart(Tid),
  /// requiring task, checker, stamp
  CheckReqTaskStart(Tid, OC, OStamp),
  CheckReqTaskEnd(Tid, OC, OStamp, Option<String>),
  SchedByTaskEnd(Tid),
  SchedByResStart(Rid),
  /// reading (or writing) task, checker, stamp
  CheckReadResStart(Tid, RC, RStamp),
  CheckReadResEnd(Tid, RC, RStamp, ResCheck),
  SchedByResEnd(Rid),
  ScheduleTask(Tid),
}

pub fn tid_of(task: &dyn KeyObj) -> Tid {
  if let Some(t) = task.as_any().downcast_ref::<VTask>() { return t.0; }
  // a resource where a task is expected: not ours to crash on; keep it visible in the stream (C17 compares streams)
  if let Some(r) = task.as_any().downcast_ref::<VRes>() { return 200 + r.0; }
  panic!("HARNESS-BUG: tracker got a task of unknown type: {:?}", task);
}
pub fn rid_of(resource: &dyn KeyObj) -> Rid {
  if let Some(r) = resource.as_any().downcast_ref::<VRes>() { return r.0; }
  if let Some(t) = resource.as_any().downcast_ref::<VTask>() { return 200 + t.0; }
  panic!("HARNESS-BUG: tracker got a resource of unknown type: {:?}", resource);
}
pub fn oc_of(checker: &dyn ValueObj) -> OC {
  let any = checker.as_any();
  if let Some(c) = any.downcast_ref::<OCh>() { return c.0; }
  if any.is::<EqualsChecker>() { return OC::PieEquals; }
  if any.is::<AlwaysConsistent>() { return OC::PieAlways; }
  if any.is::<crate::world::UnitCh>() { return OC::UnitPred; }
  panic!("HARNESS-BUG: tracker got an output checker of unknown type: {:?}", checker);
}
pub fn rc_of(checker: &dyn ValueObj) -> RC {
  if let Some(c) = checker.as_any().downcast_ref::<RCh>() { return c.0; }
  panic!("HARNESS-BUG: tracker got a resource checker of unknown type: {:?}", checker);
}
pub fn ostamp_of(stamp: &dyn ValueObj) -> OStamp {
  let any = stamp.as_any();
  if let Some(s) = any.downcast_ref::<OStamp>() { return *s; }
  if let Some(v) = any.downcast_ref::<u8>() { return OStamp::Val(*v); }
  if any.is::<()>() { return OStamp::Unit; }
  panic!("HARNESS-BUG: tracker got an output stamp of unknown type: {:?}", stamp);
}
pub fn rstamp_of(stamp: &dyn ValueObj) -> RStamp {
  if let Some(s) = stamp.as_any().downcast_ref::<RStamp>() { return *s; }
  panic!("HARNESS-BUG: tracker got a resource stamp of unknown type: {:?}", stamp);
}
pub fn out_of(output: &dyn ValueObj) -> u8 {
  if let Some(v) = output.as_any().downcast_ref::<u8>() { return *v; }
  panic!("HARNESS-BUG: tracker got an output of unknown type: {:?}", output);
}
fn inc(i: Option<&dyn Debug>) -> Option<String> { i.map(|d| format!("{:?}", d)) }
fn rinc(i: Result<Option<&dyn Debug>, &dyn Error>) -> ResCheck {
  match i {
    Ok(o) => Ok(o.map(|d| format!("{:?}", d))),
    Err(e) => Err(format!("{}", e)),
  }
}

/// Recording tracker. `to_log`: push into the worker's unified log (first child) or into an own vector (second).
#[derive(Default, Debug)]
pub struct Rec {
  pub to_log: bool,
  pub events: Vec<TrkEv>,
}

impl Rec {
  pub fn new(to_log: bool) -> Self { Rec { to_log, events: Vec::new() } }
  #[inline]
  fn push(&mut self, e: TrkEv) {
    if self.to_log { log(Ev::T(e)); } else { self.events.push(e); }
  }
}

impl Tracker for Rec {
  fn build_start(&mut self) { self.push(TrkEv::BuildStart); }
  fn build_end(&mut self) { self.push(TrkEv::BuildEnd); }
  fn require_start(&mut self, task: &dyn KeyObj, checker: &dyn ValueObj) {
    if self.to_log { nest_enter(); }
    self.push(TrkEv::RequireStart(tid_of(task), oc_of(checker)));
  }
  fn require_end(&mut self, task: &dyn KeyObj, checker: &dyn ValueObj, stamp: &dyn ValueObj, output: &dyn ValueObj) {
    if self.to_log { nest_exit(); }
    self.push(TrkEv::RequireEnd(tid_of(task), oc_of(checker), ostamp_of(stamp), out_of(output)));
  }
  fn read_start(&mut self, resource: &dyn KeyObj, checker: &dyn ValueObj) {
    self.push(TrkEv::ReadStart(rid_of(resource), rc_of(checker)));
  }
  fn read_end(&mut self, resource: &dyn KeyObj, checker: &dyn ValueObj, stamp: &dyn ValueObj) {
    self.push(TrkEv::ReadEnd(rid_of(resource), rc_of(checker), rstamp_of(stamp)));
  }
  fn write_start(&mut self, resource: &dyn KeyObj, checker: &dyn ValueObj) {
    self.push(TrkEv::WriteStart(rid_of(resource), rc_of(checker)));
  }
  fn write_end(&mut self, resource: &dyn KeyObj, checker: &dyn ValueObj, stamp: &dyn ValueObj) {
    self.push(TrkEv::WriteEnd(rid_of(resource), rc_of(checker), rstamp_of(stamp)));
  }
  fn check_task_start(&mut self, task: &dyn KeyObj, checker: &dyn ValueObj, stamp: &dyn ValueObj) {
    if self.to_log { nest_enter(); }
    self.push(TrkEv::CheckTaskStart(tid_of(task), oc_of(checker), ostamp_of(stamp)));
  }
  fn check_task_end(&mut self, task: &dyn KeyObj, checker: &dyn ValueObj, stamp: &dyn ValueObj, inconsistency: Option<&dyn Debug>) {
    if self.to_log { nest_exit(); }
    self.push(TrkEv::CheckTaskEnd(tid_of(task), oc_of(checker), ostamp_of(stamp), inc(inconsistency)));
  }
  fn check_resource_start(&mut self, resource: &dyn KeyObj, checker: &dyn ValueObj, stamp: &dyn ValueObj) {
    self.push(TrkEv::CheckResStart(rid_of(resource), rc_of(checker), rstamp_of(stamp)));
  }
  fn check_resource_end(&mut self, resource: &dyn KeyObj, checker: &dyn ValueObj, stamp: &dyn ValueObj, inconsistency: Result<Option<&dyn Debug>, &dyn Error>) {
    self.push(TrkEv::CheckResEnd(rid_of(resource), rc_of(checker), rstamp_of(stamp), rinc(inconsistency)));
  }
  fn execute_start(&mut self, task: &dyn KeyObj) { self.push(TrkEv::ExecStart(tid_of(task))); }
  fn execute_end(&mut self, task: &dyn KeyObj, output: &dyn ValueObj) {
    self.push(TrkEv::ExecEnd(tid_of(task), out_of(output)));
  }
  fn schedule_affected_by_task_start(&mut self, task: &dyn KeyObj) { self.push(TrkEv::SchedByTaskStart(tid_of(task))); }
  fn check_task_require_task_start(&mut self, requiring_task: &dyn KeyObj, checker: &dyn ValueObj, stamp: &dyn ValueObj) {
    self.push(TrkEv::CheckReqTaskStart(tid_of(requiring_task), oc_of(checker), ostamp_of(stamp)));
  }
  fn check_task_require_task_end(&mut self, requiring_task: &dyn KeyObj, checker: &dyn ValueObj, stamp: &dyn ValueObj, inconsistency: Option<&dyn Debug>) {
    self.push(TrkEv::CheckReqTaskEnd(tid_of(requiring_task), oc_of(checker), ostamp_of(stamp), inc(inconsistency)));
  }
  fn schedule_affected_by_task_end(&mut self, task: &dyn KeyObj) { self.push(TrkEv::SchedByTaskEnd(tid_of(task))); }
  fn schedule_affected_by_resource_start(&mut self, resource: &dyn KeyObj) { self.push(TrkEv::SchedByResStart(rid_of(resource))); }
  fn check_task_read_resource_start(&mut self, reading_task: &dyn KeyObj, checker: &dyn ValueObj, stamp: &dyn ValueObj) {
    self.push(TrkEv::CheckReadResStart(tid_of(reading_task), rc_of(checker), rstamp_of(stamp)));
  }
  fn check_task_read_resource_end(&mut self, reading_task: &dyn KeyObj, checker: &dyn ValueObj, stamp: &dyn ValueObj, inconsistency: Result<Option<&dyn Debug>, &dyn Error>) {
    self.push(TrkEv::CheckReadResEnd(tid_of(reading_task), rc_of(checker), rstamp_of(stamp), rinc(inconsistency)));
  }
  fn schedule_affected_by_resource_end(&mut self, resource: &dyn KeyObj) { self.push(TrkEv::SchedByResEnd(rid_of(resource))); }
  fn schedule_task(&mut self, task: &dyn KeyObj) { self.push(TrkEv::ScheduleTask(tid_of(task))); }
}
