use mc::common::parse_args;

fn main() {
  let args = parse_args();
  let code = match args.property.as_str() {
    "C10" | "C11" => mc::dag::run(&args),
    "C12" => mc::enum_checkers::run(&args),
    "C13" => mc::enum_files::run(&args),
    "C14" => mc::enum_map::run(&args),
    "C15" => mc::c15::run(&args),
    "smoke" => smoke(),
    "count" => count(),
    "C01" | "C02" | "C03" | "C04" | "C05" | "C06" | "C07" | "C08" | "C09" | "C16" | "C17" | "C18" | "C19" | "C20" => mc::checks::run(&args),
    other => { eprintln!("unknown property {}", other); 2 }
  };
  std::process::exit(code);
}

fn smoke() -> i32 {
  use mc::prog::*; use mc::runner::*;
  let st = |op| Stmt { guard: None, op };
  let p = Prog { n_res: 2, bodies: vec![
    vec![st(Op::Req(1, OC::Equals)), st(Op::Read(0, RC::Exact))],
    vec![st(Op::Read(1, RC::Exact)), st(Op::Write(0, Src::Acc, RC::Exact))],
  ]};
  let path = vec![
    PEvent::plain(Event::Set(1, Some(1))), PEvent::plain(Event::TopDown(vec![0])),
    PEvent::plain(Event::Set(1, Some(0))), PEvent::plain(Event::BottomUp{pre: vec![], reported: vec![1], then: vec![0], builds: 1}),
    PEvent::plain(Event::TopDown(vec![0, 1])),
  ];
  let t0 = std::time::Instant::now();
  let steps = run_history(&p, &path);
  for s in &steps {
    println!("== {} -> {:?} cells {:?} errs {:?}", s.pev.to_string(), s.outcome, &s.post_cells[..2], s.dep_errors);
    for e in &s.log { println!("   {:?}", e); }
    println!("   dump {}", s.dump.to_json());
  }
  let n = 20000;
  for _ in 0..n { let _ = run_history(&p, &path); }
  println!("{:.1} us per history", t0.elapsed().as_secs_f64() * 1e6 / n as f64);
  0
}

fn count() -> i32 {
  use mc::enumerate::*; use mc::m1::classify; use mc::prog::*;
  for (n, r, k) in [(4usize, 1u8, 2usize), (4, 1, 3), (3, 1, 3), (3, 1, 4)] {
    let t0 = std::time::Instant::now();
    let mut e = EnumCfg::structural(n, r, k);
    e.ocs = vec![OC::Equals, OC::PieAlways];
    e.srcs = vec![]; e.guard_vals = vec![1];
    e.mandatory_first = Some(Op::Read(0, RC::Exact));
    let all = enumerate(&e, |_| true);
    let mut wf = 0; let mut cyc = 0;
    for p in &all { let c = classify(p); if c.wf() { wf += 1; } else if c.flags.cycle { cyc += 1; } }
    println!("sf ({},{},{}): {} programs, wf {}, cyclic {} in {:.1}s", n, r, k, all.len(), wf, cyc, t0.elapsed().as_secs_f64());
  }
  0
}
