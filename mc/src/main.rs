use mc::common::parse_args;

fn main() {
  let args = parse_args();
  let code = match args.property.as_str() {
    "C10" | "C11" => mc::dag::run(&args),
    "C12" => mc::enum_checkers::run(&args),
    "C13" => mc::enum_files::run(&args),
    "C14" => mc::enum_map::run(&args),
    other => { eprintln!("unknown property {}", other); 2 }
  };
  std::process::exit(code);
}
