//! Harness-side pie types: resource `VRes` with its `World` state kept in pie's real per-resource-type state, the
//! logging checkers, the task type `VTask` interpreting the worker's current program, and the unified event log.

use std::cell::{Cell as StdCell, RefCell};
use std::convert::Infallible;
use std::fmt::{self, Debug};

use pie::task::{AlwaysConsistent, EqualsChecker};
use pie::{Context, OutputChecker, Resource, ResourceChecker, ResourceState, Task};

use crate::prog::*;
use crate::tracker::TrkEv;

/// One entry of the unified, totally ordered event log of a worker thread.
#[derive(Clone, PartialEq, Eq, Hash, Debug)]
pub enum Ev {
  /// tracker event (as received by the first recording tracker)
  T(TrkEv),
  // ---- explorer side
  RootReq(Tid),
  RootRet(Tid, u8),
  /// a require of a session that is kept after a caught panic aborted: message, file, line
  RootAbort(Tid, String, String, u32),
  BottomUpStart,
  BottomUpSchedule(Rid),
  BottomUpUpdate,
  BottomUpDone,
  // ---- task side
  Enter(Tid),
  Exit(Tid, u8),
  CallReq(Tid, usize, Tid, OC),
  RetReq(Tid, usize, Tid, u8),
  CallRead(Tid, usize, Rid, RC),
  /// the reader handed to the task: serial, content it yielded
  RetRead(Tid, usize, Rid, u32, Cell),
  CallWrite(Tid, usize, Rid, RC, bool),
  RetWrite(Tid, usize, Rid),
  /// a declared write (`written_to`) returned an error (the stamp failed): no dependency was recorded
  RetWriteErr(Tid, usize, Rid),
  Tick(Tid, usize),
  // ---- world side
  /// `Resource::read` created reader `serial` seeing `cell`
  ResRead(Rid, u32, Cell),
  /// `Resource::write` created writer `serial`
  ResWrite(Rid, u32),
  /// a writer stored a value
  Store(Rid, u32, u8),
  /// a reader yielded its content to the task
  Consume(Rid, u32),
  // ---- checker side
  RcStamp(RC, Rid, RStamp),
  /// serial, was the reader already consumed when stamped?
  RcStampReader(RC, Rid, u32, bool, RStamp),
  RcStampWriter(RC, Rid, u32, RStamp),
  /// stamp checked against, result: Ok(consistent) / Err(())
  RcCheck(RC, Rid, RStamp, Result<bool, ()>),
  OcStamp(OC, u8, OStamp),
  OcCheck(OC, u8, OStamp, bool),
}

thread_local! {
  pub static LOG: RefCell<Vec<Ev>> = RefCell::new(Vec::new());
  pub static PROGRAM: RefCell<Option<Prog>> = RefCell::new(None);
  static TICKS: StdCell<usize> = StdCell::new(0);
  static CRASH_AT: StdCell<Option<usize>> = StdCell::new(None);
  static DEPTH: StdCell<usize> = StdCell::new(0);
  static NEST: StdCell<usize> = StdCell::new(0);
  static STAMP_FAILS: StdCell<bool> = StdCell::new(false);
}

/// Whether a set failure flag also makes the PATH stamp route (used by `written_to` only) fail (C05/C06 group).
pub fn set_stamp_failures(on: bool) { STAMP_FAILS.with(|s| s.set(on)); }
thread_local! {
  static DECL_DIRECT: StdCell<bool> = StdCell::new(false);
  static PENDING_DIRECT: StdCell<Option<(Rid, u8)>> = StdCell::new(None);
}
/// Whether declared writes bypass `create_writer`: the task "produces the file by other means" and only declares it
/// with `written_to`. The harness makes the content appear when `written_to` stamps the resource (the path stamp
/// route is used by `written_to` only), so pie never sees a writer being created.
pub fn set_decl_direct(on: bool) { DECL_DIRECT.with(|s| s.set(on)); PENDING_DIRECT.with(|p| p.set(None)); }

/// Nesting depth of require/check operations as seen by the recording tracker: bounds recursion that does not pass
/// through task executions (cyclic validation), so that a missed cycle is a verdict instead of a stack overflow.
pub fn nest_enter() {
  let d = NEST.with(|n| { let v = n.get() + 1; n.set(v); v });
  if d > 4 * (task_bound() + 2) {
    NEST.with(|n| n.set(0));
    panic!("{}", RECURSION_MSG);
  }
}
pub fn nest_exit() { NEST.with(|n| n.set(n.get().saturating_sub(1))); }

pub const TASK_PANIC_MSG: &str = "VERIF-TASK-PANIC";
pub const CRASH_MSG: &str = "VERIF-INJECTED-CRASH";
pub const RECURSION_MSG: &str = "VERIF-RECURSION-BOUND";

/// A single build step never produces anywhere near this many events in the explored space (tens to hundreds): beyond
/// it the build is not terminating, and the harness stops it instead of letting the log eat the machine's memory.
pub const RUNAWAY_MSG: &str = "VERIF-RUNAWAY-BOUND";
pub const RUNAWAY_EVENTS: usize = 200_000;

#[inline]
pub fn log(ev: Ev) {
  let n = LOG.with(|l| { let mut l = l.borrow_mut(); l.push(ev); l.len() });
  if n == RUNAWAY_EVENTS { panic!("{}", RUNAWAY_MSG); }
}
pub fn take_log() -> Vec<Ev> { LOG.with(|l| std::mem::take(&mut *l.borrow_mut())) }
pub fn set_program(p: Option<Prog>) {
  TASK_BOUND.with(|b| b.set(p.as_ref().map(|p| p.bodies.len()).unwrap_or(0).max(MAX_TASKS)));
  PROGRAM.with(|c| *c.borrow_mut() = p);
}
thread_local! { static TASK_BOUND: StdCell<usize> = StdCell::new(MAX_TASKS); }
fn task_bound() -> usize { TASK_BOUND.with(|b| b.get()) }
pub fn reset_ticks(crash_at: Option<usize>) {
  TICKS.with(|t| t.set(0));
  CRASH_AT.with(|c| c.set(crash_at));
  DEPTH.with(|d| d.set(0));
  NEST.with(|n| n.set(0));
}
pub fn ticks() -> usize { TICKS.with(|t| t.get()) }
/// A crash point. Panics when the injected crash index is reached.
pub fn tick(t: Tid) {
  let n = TICKS.with(|c| { let n = c.get(); c.set(n + 1); n });
  log(Ev::Tick(t, n));
  if CRASH_AT.with(|c| c.get()) == Some(n) {
    CRASH_AT.with(|c| c.set(None));
    panic!("{} at tick {}", CRASH_MSG, n);
  }
}

// ------------------------------------------------------------------------------------------------ resource

/// State of all `VRes` resources; lives in pie's resource state for type `VRes`.
#[derive(Default, Clone, Debug, PartialEq, Eq)]
pub struct World {
  pub cells: [Cell; MAX_RES],
  pub fail: [bool; MAX_RES],
  pub serial: u32,
}

#[derive(Clone, Copy, PartialEq, Eq, Hash, Debug)]
pub struct VRes(pub u8);

pub struct VReader {
  pub r: Rid,
  pub serial: u32,
  pub cell: Cell,
  pub consumed: bool,
}

impl VReader {
  /// The task reads the content.
  pub fn get(&mut self) -> Cell {
    self.consumed = true;
    log(Ev::Consume(self.r, self.serial));
    self.cell
  }
}

pub struct VWriter<'r> {
  pub world: &'r mut World,
  pub r: Rid,
  pub serial: u32,
}

impl VWriter<'_> {
  pub fn store(&mut self, v: u8) {
    self.world.cells[self.r as usize] = Some(v);
    log(Ev::Store(self.r, self.serial, v));
  }
}

impl Resource for VRes {
  type Reader<'rs> = VReader;
  type Writer<'r> = VWriter<'r>;
  type Error = Infallible;

  fn read<'rs, RS: ResourceState<Self>>(&self, state: &'rs mut RS) -> Result<VReader, Infallible> {
    let w = state.get_or_set_default_mut::<World>();
    w.serial += 1;
    let cell = w.cells[self.0 as usize];
    log(Ev::ResRead(self.0, w.serial, cell));
    Ok(VReader { r: self.0, serial: w.serial, cell, consumed: false })
  }

  fn write<'r, RS: ResourceState<Self>>(&'r self, state: &'r mut RS) -> Result<VWriter<'r>, Infallible> {
    let w = state.get_or_set_default_mut::<World>();
    w.serial += 1;
    let serial = w.serial;
    log(Ev::ResWrite(self.0, serial));
    Ok(VWriter { world: w, r: self.0, serial })
  }
}

#[derive(Clone, Debug)]
pub struct VErr(pub String);
impl fmt::Display for VErr {
  fn fmt(&self, f: &mut fmt::Formatter<'_>) -> fmt::Result { write!(f, "VErr({})", self.0) }
}
impl std::error::Error for VErr {}

/// Harness resource checker.
#[derive(Clone, Copy, PartialEq, Eq, Hash, Debug)]
pub struct RCh(pub RC);

impl ResourceChecker<VRes> for RCh {
  type Stamp = RStamp;
  type Error = VErr;

  fn stamp<RS: ResourceState<VRes>>(&self, resource: &VRes, state: &mut RS) -> Result<RStamp, VErr> {
    let w = state.get_or_set_default_mut::<World>();
    if let Some((r, v)) = PENDING_DIRECT.with(|p| p.take()) {
      if r == resource.0 {
        w.serial += 1;
        log(Ev::ResWrite(r, w.serial));
        w.cells[r as usize] = Some(v);
        log(Ev::Store(r, w.serial, v));
      }
    }
    if self.0 == RC::Faulty && w.fail[resource.0 as usize] && STAMP_FAILS.with(|s| s.get()) {
      // the path route is only used by `written_to`: an injected failure of the stamp at declaration time
      return Err(VErr(format!("injected failure stamping r{}", resource.0)));
    }
    let s = self.0.stamp_of(w.cells[resource.0 as usize]);
    log(Ev::RcStamp(self.0, resource.0, s));
    Ok(s)
  }

  fn stamp_reader(&self, resource: &VRes, reader: &mut VReader) -> Result<RStamp, VErr> {
    let s = self.0.stamp_of(reader.cell);
    log(Ev::RcStampReader(self.0, resource.0, reader.serial, reader.consumed, s));
    Ok(s)
  }

  fn stamp_writer(&self, resource: &VRes, writer: VWriter<'_>) -> Result<RStamp, VErr> {
    let s = self.0.stamp_of(writer.world.cells[resource.0 as usize]);
    log(Ev::RcStampWriter(self.0, resource.0, writer.serial, s));
    Ok(s)
  }

  fn check<RS: ResourceState<VRes>>(&self, resource: &VRes, state: &mut RS, stamp: &RStamp) -> Result<Option<impl Debug>, VErr> {
    let w = state.get_or_set_default_mut::<World>();
    if self.0 == RC::Faulty && w.fail[resource.0 as usize] {
      log(Ev::RcCheck(self.0, resource.0, *stamp, Err(())));
      return Err(VErr(format!("injected failure checking r{}", resource.0)));
    }
    let now = self.0.stamp_of(w.cells[resource.0 as usize]);
    let consistent = now == *stamp;
    log(Ev::RcCheck(self.0, resource.0, *stamp, Ok(consistent)));
    Ok(if consistent { None } else { Some(now) })
  }

  fn wrap_error(&self, error: Infallible) -> VErr { match error {} }
}

/// Harness output checker (logging).
#[derive(Clone, Copy, PartialEq, Eq, Hash, Debug)]
pub struct OCh(pub OC);

impl OutputChecker<u8> for OCh {
  type Stamp = OStamp;
  fn stamp(&self, output: &u8) -> OStamp {
    let s = self.0.stamp_of(*output);
    log(Ev::OcStamp(self.0, *output, s));
    s
  }
  fn check(&self, output: &u8, stamp: &OStamp) -> Option<impl Debug> {
    let consistent = self.0.consistent(*output, *stamp);
    log(Ev::OcCheck(self.0, *output, *stamp, consistent));
    if consistent { None } else { Some(self.0.stamp_of(*output)) }
  }
}

/// Output checker with a genuinely zero-sized stamp type `()` whose `check` still looks at the output (`OC::UnitPred`).
#[derive(Clone, Copy, PartialEq, Eq, Hash, Debug)]
pub struct UnitCh;

impl OutputChecker<u8> for UnitCh {
  type Stamp = ();
  fn stamp(&self, output: &u8) {
    log(Ev::OcStamp(OC::UnitPred, *output, OStamp::Unit));
  }
  fn check(&self, output: &u8, _stamp: &()) -> Option<impl Debug> {
    let consistent = OC::UnitPred.consistent(*output, OStamp::Unit);
    log(Ev::OcCheck(OC::UnitPred, *output, OStamp::Unit, consistent));
    if consistent { None } else { Some(*output) }
  }
}

// ------------------------------------------------------------------------------------------------ task

/// The task type: interprets body `self.0` of the worker's current program.
#[derive(Clone, Copy, PartialEq, Eq, Hash, Debug)]
pub struct VTask(pub Tid);

struct RealEnv<'c, C: Context> { ctx: &'c mut C }

impl<C: Context> Env for RealEnv<'_, C> {
  fn require(&mut self, caller: Tid, stmt: usize, callee: Tid, oc: OC) -> Result<u8, ()> {
    log(Ev::CallReq(caller, stmt, callee, oc));
    let out = match oc {
      OC::PieEquals => self.ctx.require(&VTask(callee), EqualsChecker),
      OC::PieAlways => self.ctx.require(&VTask(callee), AlwaysConsistent),
      OC::UnitPred => self.ctx.require(&VTask(callee), UnitCh),
      o => self.ctx.require(&VTask(callee), OCh(o)),
    };
    log(Ev::RetReq(caller, stmt, callee, out));
    Ok(out)
  }

  fn read(&mut self, caller: Tid, stmt: usize, r: Rid, rc: RC) -> Result<Cell, ()> {
    log(Ev::CallRead(caller, stmt, r, rc));
    let mut reader = match self.ctx.read(&VRes(r), RCh(rc)) {
      Ok(reader) => reader,
      Err(e) => panic!("HARNESS-BUG: Context::read returned an error: {}", e),
    };
    let cell = reader.get();
    let serial = reader.serial;
    drop(reader);
    log(Ev::RetRead(caller, stmt, r, serial, cell));
    Ok(cell)
  }

  fn write(&mut self, caller: Tid, stmt: usize, r: Rid, value: u8, rc: RC, declared: bool) -> Result<(), ()> {
    log(Ev::CallWrite(caller, stmt, r, rc, declared));
    if declared && DECL_DIRECT.with(|d| d.get()) {
      tick(caller);
      PENDING_DIRECT.with(|p| p.set(Some((r, value))));
      let result = self.ctx.written_to(&VRes(r), RCh(rc));
      PENDING_DIRECT.with(|p| p.set(None));
      if let Err(_e) = result {
        log(Ev::RetWriteErr(caller, stmt, r));
        return Ok(());
      }
    } else if declared {
      let res = VRes(r);
      {
        let mut writer = match self.ctx.create_writer(&res) {
          Ok(w) => w,
          Err(e) => match e {},
        };
        tick(caller);
        writer.store(value);
        tick(caller);
      }
      if let Err(_e) = self.ctx.written_to(&res, RCh(rc)) {
        // the stamp failed (injected): the task carries on without a recorded dependency
        log(Ev::RetWriteErr(caller, stmt, r));
        return Ok(());
      }
    } else {
      let result = self.ctx.write(&VRes(r), RCh(rc), |w| {
        tick(caller);
        w.store(value);
        tick(caller);
        Ok(())
      });
      if let Err(e) = result {
        panic!("HARNESS-BUG: Context::write returned an error: {}", e);
      }
    }
    log(Ev::RetWrite(caller, stmt, r));
    Ok(())
  }

  fn task_panic(&mut self, caller: Tid, stmt: usize) -> Result<(), ()> {
    panic!("{} in T{} at statement {}", TASK_PANIC_MSG, caller, stmt);
  }

  fn tick(&mut self, caller: Tid) { tick(caller); }
}

impl Task for VTask {
  type Output = u8;

  fn execute<C: Context>(&self, context: &mut C) -> u8 {
    let body: Vec<Stmt> = PROGRAM.with(|p| {
      let p = p.borrow();
      let prog = p.as_ref().unwrap_or_else(|| panic!("HARNESS-BUG: no program installed"));
      prog.bodies.get(self.0 as usize).cloned().unwrap_or_else(|| panic!("HARNESS-BUG: task T{} not in program", self.0))
    });
    let depth = DEPTH.with(|d| { let v = d.get() + 1; d.set(v); v });
    if depth > task_bound() + 2 {
      // Bounds recursion: a cycle that pie does not diagnose shows up here instead of as a stack overflow.
      panic!("{}", RECURSION_MSG);
    }
    log(Ev::Enter(self.0));
    let mut env = RealEnv { ctx: context };
    let out = match interpret(&mut env, self.0, &body) {
      Ok(out) => out,
      Err(()) => panic!("HARNESS-BUG: real environment returned Err"),
    };
    log(Ev::Exit(self.0, out));
    DEPTH.with(|d| d.set(d.get() - 1));
    out
  }
}
