//! Model-checking harness for Gohla/pie (see /verif/DESIGN.md).
pub mod common;
pub mod dag;
pub mod enum_checkers;
pub mod enum_files;
pub mod enum_map;
