//! Model-checking harness for Gohla/pie (see /verif/DESIGN.md).
pub mod common;
pub mod dag;
pub mod enum_checkers;
pub mod enum_files;
pub mod enum_map;
pub mod prog;
pub mod world;
pub mod tracker;
pub mod dump;
pub mod m1;
pub mod runner;
pub mod enumerate;
pub mod analyze;
pub mod hist;
pub mod checks;
pub mod c17;
pub mod c15;
