//! Shared plumbing: command line, evidence files, violation/replay artefacts, known findings, exit codes.
//!
//! Exit codes: 0 = property held on everything explored (known findings allowed), 1 = violation (a `VIOLATION` line
//! was printed), 2 = usage / build problem, 3 = engine error (harness bug, non-reproducible execution, cap misuse).
//! Only exit code 1 is a verdict.

use std::collections::BTreeMap;
use std::fs;
use std::path::PathBuf;
use std::time::Instant;

use serde_json::{json, Map, Value};

/// Home of the verification machinery: `/verif`, or `$VERIF_HOME` (set by the driver script when it runs from a
/// snapshot copy, so that a background run does not write into the live directory).
pub fn verif_dir() -> String { std::env::var("VERIF_HOME").unwrap_or_else(|_| "/verif".to_string()) }

#[derive(Clone, Copy, PartialEq, Eq, Debug)]
pub enum Tier { Quick, Thorough }

impl Tier {
  pub fn as_str(&self) -> &'static str { match self { Tier::Quick => "quick", Tier::Thorough => "thorough" } }
}

#[derive(Clone, Debug)]
pub struct Args {
  pub property: String,
  pub tier: Tier,
  pub replay: Option<PathBuf>,
  pub seed: i64,
  pub extra: Vec<String>,
}

pub fn parse_args() -> Args {
  let argv: Vec<String> = std::env::args().collect();
  if argv.len() < 2 {
    eprintln!("usage: mc <property-id> [quick|thorough] [--replay <file>]");
    std::process::exit(2);
  }
  let property = argv[1].clone();
  let mut tier = match std::env::var("VERIF_TIER").ok().as_deref() {
    Some("thorough") => Tier::Thorough,
    _ => Tier::Quick,
  };
  let mut replay = None;
  let mut extra = Vec::new();
  let mut i = 2;
  while i < argv.len() {
    match argv[i].as_str() {
      "quick" => tier = Tier::Quick,
      "thorough" => tier = Tier::Thorough,
      "--replay" => {
        i += 1;
        replay = Some(PathBuf::from(argv.get(i).cloned().unwrap_or_else(|| {
          eprintln!("--replay needs a file");
          std::process::exit(2)
        })));
      }
      other => extra.push(other.to_string()),
    }
    i += 1;
  }
  let seed = std::env::var("VERIF_SEED").ok().and_then(|s| s.parse::<i64>().ok()).unwrap_or(0);
  Args { property, tier, replay, seed, extra }
}

/// Engine error: never a verdict.
pub fn engine_error(msg: &str) -> ! {
  eprintln!("ENGINE-ERROR: {}", msg);
  std::process::exit(3);
}

/// One violation found by a check, before classification against the known-findings file.
#[derive(Clone, Debug)]
pub struct Violation {
  pub property: String,
  /// Which oracle failed (stable identifier, e.g. `C01/output`).
  pub oracle: String,
  /// Machine-computed signature used to match known findings (e.g. `C20/stale-edge/overlap`); empty = none.
  pub key: String,
  /// Human readable description.
  pub what: String,
  /// Everything needed to replay: program, history, expected vs observed.
  pub replay: Value,
}

/// Known findings file: `/verif/known_findings.json`, never written at run time.
#[derive(Clone, Debug, Default)]
pub struct KnownFindings {
  /// open entries: (property, key, what). Keys are globally unique (prefixed with the property they belong to).
  pub open: Vec<(String, String, String)>,
}

impl KnownFindings {
  pub fn load() -> Self {
    let path = format!("{}/known_findings.json", verif_dir());
    let mut kf = KnownFindings::default();
    let Ok(text) = fs::read_to_string(&path) else { return kf; };
    let v: Value = match serde_json::from_str(&text) {
      Ok(v) => v,
      Err(e) => engine_error(&format!("known_findings.json does not parse: {}", e)),
    };
    if let Some(list) = v.get("findings").and_then(|f| f.as_array()) {
      for f in list {
        let status = f.get("status").and_then(|s| s.as_str()).unwrap_or("open");
        if status != "open" { continue; } // `fixed` entries suppress nothing.
        let prop = f.get("property").and_then(|s| s.as_str()).unwrap_or("").to_string();
        let key = f.get("key").and_then(|s| s.as_str()).unwrap_or("").to_string();
        let what = f.get("what").and_then(|s| s.as_str()).unwrap_or("").to_string();
        kf.open.push((prop, key, what));
      }
    }
    kf
  }
  /// A listed open finding with this key (of whatever property: a check may meet a finding recorded under another
  /// property, e.g. C19 meets C20's stale-edge aborts; it is reported under the property it is listed for).
  pub fn matches(&self, key: &str) -> Option<&(String, String, String)> {
    if key.is_empty() { return None; }
    self.open.iter().find(|(_, k, _)| k == key)
  }
}

fn fnv64(bytes: &[u8]) -> u64 {
  let mut h: u64 = 0xcbf29ce484222325;
  for b in bytes {
    h ^= *b as u64;
    h = h.wrapping_mul(0x100000001b3);
  }
  h
}

/// Collects the outcome of one check run and writes evidence / replay artefacts.
pub struct Report {
  pub property: String,
  pub tier: Tier,
  pub seed: i64,
  pub level: &'static str,
  start: Instant,
  pub coverage: Map<String, Value>,
  pub assumptions: Vec<String>,
  violations: Vec<Violation>,
  known_hits: BTreeMap<String, (String, u64, Value)>,
  kf: KnownFindings,
  /// Cap on the number of distinct violations kept (the first ones are the smallest).
  pub max_violations: usize,
  pub replay_mode: bool,
}

impl Report {
  pub fn new(args: &Args) -> Self {
    Report {
      property: args.property.clone(),
      tier: args.tier,
      seed: args.seed,
      level: "model_checking",
      start: Instant::now(),
      coverage: Map::new(),
      assumptions: Vec::new(),
      violations: Vec::new(),
      known_hits: BTreeMap::new(),
      kf: KnownFindings::load(),
      max_violations: 5,
      replay_mode: args.replay.is_some(),
    }
  }

  pub fn elapsed(&self) -> f64 { self.start.elapsed().as_secs_f64() }

  pub fn set(&mut self, key: &str, value: Value) { self.coverage.insert(key.to_string(), value); }

  pub fn assume(&mut self, text: &str) { self.assumptions.push(text.to_string()); }

  /// Is `key` a listed (open) known finding of this property?
  pub fn is_known(&self, key: &str) -> bool { self.kf.matches(key).is_some() }
  pub fn known_keys(&self) -> Vec<String> { self.kf.open.iter().map(|(_, k, _)| k.clone()).collect() }

  /// Record a violation; it is classified against the known findings by its key.
  pub fn violation(&mut self, v: Violation) {
    if self.kf.matches(&v.key).is_some() {
      let e = self.known_hits.entry(v.key.clone()).or_insert((v.what.clone(), 0, v.replay.clone()));
      e.1 += 1;
      return;
    }
    if self.violations.len() < self.max_violations
      && !self.violations.iter().any(|o| o.oracle == v.oracle && o.key == v.key && o.replay == v.replay) {
      self.violations.push(v);
    }
  }

  /// `n` occurrences of a finding whose key is listed in the known-findings file (one sample kept).
  pub fn known_hits_n(&mut self, v: Violation, n: usize) {
    if self.kf.matches(&v.key).is_none() { self.violation(v); return; }
    let e = self.known_hits.entry(v.key.clone()).or_insert((v.what.clone(), 0, v.replay.clone()));
    e.1 += n as u64;
  }

  pub fn violation_count(&self) -> usize { self.violations.len() }

  /// Writes evidence, prints KNOWN-FINDING / VIOLATION lines, and returns the exit code.
  pub fn finish(mut self) -> i32 {
    let wall = self.elapsed();
    // Known findings: one line per listed entry of this property that was met in this run.
    let mut known_json = Vec::new();
    for (prop, key, what) in &self.kf.open {
      if let Some((_w, n, sample)) = self.known_hits.get(key) {
        println!("KNOWN-FINDING: property={} {} [{}; met {} times in this run of {}]", prop, what, key, n, self.property);
        known_json.push(json!({"property": prop, "key": key, "what": what, "times_met": n, "sample": sample}));
      } else if *prop == self.property {
        known_json.push(json!({"property": prop, "key": key, "what": what, "times_met": 0}));
      }
    }
    self.coverage.insert("known_findings_met".into(), Value::Array(known_json));
    let mut exit = 0;
    let _ = fs::create_dir_all(format!("{}/replays", verif_dir()));
    for v in &self.violations {
      let text = serde_json::to_string_pretty(&json!({
        "property": v.property, "oracle": v.oracle, "key": v.key, "what": v.what, "replay": v.replay,
      })).unwrap();
      let digest = fnv64(text.as_bytes());
      let path = format!("{}/replays/{}-{:016x}.json", verif_dir(), v.property, digest);
      if let Err(e) = fs::write(&path, &text) { engine_error(&format!("cannot write replay {}: {}", path, e)); }
      println!("VIOLATION property={} replay={}", v.property, path);
      println!("  oracle={} key={} what={}", v.oracle, v.key, v.what);
      exit = 1;
    }
    let evidence = json!({
      "property_id": self.property,
      "tier": self.tier.as_str(),
      "seed": self.seed,
      "level": self.level,
      "coverage": Value::Object(self.coverage.clone()),
      "assumptions": self.assumptions,
      "wall_s": wall,
      "violations": self.violations.len(),
    });
    let _ = fs::create_dir_all(format!("{}/evidence", verif_dir()));
    // a replay of one recorded history must not overwrite the evidence of the property's check
    let path = if self.replay_mode { { let _ = fs::create_dir_all(format!("{}/replays", verif_dir())); format!("{}/replays/{}.replay-evidence.json", verif_dir(), self.property) } } else { format!("{}/evidence/{}.json", verif_dir(), self.property) };
    if let Err(e) = fs::write(&path, serde_json::to_string_pretty(&evidence).unwrap()) {
      engine_error(&format!("cannot write evidence {}: {}", path, e));
    }
    println!("{} {}: {} violation(s), wall {:.1}s, evidence {}", self.property, self.tier.as_str(), self.violations.len(), wall, path);
    exit
  }
}
