//! The interpreted task-program alphabet (DESIGN §3.3) and its body interpreter, shared by the real task type
//! (running against pie's `Context`) and the from-scratch reference model.

use serde_json::{json, Value};

pub type Tid = u8;
pub type Rid = u8;
/// Content of a resource cell: absent, 0 or 1.
pub type Cell = Option<u8>;
pub const MAX_RES: usize = 4;
pub const MAX_TASKS: usize = 16;

/// Resource checker kinds of the harness checker type.
#[derive(Clone, Copy, PartialEq, Eq, Hash, PartialOrd, Ord, Debug)]
pub enum RC {
  /// stamp = content
  Exact,
  /// stamp = present?
  Exists,
  /// stamp = (), never inconsistent
  Always,
  /// = Exact, but `check` returns `Err` while the world's failure flag of the resource is set
  Faulty,
}

/// Output checker kinds.
#[derive(Clone, Copy, PartialEq, Eq, Hash, PartialOrd, Ord, Debug)]
pub enum OC {
  /// harness checker, equality, logging
  Equals,
  /// harness checker, coarse: stamp = (output == 0), logging
  IsZero,
  /// harness checker, always consistent, logging
  Always,
  /// harness checker with a NON-transitive relation: stamp = output, consistent iff |output - stamp| <= 1 (a
  /// tolerance checker; the requirer observes nothing). Consistency must be decided against the stamp taken when the
  /// dependency was created, not against a later output that was merely found consistent.
  Near,
  /// harness checker with a zero-sized stamp that nevertheless inspects the output: stamp = (), consistent iff the
  /// output is not 2 (the requirer observes nothing). A unit stamp does not mean "always consistent".
  UnitPred,
  /// pie's own `EqualsChecker`
  PieEquals,
  /// pie's own `AlwaysConsistent`
  PieAlways,
}

/// Stamp of a resource dependency.
#[derive(Clone, Copy, PartialEq, Eq, Hash, PartialOrd, Ord, Debug)]
pub enum RStamp { Val(Cell), Ex(bool), Unit }

/// Stamp of a require dependency.
#[derive(Clone, Copy, PartialEq, Eq, Hash, PartialOrd, Ord, Debug)]
pub enum OStamp { Val(u8), Zero(bool), Unit }

impl RC {
  /// The abstraction of a cell this checker stamps (the property's "what the checker observes").
  pub fn stamp_of(&self, cell: Cell) -> RStamp {
    match self {
      RC::Exact | RC::Faulty => RStamp::Val(cell),
      RC::Exists => RStamp::Ex(cell.is_some()),
      RC::Always => RStamp::Unit,
    }
  }
  /// What a task may observe of a cell read with this checker: a function of the stamp only. `None` = nothing.
  pub fn observe(&self, cell: Cell) -> Option<u8> {
    match self {
      RC::Exact | RC::Faulty => Some(match cell { None => 2, Some(v) => v }),
      RC::Exists => Some(cell.is_some() as u8),
      RC::Always => None,
    }
  }
  pub fn name(&self) -> &'static str {
    match self { RC::Exact => "Exact", RC::Exists => "Exists", RC::Always => "Always", RC::Faulty => "Faulty" }
  }
}

impl OC {
  pub fn stamp_of(&self, out: u8) -> OStamp {
    match self {
      OC::Equals | OC::PieEquals | OC::Near => OStamp::Val(out),
      OC::IsZero => OStamp::Zero(out == 0),
      OC::Always | OC::PieAlways | OC::UnitPred => OStamp::Unit,
    }
  }
  pub fn observe(&self, out: u8) -> Option<u8> {
    match self {
      OC::Equals | OC::PieEquals => Some(out),
      OC::IsZero => Some((out != 0) as u8),
      OC::Always | OC::PieAlways | OC::Near | OC::UnitPred => None,
    }
  }
  /// Reference relation: is an output `out` consistent with `stamp`?
  pub fn consistent(&self, out: u8, stamp: OStamp) -> bool {
    match (self, stamp) {
      (OC::Near, OStamp::Val(s)) => (out as i16 - s as i16).abs() <= 1,
      (OC::UnitPred, OStamp::Unit) => out != 2,
      _ => self.stamp_of(out) == stamp,
    }
  }
  pub fn name(&self) -> &'static str {
    match self {
      OC::Equals => "Equals", OC::IsZero => "IsZero", OC::Always => "Always", OC::Near => "Near", OC::UnitPred => "UnitPred",
      OC::PieEquals => "PieEquals", OC::PieAlways => "PieAlways",
    }
  }
  pub fn is_exact(&self) -> bool { matches!(self, OC::Equals | OC::PieEquals) }
}

/// Source of a written value.
#[derive(Clone, Copy, PartialEq, Eq, Hash, PartialOrd, Ord, Debug)]
pub enum Src { Acc, One, Zero }

impl Src {
  pub fn value(&self, acc: u8) -> u8 { match self { Src::Acc => acc % 2, Src::One => 1, Src::Zero => 0 } }
}

#[derive(Clone, Copy, PartialEq, Eq, Hash, PartialOrd, Ord, Debug)]
pub enum Op {
  Req(Tid, OC),
  Read(Rid, RC),
  /// via `Context::write`
  Write(Rid, Src, RC),
  /// via `create_writer` + `written_to`
  WriteDecl(Rid, Src, RC),
  /// the task body panics (C19 runs only)
  Panic,
}

#[derive(Clone, Copy, PartialEq, Eq, Hash, PartialOrd, Ord, Debug)]
pub struct Stmt {
  /// execute only `if acc == v`
  pub guard: Option<u8>,
  pub op: Op,
}

#[derive(Clone, PartialEq, Eq, Hash, PartialOrd, Ord, Debug)]
pub struct Prog {
  pub n_res: u8,
  pub bodies: Vec<Vec<Stmt>>,
}

impl Prog {
  pub fn n_tasks(&self) -> usize { self.bodies.len() }
  pub fn size(&self) -> usize { self.bodies.iter().map(|b| b.len()).sum() }

  pub fn to_json(&self) -> Value {
    json!({
      "n_res": self.n_res,
      "tasks": self.bodies.iter().enumerate().map(|(t, b)| json!({
        "task": format!("T{}", t),
        "body": b.iter().map(stmt_to_string).collect::<Vec<_>>(),
      })).collect::<Vec<_>>(),
    })
  }

  pub fn from_json(v: &Value) -> Result<Prog, String> {
    let n_res = v.get("n_res").and_then(|x| x.as_u64()).ok_or("n_res")? as u8;
    let mut bodies = Vec::new();
    for t in v.get("tasks").and_then(|x| x.as_array()).ok_or("tasks")? {
      let mut body = Vec::new();
      for s in t.get("body").and_then(|x| x.as_array()).ok_or("body")? {
        body.push(stmt_from_string(s.as_str().ok_or("stmt")?)?);
      }
      bodies.push(body);
    }
    Ok(Prog { n_res, bodies })
  }

  pub fn short(&self) -> String {
    self.bodies.iter().enumerate()
      .map(|(t, b)| format!("T{}:[{}]", t, b.iter().map(stmt_to_string).collect::<Vec<_>>().join("; ")))
      .collect::<Vec<_>>().join(" ")
  }
}

pub fn stmt_to_string(s: &Stmt) -> String {
  let g = match s.guard { Some(v) => format!("if acc=={} ", v), None => String::new() };
  let op = match s.op {
    Op::Req(t, oc) => format!("Req(T{},{})", t, oc.name()),
    Op::Read(r, rc) => format!("Read(r{},{})", r, rc.name()),
    Op::Write(r, src, rc) => format!("Write(r{},{:?},{})", r, src, rc.name()),
    Op::WriteDecl(r, src, rc) => format!("WriteDecl(r{},{:?},{})", r, src, rc.name()),
    Op::Panic => "Panic".to_string(),
  };
  format!("{}{}", g, op)
}

pub fn stmt_from_string(s: &str) -> Result<Stmt, String> {
  let s = s.trim();
  let (guard, rest) = if let Some(r) = s.strip_prefix("if acc==") {
    let (v, rest) = r.split_once(' ').ok_or("guard")?;
    (Some(v.parse::<u8>().map_err(|e| e.to_string())?), rest.trim())
  } else { (None, s) };
  if rest == "Panic" { return Ok(Stmt { guard, op: Op::Panic }); }
  let (name, args) = rest.split_once('(').ok_or("op")?;
  let args: Vec<&str> = args.trim_end_matches(')').split(',').map(|a| a.trim()).collect();
  let num = |a: &str| -> Result<u8, String> { a[1..].parse::<u8>().map_err(|e| e.to_string()) };
  let rc = |a: &str| -> Result<RC, String> {
    Ok(match a { "Exact" => RC::Exact, "Exists" => RC::Exists, "Always" => RC::Always, "Faulty" => RC::Faulty, o => return Err(format!("rc {}", o)) })
  };
  let oc = |a: &str| -> Result<OC, String> {
    Ok(match a { "Equals" => OC::Equals, "IsZero" => OC::IsZero, "Always" => OC::Always, "Near" => OC::Near, "UnitPred" => OC::UnitPred, "PieEquals" => OC::PieEquals, "PieAlways" => OC::PieAlways, o => return Err(format!("oc {}", o)) })
  };
  let src = |a: &str| -> Result<Src, String> {
    Ok(match a { "Acc" => Src::Acc, "One" => Src::One, "Zero" => Src::Zero, o => return Err(format!("src {}", o)) })
  };
  let op = match name {
    "Req" => Op::Req(num(args[0])?, oc(args[1])?),
    "Read" => Op::Read(num(args[0])?, rc(args[1])?),
    "Write" => Op::Write(num(args[0])?, src(args[1])?, rc(args[2])?),
    "WriteDecl" => Op::WriteDecl(num(args[0])?, src(args[1])?, rc(args[2])?),
    o => return Err(format!("op {}", o)),
  };
  Ok(Stmt { guard, op })
}

/// What the body interpreter needs from its environment; implemented by the real pie `Context` adapter and by the
/// reference model. Every method may "not return" by panicking (real) or by returning `Err(())` (model abort).
pub trait Env {
  fn require(&mut self, caller: Tid, stmt: usize, callee: Tid, oc: OC) -> Result<u8, ()>;
  /// Returns the cell content handed to the task.
  fn read(&mut self, caller: Tid, stmt: usize, r: Rid, rc: RC) -> Result<Cell, ()>;
  fn write(&mut self, caller: Tid, stmt: usize, r: Rid, value: u8, rc: RC, declared: bool) -> Result<(), ()>;
  fn task_panic(&mut self, caller: Tid, stmt: usize) -> Result<(), ()>;
  /// Crash point (C19); the real environment may panic here.
  fn tick(&mut self, _caller: Tid) {}
}

/// Interprets the body of task `t`. Returns the output (`acc`).
pub fn interpret<E: Env>(env: &mut E, t: Tid, body: &[Stmt]) -> Result<u8, ()> {
  let mut acc: u8 = 0;
  env.tick(t);
  for (i, stmt) in body.iter().enumerate() {
    if let Some(g) = stmt.guard {
      if acc != g { continue; }
    }
    match stmt.op {
      Op::Req(callee, oc) => {
        let out = env.require(t, i, callee, oc)?;
        if let Some(o) = oc.observe(out) { acc = o; }
      }
      Op::Read(r, rc) => {
        let cell = env.read(t, i, r, rc)?;
        if let Some(o) = rc.observe(cell) { acc = o; }
      }
      Op::Write(r, src, rc) => env.write(t, i, r, src.value(acc), rc, false)?,
      Op::WriteDecl(r, src, rc) => env.write(t, i, r, src.value(acc), rc, true)?,
      Op::Panic => env.task_panic(t, i)?,
    }
    env.tick(t);
  }
  Ok(acc)
}

pub fn cell_to_string(c: Cell) -> String { match c { None => "absent".into(), Some(v) => v.to_string() } }
pub fn cells_to_json(cells: &[Cell]) -> Value { Value::Array(cells.iter().map(|c| json!(cell_to_string(*c))).collect()) }
