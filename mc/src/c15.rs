//! C15 — "Task and resource identity is (concrete type, value)".
//!
//! Part A: exhaustive pairwise enumeration over key families with identical representation / hash (/ Debug text)
//! through the public `dyn KeyObj` trait object (`==`, `Box<dyn KeyObj> == dyn KeyObj`, `Hash`, hash-map / hash-set
//! membership under three hashers, one of them constant). `dyn TaskObj` is NOT nameable from outside the crate
//! (`pie::trait_object::task` is `pub(crate)`), so task identity is covered through the real `Store` in part B.
//!
//! Part B: explicit-state breadth-first search over operation sequences on a real `Pie` with a plain reference model.
//! Every transition is executed on a fresh `Pie` by replaying the operation path; output, executed task identities
//! (recording tracker), and the complete store census (verification hook) are compared with the model after the op.

use std::collections::hash_map::DefaultHasher;
use std::collections::{BTreeMap, HashMap, HashSet};
use std::convert::Infallible;
use std::fmt::{self, Debug};
use std::hash::{BuildHasherDefault, Hash, Hasher};
use std::panic::{catch_unwind, AssertUnwindSafe};
use std::rc::Rc;
use std::sync::atomic::{AtomicUsize, Ordering};
use std::sync::Arc;

use pie::task::EqualsChecker;
use pie::tracker::Tracker;
use pie::trait_object::KeyObj;
use pie::verif::{Node, VerifEdge, VerifNode, VerifStoreVisitor};
use pie::{Context, Pie, Resource, ResourceChecker, ResourceState, Task};
use serde_json::{json, Value};

use crate::common::{engine_error, Args, Report, Tier, Violation};

// =====================================================================================================================
// Part A: pairwise enumeration through `dyn KeyObj`
// =====================================================================================================================

/// Newtype family A. Same derives and same (hand-written) Debug text as `B`.
#[derive(Clone, PartialEq, Eq, Hash)]
pub struct A(pub u8);
/// Newtype family B.
#[derive(Clone, PartialEq, Eq, Hash)]
pub struct B(pub u8);
impl Debug for A { fn fmt(&self, f: &mut fmt::Formatter<'_>) -> fmt::Result { write!(f, "K({})", self.0) } }
impl Debug for B { fn fmt(&self, f: &mut fmt::Formatter<'_>) -> fmt::Result { write!(f, "K({})", self.0) } }

#[derive(Clone, Copy, PartialEq, Eq, Hash, PartialOrd, Ord, Debug)]
pub enum KFam { A, B, Tup, U8, BoxA, RcA, ArcA, BoxB }

pub const KFAMS: [KFam; 8] = [KFam::A, KFam::B, KFam::Tup, KFam::U8, KFam::BoxA, KFam::RcA, KFam::ArcA, KFam::BoxB];
pub const KVALS: [u8; 2] = [0, 1];

impl KFam {
  pub fn name(&self) -> &'static str {
    match self { KFam::A => "A", KFam::B => "B", KFam::Tup => "(u8,)", KFam::U8 => "u8", KFam::BoxA => "Box<A>", KFam::RcA => "Rc<A>", KFam::ArcA => "Arc<A>", KFam::BoxB => "Box<B>" }
  }
}

/// A concrete key value kept by value (so that `&x as &dyn KeyObj` is taken from the concrete value, not from a box).
pub enum Conc { A(A), B(B), Tup((u8,)), U8(u8), BoxA(Box<A>), RcA(Rc<A>), ArcA(Arc<A>), BoxB(Box<B>) }

impl Conc {
  pub fn new(f: KFam, v: u8) -> Conc {
    match f {
      KFam::A => Conc::A(A(v)), KFam::B => Conc::B(B(v)), KFam::Tup => Conc::Tup((v,)), KFam::U8 => Conc::U8(v),
      KFam::BoxA => Conc::BoxA(Box::new(A(v))), KFam::RcA => Conc::RcA(Rc::new(A(v))), KFam::ArcA => Conc::ArcA(Arc::new(A(v))),
      KFam::BoxB => Conc::BoxB(Box::new(B(v))),
    }
  }
  pub fn as_dyn(&self) -> &dyn KeyObj {
    match self {
      Conc::A(x) => x as &dyn KeyObj, Conc::B(x) => x as &dyn KeyObj, Conc::Tup(x) => x as &dyn KeyObj, Conc::U8(x) => x as &dyn KeyObj,
      Conc::BoxA(x) => x as &dyn KeyObj, Conc::RcA(x) => x as &dyn KeyObj, Conc::ArcA(x) => x as &dyn KeyObj, Conc::BoxB(x) => x as &dyn KeyObj,
    }
  }
  pub fn boxed(&self) -> Box<dyn KeyObj> {
    match self {
      Conc::A(x) => Box::new(x.clone()), Conc::B(x) => Box::new(x.clone()), Conc::Tup(x) => Box::new(x.clone()), Conc::U8(x) => Box::new(x.clone()),
      Conc::BoxA(x) => Box::new(x.clone()), Conc::RcA(x) => Box::new(x.clone()), Conc::ArcA(x) => Box::new(x.clone()), Conc::BoxB(x) => Box::new(x.clone()),
    }
  }
  /// Hash of the concrete value (no trait object involved) with a fresh `DefaultHasher`.
  pub fn concrete_hash(&self) -> u64 {
    let mut h = DefaultHasher::new();
    match self {
      Conc::A(x) => x.hash(&mut h), Conc::B(x) => x.hash(&mut h), Conc::Tup(x) => x.hash(&mut h), Conc::U8(x) => x.hash(&mut h),
      Conc::BoxA(x) => x.hash(&mut h), Conc::RcA(x) => x.hash(&mut h), Conc::ArcA(x) => x.hash(&mut h), Conc::BoxB(x) => x.hash(&mut h),
    }
    h.finish()
  }
}

pub fn dyn_hash(k: &dyn KeyObj) -> u64 {
  let mut h = DefaultHasher::new();
  k.hash(&mut h);
  h.finish()
}

/// All part-A keys, smallest / most telling first: (A,0), (B,0), ... then value 1.
pub fn a_keys() -> Vec<(KFam, u8)> {
  let mut v = Vec::new();
  for val in KVALS { for f in KFAMS { v.push((f, val)); } }
  v
}
fn a_key_name(k: (KFam, u8)) -> String { format!("{}:{}", k.0.name(), k.1) }
fn a_key_parse(s: &str) -> Option<(KFam, u8)> {
  let (f, v) = s.rsplit_once(':')?;
  let fam = KFAMS.iter().copied().find(|k| k.name() == f)?;
  let val: u8 = v.parse().ok()?;
  if !KVALS.contains(&val) { return None; }
  Some((fam, val))
}

/// A hasher that ignores its input: every key collides, so every lookup is decided by `==` alone.
#[derive(Default)]
pub struct ConstHasher;
impl Hasher for ConstHasher {
  fn finish(&self) -> u64 { 0 }
  fn write(&mut self, _bytes: &[u8]) {}
}

/// Everything observed for one ordered pair.
#[derive(Clone, PartialEq, Eq, Debug)]
pub struct PairObs {
  pub eq_dyn: bool,
  pub eq_dyn_rev: bool,
  pub eq_box_dyn: bool,
  pub eq_box_dyn_rev: bool,
  pub eq_box_box: bool,
  pub eq_clone: bool,
  pub hash_dyn_x: u64,
  pub hash_dyn_y: u64,
  pub hash_box_x: u64,
  pub hash_conc_x: u64,
  pub hash_conc_y: u64,
  pub debug_x: String,
  pub debug_y: String,
  pub clone_same_type: bool,
}

impl PairObs {
  fn to_json(&self) -> Value {
    json!({"eq_dyn": self.eq_dyn, "eq_dyn_rev": self.eq_dyn_rev, "eq_box_dyn": self.eq_box_dyn, "eq_box_dyn_rev": self.eq_box_dyn_rev,
      "eq_box_box": self.eq_box_box, "eq_clone": self.eq_clone, "hash_dyn_x": format!("{:016x}", self.hash_dyn_x), "hash_dyn_y": format!("{:016x}", self.hash_dyn_y),
      "hash_box_x": format!("{:016x}", self.hash_box_x), "hash_conc_x": format!("{:016x}", self.hash_conc_x), "hash_conc_y": format!("{:016x}", self.hash_conc_y),
      "debug_x": self.debug_x, "debug_y": self.debug_y, "clone_same_type": self.clone_same_type})
  }
}

#[derive(Clone, Debug)]
pub struct Fail { pub oracle: String, pub what: String, pub expected: Value, pub observed: Value }

/// Executes all pairwise operations on the real trait-object code for the ordered pair (x, y). x and y are built
/// independently (distinct allocations for Box/Rc/Arc even when x and y denote the same key).
pub fn observe_pair(x: (KFam, u8), y: (KFam, u8)) -> PairObs {
  let cx = Conc::new(x.0, x.1);
  let cy = Conc::new(y.0, y.1);
  let dx: &dyn KeyObj = cx.as_dyn();
  let dy: &dyn KeyObj = cy.as_dyn();
  let bx: Box<dyn KeyObj> = cx.boxed();
  let by: Box<dyn KeyObj> = cy.boxed();
  let clone_x: Box<dyn KeyObj> = dx.to_owned();
  PairObs {
    eq_dyn: dx == dy,
    eq_dyn_rev: dy == dx,
    eq_box_dyn: <Box<dyn KeyObj> as PartialEq<dyn KeyObj>>::eq(&bx, dy),
    eq_box_dyn_rev: <Box<dyn KeyObj> as PartialEq<dyn KeyObj>>::eq(&by, dx),
    eq_box_box: bx == by,
    eq_clone: clone_x.as_ref() == dy,
    hash_dyn_x: dyn_hash(dx),
    hash_dyn_y: dyn_hash(dy),
    hash_box_x: { let mut h = DefaultHasher::new(); bx.hash(&mut h); h.finish() },
    hash_conc_x: cx.concrete_hash(),
    hash_conc_y: cy.concrete_hash(),
    debug_x: format!("{:?}", dx),
    debug_y: format!("{:?}", dy),
    clone_same_type: clone_x.as_ref().as_any().type_id() == dx.as_any().type_id(),
  }
}

/// Judges one pair observation. Identity rule: same ⇔ same family and same value.
pub fn judge_pair(x: (KFam, u8), y: (KFam, u8), o: &PairObs) -> Vec<Fail> {
  let same = x == y;
  let mut fails = Vec::new();
  let mut eqc = |id: &str, got: bool, text: &str| {
    if got != same {
      fails.push(Fail { oracle: format!("C15/A/{}", id), what: format!("{} of {} and {} is {} but identity (type, value) says {}", text, a_key_name(x), a_key_name(y), got, same), expected: json!(same), observed: json!(got) });
    }
  };
  eqc("eq-dyn", o.eq_dyn, "`&dyn KeyObj == &dyn KeyObj`");
  eqc("eq-dyn", o.eq_dyn_rev, "`&dyn KeyObj == &dyn KeyObj` (reversed operands)");
  eqc("eq-box", o.eq_box_dyn, "`Box<dyn KeyObj> == dyn KeyObj`");
  eqc("eq-box", o.eq_box_dyn_rev, "`Box<dyn KeyObj> == dyn KeyObj` (reversed operands)");
  eqc("eq-box-box", o.eq_box_box, "`Box<dyn KeyObj> == Box<dyn KeyObj>`");
  eqc("eq-clone", o.eq_clone, "`x.to_owned() == y`");
  if o.eq_dyn != o.eq_dyn_rev {
    fails.push(Fail { oracle: "C15/A/eq-symmetry".into(), what: format!("== on dyn KeyObj is not symmetric for {} and {}", a_key_name(x), a_key_name(y)), expected: json!("x==y equals y==x"), observed: json!([o.eq_dyn, o.eq_dyn_rev]) });
  }
  if same && o.hash_dyn_x != o.hash_dyn_y {
    fails.push(Fail { oracle: "C15/A/hash-equal-keys".into(), what: format!("equal keys {} hash differently through dyn KeyObj", a_key_name(x)), expected: json!("equal hashes"), observed: json!([format!("{:016x}", o.hash_dyn_x), format!("{:016x}", o.hash_dyn_y)]) });
  }
  if o.hash_box_x != o.hash_dyn_x {
    fails.push(Fail { oracle: "C15/A/hash-box-vs-dyn".into(), what: format!("Box<dyn KeyObj> and dyn KeyObj hash differently for {} (breaks Borrow-based map lookup)", a_key_name(x)), expected: json!(format!("{:016x}", o.hash_dyn_x)), observed: json!(format!("{:016x}", o.hash_box_x)) });
  }
  if !o.clone_same_type {
    fails.push(Fail { oracle: "C15/A/clone-type".into(), what: format!("to_owned() of {} has another concrete type", a_key_name(x)), expected: json!(true), observed: json!(false) });
  }
  fails
}

/// Observation of the collection test for one insertion order: for each hasher (random-state, fixed default, constant):
/// (map len, set len, per key: what the map lookup returned, set membership).
#[derive(Clone, PartialEq, Eq, Debug)]
pub struct CollObs {
  pub hasher: &'static str,
  pub map_len: usize,
  pub set_len: usize,
  pub lookups: Vec<Option<(KFam, u8)>>,
  pub contains: Vec<bool>,
  pub absent_found: usize,
}

fn coll_run<S: std::hash::BuildHasher + Default>(hasher: &'static str, order: &[usize], keys: &[(KFam, u8)]) -> CollObs {
  let mut map: HashMap<Box<dyn KeyObj>, (KFam, u8), S> = HashMap::default();
  let mut set: HashSet<Box<dyn KeyObj>, S> = HashSet::default();
  // Two rounds: the second round inserts independently constructed equal keys, which must hit the existing entries.
  for _round in 0..2 {
    for &i in order {
      let c = Conc::new(keys[i].0, keys[i].1);
      map.insert(c.boxed(), keys[i]);
      set.insert(c.boxed());
    }
  }
  let mut lookups = Vec::new();
  let mut contains = Vec::new();
  for k in keys {
    let c = Conc::new(k.0, k.1);
    lookups.push(map.get(c.as_dyn()).copied());
    contains.push(set.contains(c.as_dyn()));
  }
  // Keys never inserted (value 2 of every family) must not be found.
  let mut absent_found = 0;
  for f in KFAMS {
    let c = Conc::new(f, 2);
    if map.get(c.as_dyn()).is_some() || set.contains(c.as_dyn()) { absent_found += 1; }
  }
  CollObs { hasher, map_len: map.len(), set_len: set.len(), lookups, contains, absent_found }
}

/// Insertion order number `n`: rotations 0..len, then reversed rotations.
fn coll_order(n: usize, len: usize) -> Vec<usize> {
  let rot = n % len;
  let mut v: Vec<usize> = (0..len).map(|i| (i + rot) % len).collect();
  if n >= len { v.reverse(); }
  v
}

pub fn observe_collections(order_no: usize) -> Vec<CollObs> {
  let keys = a_keys();
  let order = coll_order(order_no, keys.len());
  vec![
    coll_run::<std::collections::hash_map::RandomState>("RandomState", &order, &keys),
    coll_run::<BuildHasherDefault<DefaultHasher>>("DefaultHasher(fixed)", &order, &keys),
    coll_run::<BuildHasherDefault<ConstHasher>>("ConstHasher(all collide)", &order, &keys),
  ]
}

pub fn judge_collections(order_no: usize, obs: &[CollObs]) -> Vec<Fail> {
  let keys = a_keys();
  let mut fails = Vec::new();
  for o in obs {
    if o.map_len != keys.len() {
      fails.push(Fail { oracle: "C15/A/map-entries".into(), what: format!("HashMap<Box<dyn KeyObj>,_> ({}) filled with all {} keys (insertion order {}) has {} entries", o.hasher, keys.len(), order_no, o.map_len), expected: json!(keys.len()), observed: json!(o.map_len) });
    }
    if o.set_len != keys.len() {
      fails.push(Fail { oracle: "C15/A/set-entries".into(), what: format!("HashSet<Box<dyn KeyObj>> ({}) filled with all {} keys (insertion order {}) has {} entries", o.hasher, keys.len(), order_no, o.set_len), expected: json!(keys.len()), observed: json!(o.set_len) });
    }
    for (i, k) in keys.iter().enumerate() {
      if o.lookups[i] != Some(*k) {
        fails.push(Fail { oracle: "C15/A/map-lookup".into(), what: format!("lookup of {} in the map ({}, insertion order {}) found {:?}", a_key_name(*k), o.hasher, order_no, o.lookups[i].map(a_key_name)), expected: json!(a_key_name(*k)), observed: json!(o.lookups[i].map(a_key_name)) });
      }
      if !o.contains[i] {
        fails.push(Fail { oracle: "C15/A/set-lookup".into(), what: format!("{} not found in the set ({}, insertion order {})", a_key_name(*k), o.hasher, order_no), expected: json!(true), observed: json!(false) });
      }
    }
    if o.absent_found != 0 {
      fails.push(Fail { oracle: "C15/A/absent-found".into(), what: format!("{} never-inserted keys (value 2) were found in map/set ({}, insertion order {})", o.absent_found, o.hasher, order_no), expected: json!(0), observed: json!(o.absent_found) });
    }
  }
  fails
}

#[derive(Default, Debug)]
pub struct AStats {
  pub pairs: usize,
  pub evaluations: usize,
  pub same_key_pairs: usize,
  pub same_type_other_value: usize,
  pub cross_type_equal_value: usize,
  pub cross_type_other_value: usize,
  pub cross_type_equal_dyn_hash: usize,
  pub cross_type_equal_debug: usize,
  pub observed_equal: usize,
  pub observed_unequal: usize,
  pub dyn_hash_equals_concrete_hash: usize,
  pub dyn_hash_checked: usize,
  pub collection_orders: usize,
  pub collection_lookups: usize,
}

// =====================================================================================================================
// Part B: pie types
// =====================================================================================================================

/// Task family A (reads `RA`, output `cell*10+1`). Same derives / Debug text / Hash as `FB`.
#[derive(Clone, PartialEq, Eq, Hash)]
pub struct FA(pub u8);
/// Task family B (reads `RB`, output `cell*10+2`).
#[derive(Clone, PartialEq, Eq, Hash)]
pub struct FB(pub u8);
impl Debug for FA { fn fmt(&self, f: &mut fmt::Formatter<'_>) -> fmt::Result { write!(f, "F({})", self.0) } }
impl Debug for FB { fn fmt(&self, f: &mut fmt::Formatter<'_>) -> fmt::Result { write!(f, "F({})", self.0) } }

/// Resource family A / B: same derives / Debug text / Hash.
#[derive(Clone, PartialEq, Eq, Hash)]
pub struct RA(pub u8);
#[derive(Clone, PartialEq, Eq, Hash)]
pub struct RB(pub u8);
impl Debug for RA { fn fmt(&self, f: &mut fmt::Formatter<'_>) -> fmt::Result { write!(f, "R({})", self.0) } }
impl Debug for RB { fn fmt(&self, f: &mut fmt::Formatter<'_>) -> fmt::Result { write!(f, "R({})", self.0) } }

/// Cell store; one instance per resource TYPE, kept in pie's per-resource-type state (same state type for both).
#[derive(Default, Clone, Debug)]
pub struct Cells { pub v: [u8; 2] }

/// Equality-style resource checker: stamp = cell value.
#[derive(Clone, Copy, PartialEq, Eq, Hash, Debug)]
pub struct CellEq;

macro_rules! impl_cell_resource {
  ($ty:ty) => {
    impl Resource for $ty {
      type Reader<'rs> = u8;
      type Writer<'r> = ();
      type Error = Infallible;
      fn read<'rs, RS: ResourceState<Self>>(&self, state: &'rs mut RS) -> Result<u8, Infallible> {
        Ok(state.get_or_set_default_mut::<Cells>().v[self.0 as usize])
      }
      fn write<'r, RS: ResourceState<Self>>(&'r self, _state: &'r mut RS) -> Result<(), Infallible> { Ok(()) }
    }
    impl ResourceChecker<$ty> for CellEq {
      type Stamp = u8;
      type Error = Infallible;
      fn stamp<RS: ResourceState<$ty>>(&self, resource: &$ty, state: &mut RS) -> Result<u8, Infallible> {
        Ok(state.get_or_set_default_mut::<Cells>().v[resource.0 as usize])
      }
      fn stamp_reader(&self, _resource: &$ty, reader: &mut u8) -> Result<u8, Infallible> { Ok(*reader) }
      fn stamp_writer(&self, _resource: &$ty, _writer: ()) -> Result<u8, Infallible> {
        panic!("HARNESS-BUG: C15 resources are never written through pie")
      }
      fn check<RS: ResourceState<$ty>>(&self, resource: &$ty, state: &mut RS, stamp: &u8) -> Result<Option<impl Debug>, Infallible> {
        let now = state.get_or_set_default_mut::<Cells>().v[resource.0 as usize];
        Ok(if now != *stamp { Some(now) } else { None })
      }
      fn wrap_error(&self, error: Infallible) -> Infallible { match error {} }
    }
  };
}
impl_cell_resource!(RA);
impl_cell_resource!(RB);

impl Task for FA {
  type Output = u8;
  fn execute<C: Context>(&self, context: &mut C) -> u8 {
    let cell: u8 = match context.read(&RA(self.0), CellEq) { Ok(r) => r, Err(e) => match e {} };
    cell * 10 + 1
  }
}
impl Task for FB {
  type Output = u8;
  fn execute<C: Context>(&self, context: &mut C) -> u8 {
    let cell: u8 = match context.read(&RB(self.0), CellEq) { Ok(r) => r, Err(e) => match e {} };
    cell * 10 + 2
  }
}

/// Leaf task families (concrete Rust types): FA, FB, Box<FA>, Rc<FA>, Arc<FA>, Box<FB>.
#[derive(Clone, Copy, PartialEq, Eq, Hash, PartialOrd, Ord, Debug)]
pub enum Fam { A, B, BoxA, RcA, ArcA, BoxB }
pub const FAMS: [Fam; 6] = [Fam::A, Fam::B, Fam::BoxA, Fam::RcA, Fam::ArcA, Fam::BoxB];

#[derive(Clone, Copy, PartialEq, Eq, Hash, PartialOrd, Ord, Debug)]
pub enum RFam { RA, RB }
pub const RFAMS: [RFam; 2] = [RFam::RA, RFam::RB];

impl Fam {
  pub fn idx(self) -> usize { self as usize }
  pub fn name(self) -> &'static str {
    match self { Fam::A => "FA", Fam::B => "FB", Fam::BoxA => "Box<FA>", Fam::RcA => "Rc<FA>", Fam::ArcA => "Arc<FA>", Fam::BoxB => "Box<FB>" }
  }
  /// Tag shown in `P(tag,v)`.
  pub fn tag(self) -> &'static str {
    match self { Fam::A => "A", Fam::B => "B", Fam::BoxA => "BoxA", Fam::RcA => "RcA", Fam::ArcA => "ArcA", Fam::BoxB => "BoxB" }
  }
  /// Which resource family the underlying task reads.
  pub fn rfam(self) -> RFam { match self { Fam::A | Fam::BoxA | Fam::RcA | Fam::ArcA => RFam::RA, Fam::B | Fam::BoxB => RFam::RB } }
  /// Output of a task of this family that read `cell`.
  pub fn out(self, cell: u8) -> u8 { cell * 10 + match self.rfam() { RFam::RA => 1, RFam::RB => 2 } }
}
impl RFam {
  pub fn idx(self) -> usize { self as usize }
  pub fn name(self) -> &'static str { match self { RFam::RA => "RA", RFam::RB => "RB" } }
}

/// Parent task: requires the child of the given family / value with pie's `EqualsChecker` and returns its output.
#[derive(Clone, PartialEq, Eq, Hash, Debug)]
pub struct P(pub Fam, pub u8);

impl Task for P {
  type Output = u8;
  fn execute<C: Context>(&self, context: &mut C) -> u8 {
    let v = self.1;
    match self.0 {
      Fam::A => context.require(&FA(v), EqualsChecker),
      Fam::B => context.require(&FB(v), EqualsChecker),
      Fam::BoxA => context.require(&Box::new(FA(v)), EqualsChecker),
      Fam::RcA => context.require(&Rc::new(FA(v)), EqualsChecker),
      Fam::ArcA => context.require(&Arc::new(FA(v)), EqualsChecker),
      Fam::BoxB => context.require(&Box::new(FB(v)), EqualsChecker),
    }
  }
}

/// Identity of a task: concrete type + value.
#[derive(Clone, Copy, PartialEq, Eq, Hash, PartialOrd, Ord, Debug)]
pub enum TKey { Leaf(Fam, u8), Par(Fam, u8) }
/// Identity of a resource.
#[derive(Clone, Copy, PartialEq, Eq, Hash, PartialOrd, Ord, Debug)]
pub struct RKey(pub RFam, pub u8);

impl TKey {
  pub fn name(&self) -> String {
    match self { TKey::Leaf(f, v) => format!("{}({})", f.name(), v), TKey::Par(f, v) => format!("P({},{})", f.tag(), v) }
  }
  pub fn parse(s: &str) -> Option<TKey> {
    for f in FAMS { for v in 0..2u8 {
      if TKey::Leaf(f, v).name() == s { return Some(TKey::Leaf(f, v)); }
      if TKey::Par(f, v).name() == s { return Some(TKey::Par(f, v)); }
    } }
    None
  }
  pub fn fam_val(&self) -> (Fam, u8) { match self { TKey::Leaf(f, v) | TKey::Par(f, v) => (*f, *v) } }
}
impl RKey {
  pub fn name(&self) -> String { format!("{}({})", self.0.name(), self.1) }
  pub fn parse(s: &str) -> Option<RKey> {
    for f in RFAMS { for v in 0..2u8 { if RKey(f, v).name() == s { return Some(RKey(f, v)); } } }
    None
  }
}

pub fn classify_task(k: &dyn KeyObj) -> Option<TKey> {
  let a = k.as_any();
  if let Some(t) = a.downcast_ref::<FA>() { return Some(TKey::Leaf(Fam::A, t.0)); }
  if let Some(t) = a.downcast_ref::<FB>() { return Some(TKey::Leaf(Fam::B, t.0)); }
  if let Some(t) = a.downcast_ref::<Box<FA>>() { return Some(TKey::Leaf(Fam::BoxA, (**t).0)); }
  if let Some(t) = a.downcast_ref::<Rc<FA>>() { return Some(TKey::Leaf(Fam::RcA, (**t).0)); }
  if let Some(t) = a.downcast_ref::<Arc<FA>>() { return Some(TKey::Leaf(Fam::ArcA, (**t).0)); }
  if let Some(t) = a.downcast_ref::<Box<FB>>() { return Some(TKey::Leaf(Fam::BoxB, (**t).0)); }
  if let Some(t) = a.downcast_ref::<P>() { return Some(TKey::Par(t.0, t.1)); }
  None
}
pub fn classify_res(k: &dyn KeyObj) -> Option<RKey> {
  let a = k.as_any();
  if let Some(r) = a.downcast_ref::<RA>() { return Some(RKey(RFam::RA, r.0)); }
  if let Some(r) = a.downcast_ref::<RB>() { return Some(RKey(RFam::RB, r.0)); }
  None
}

/// One operation of the alphabet.
#[derive(Clone, Copy, PartialEq, Eq, Hash, PartialOrd, Ord, Debug)]
pub enum Op {
  /// one top-down session requiring one key
  Req(TKey),
  /// one top-down session requiring two keys in order
  Req2(TKey, TKey),
  SetCell(RKey, u8),
  /// one session: create_bottom_up_build + schedule_tasks_affected_by(resource) + update_affected_tasks
  BottomUp(RKey),
}

impl Op {
  pub fn name(&self) -> String {
    match self {
      Op::Req(k) => format!("Require[{}]", k.name()),
      Op::Req2(a, b) => format!("Require[{};{}]", a.name(), b.name()),
      Op::SetCell(r, v) => format!("SetCell[{}={}]", r.name(), v),
      Op::BottomUp(r) => format!("BottomUp[{}]", r.name()),
    }
  }
  pub fn parse(s: &str) -> Option<Op> {
    let (head, rest) = s.split_once('[')?;
    let body = rest.strip_suffix(']')?;
    match head {
      "Require" => {
        if let Some((a, b)) = body.split_once(';') { Some(Op::Req2(TKey::parse(a)?, TKey::parse(b)?)) } else { Some(Op::Req(TKey::parse(body)?)) }
      }
      "SetCell" => { let (r, v) = body.split_once('=')?; let v: u8 = v.parse().ok()?; if v > 1 { return None; } Some(Op::SetCell(RKey::parse(r)?, v)) }
      "BottomUp" => Some(Op::BottomUp(RKey::parse(body)?)),
      _ => None,
    }
  }
}

// ------------------------------------------------------------------------------------------------ real execution

/// Recording tracker: identities of executed tasks, in order.
#[derive(Default, Debug)]
pub struct Rec {
  pub executed: Vec<TKey>,
  pub unknown: Vec<String>,
}
impl Tracker for Rec {
  fn execute_start(&mut self, task: &dyn KeyObj) {
    match classify_task(task) { Some(k) => self.executed.push(k), None => self.unknown.push(format!("{:?}", task)) }
  }
}

#[derive(Clone, PartialEq, Eq, PartialOrd, Ord, Debug)]
pub enum EdgeObs {
  Read { src: TKey, dst: RKey, stamp: Option<u8> },
  Require { src: TKey, dst: TKey, stamp: Option<u8> },
}
impl EdgeObs {
  fn to_json(&self) -> Value {
    match self {
      EdgeObs::Read { src, dst, stamp } => json!(format!("{} -read[{:?}]-> {}", src.name(), stamp, dst.name())),
      EdgeObs::Require { src, dst, stamp } => json!(format!("{} -require[{:?}]-> {}", src.name(), stamp, dst.name())),
    }
  }
}

/// Census of the store: multisets (sorted vectors), so duplicated nodes are visible.
#[derive(Clone, PartialEq, Eq, Debug, Default)]
pub struct Census {
  pub tasks: Vec<(TKey, Option<u8>)>,
  pub resources: Vec<RKey>,
  pub edges: Vec<EdgeObs>,
  pub task_map_len: usize,
  pub res_map_len: usize,
  /// structural anomalies found while resolving the walk (edge payload vs endpoint identity, wrong node kinds, ...)
  pub anomalies: Vec<String>,
}
impl Census {
  pub fn to_json(&self) -> Value {
    json!({
      "task_nodes": self.tasks.iter().map(|(k, o)| format!("{} = {:?}", k.name(), o)).collect::<Vec<_>>(),
      "resource_nodes": self.resources.iter().map(|r| r.name()).collect::<Vec<_>>(),
      "edges": self.edges.iter().map(|e| e.to_json()).collect::<Vec<_>>(),
      "task_to_node_len": self.task_map_len, "resource_to_node_len": self.res_map_len,
      "anomalies": self.anomalies,
    })
  }
}

#[derive(Clone, Copy, PartialEq, Eq, Debug)]
enum NodeId { T(TKey), R(RKey) }
impl NodeId { fn name(&self) -> String { match self { NodeId::T(k) => k.name(), NodeId::R(r) => r.name() } } }

enum RawEdge { Read(Option<RKey>, Option<u8>), Require(Option<TKey>, Option<u8>), Other(&'static str) }

#[derive(Default)]
struct Collector {
  nodes: Vec<(Node, NodeId, Option<u8>)>,
  out: Vec<(Node, Node, RawEdge)>,
  inc: usize,
  maps: (usize, usize),
  unknown: Vec<String>,
}

fn stamp_u8(v: &dyn pie::trait_object::ValueObj) -> Option<u8> { v.as_any().downcast_ref::<u8>().copied() }

impl VerifStoreVisitor for Collector {
  fn node(&mut self, node: Node, _rank: u32, data: VerifNode<'_>) {
    match data {
      VerifNode::Task { task, output } => match classify_task(task) {
        Some(k) => {
          let out = match output { None => None, Some(o) => match stamp_u8(o) { Some(v) => Some(v), None => { self.unknown.push(format!("output of {} is not u8: {:?}", k.name(), o)); None } } };
          self.nodes.push((node, NodeId::T(k), out));
        }
        None => self.unknown.push(format!("task node of unknown type: {:?}", task)),
      },
      VerifNode::Resource(r) => match classify_res(r) {
        Some(k) => self.nodes.push((node, NodeId::R(k), None)),
        None => self.unknown.push(format!("resource node of unknown type: {:?}", r)),
      },
    }
  }
  fn outgoing_edge(&mut self, src: Node, dst: Node, edge: VerifEdge<'_>) {
    let raw = match edge {
      VerifEdge::ReservedRequire => RawEdge::Other("ReservedRequire"),
      VerifEdge::Write { .. } => RawEdge::Other("Write"),
      VerifEdge::Read { resource, stamp, .. } => RawEdge::Read(classify_res(resource), stamp_u8(stamp)),
      VerifEdge::Require { task, stamp, .. } => RawEdge::Require(classify_task(task), stamp_u8(stamp)),
    };
    self.out.push((src, dst, raw));
  }
  fn incoming_edge(&mut self, _dst: Node, _src: Node, _edge: VerifEdge<'_>) { self.inc += 1; }
  fn maps(&mut self, t: usize, r: usize) { self.maps = (t, r); }
}

pub fn census_of(pie: &Pie<Rec>) -> Census {
  let mut c = Collector::default();
  pie.verif_visit_store(&mut c);
  if !c.unknown.is_empty() { engine_error(&format!("C15: store contains objects the harness never created: {:?}", c.unknown)); }
  let mut census = Census::default();
  let find = |n: Node| c.nodes.iter().find(|(m, _, _)| *m == n).map(|(_, id, _)| *id);
  for (_, id, out) in &c.nodes {
    match id { NodeId::T(k) => census.tasks.push((*k, *out)), NodeId::R(r) => census.resources.push(*r) }
  }
  for (src, dst, raw) in &c.out {
    let (Some(s), Some(d)) = (find(*src), find(*dst)) else { census.anomalies.push("edge endpoint is not a visited node".to_string()); continue; };
    match (s, d, raw) {
      (NodeId::T(sk), NodeId::R(dr), RawEdge::Read(payload, stamp)) => {
        if *payload != Some(dr) { census.anomalies.push(format!("read edge of {} carries resource {:?} but ends at node {}", sk.name(), payload.map(|p| p.name()), dr.name())); }
        census.edges.push(EdgeObs::Read { src: sk, dst: dr, stamp: *stamp });
      }
      (NodeId::T(sk), NodeId::T(dk), RawEdge::Require(payload, stamp)) => {
        if *payload != Some(dk) { census.anomalies.push(format!("require edge of {} carries task {:?} but ends at node {}", sk.name(), payload.map(|p| p.name()), dk.name())); }
        census.edges.push(EdgeObs::Require { src: sk, dst: dk, stamp: *stamp });
      }
      (s, d, RawEdge::Read(p, _)) => census.anomalies.push(format!("read edge (payload {:?}) between {} and {}", p.map(|p| p.name()), s.name(), d.name())),
      (s, d, RawEdge::Require(p, _)) => census.anomalies.push(format!("require edge (payload {:?}) between {} and {}", p.map(|p| p.name()), s.name(), d.name())),
      (s, d, RawEdge::Other(kind)) => census.anomalies.push(format!("{} edge between {} and {} after a finished session", kind, s.name(), d.name())),
    }
  }
  if c.inc != c.out.len() { census.anomalies.push(format!("{} outgoing but {} incoming edges", c.out.len(), c.inc)); }
  census.tasks.sort();
  census.resources.sort();
  census.edges.sort();
  census.task_map_len = c.maps.0;
  census.res_map_len = c.maps.1;
  census
}

/// Observation of one operation on the real code.
#[derive(Clone, PartialEq, Eq, Debug)]
pub struct Obs {
  pub outputs: Vec<u8>,
  /// executed task identities in tracker order
  pub executed: Vec<TKey>,
  pub panic: Option<String>,
  pub dep_errors: usize,
  pub cells: [[u8; 2]; 2],
  pub census: Census,
}
impl Obs {
  pub fn to_json(&self) -> Value {
    json!({"outputs": self.outputs, "executed": self.executed.iter().map(|k| k.name()).collect::<Vec<_>>(), "panic": self.panic,
      "dependency_check_errors": self.dep_errors, "cells": {"RA": self.cells[0], "RB": self.cells[1]}, "store": self.census.to_json()})
  }
}

fn require_key(s: &mut pie::Session<'_>, k: TKey) -> u8 {
  match k {
    TKey::Leaf(Fam::A, v) => s.require(&FA(v)),
    TKey::Leaf(Fam::B, v) => s.require(&FB(v)),
    TKey::Leaf(Fam::BoxA, v) => s.require(&Box::new(FA(v))),
    TKey::Leaf(Fam::RcA, v) => s.require(&Rc::new(FA(v))),
    TKey::Leaf(Fam::ArcA, v) => s.require(&Arc::new(FA(v))),
    TKey::Leaf(Fam::BoxB, v) => s.require(&Box::new(FB(v))),
    TKey::Par(f, v) => s.require(&P(f, v)),
  }
}

pub fn new_pie() -> Pie<Rec> { Pie::with_tracker(Rec::default()) }

fn read_cells(pie: &mut Pie<Rec>) -> [[u8; 2]; 2] {
  let a = pie.resource_state_mut::<RA>().get_or_set_default_mut::<Cells>().v;
  let b = pie.resource_state_mut::<RB>().get_or_set_default_mut::<Cells>().v;
  [a, b]
}

/// Applies `op` to the real Pie. `observe`: also take the store census (skipped for path prefixes).
pub fn apply_real(pie: &mut Pie<Rec>, op: &Op, observe: bool) -> Obs {
  pie.tracker_mut().executed.clear();
  let mut outputs = Vec::new();
  let mut dep_errors = 0;
  let mut panic = None;
  let _ = crate::runner::take_last_panic();
  match op {
    Op::SetCell(RKey(RFam::RA, id), v) => { pie.resource_state_mut::<RA>().get_or_set_default_mut::<Cells>().v[*id as usize] = *v; }
    Op::SetCell(RKey(RFam::RB, id), v) => { pie.resource_state_mut::<RB>().get_or_set_default_mut::<Cells>().v[*id as usize] = *v; }
    Op::Req(_) | Op::Req2(_, _) => {
      let keys: Vec<TKey> = match op { Op::Req(k) => vec![*k], Op::Req2(a, b) => vec![*a, *b], _ => unreachable!() };
      let res = catch_unwind(AssertUnwindSafe(|| {
        let mut s = pie.new_session();
        let mut outs = Vec::new();
        for k in &keys { outs.push(require_key(&mut s, *k)); }
        let n = s.dependency_check_errors().len();
        (outs, n)
      }));
      match res {
        Ok((o, e)) => { outputs = o; dep_errors = e; }
        Err(_) => { panic = Some(crate::runner::take_last_panic().map(|p| format!("{} at {}:{}", p.msg, p.file, p.line)).unwrap_or_else(|| "<panic>".into())); }
      }
    }
    Op::BottomUp(r) => {
      let r = *r;
      let res = catch_unwind(AssertUnwindSafe(|| {
        let mut s = pie.new_session();
        {
          let mut b = s.create_bottom_up_build();
          match r { RKey(RFam::RA, id) => b.schedule_tasks_affected_by(&RA(id)), RKey(RFam::RB, id) => b.schedule_tasks_affected_by(&RB(id)) }
          b.update_affected_tasks();
        }
        let n = s.dependency_check_errors().len();
        n
      }));
      match res {
        Ok(e) => dep_errors = e,
        Err(_) => { panic = Some(crate::runner::take_last_panic().map(|p| format!("{} at {}:{}", p.msg, p.file, p.line)).unwrap_or_else(|| "<panic>".into())); }
      }
    }
  }
  if !pie.tracker().unknown.is_empty() { engine_error(&format!("C15: tracker saw tasks the harness never created: {:?}", pie.tracker().unknown)); }
  if let Some(p) = &panic { if p.contains("HARNESS-BUG") { engine_error(&format!("C15: {}", p)); } }
  let executed = pie.tracker().executed.clone();
  let (cells, census) = if observe && panic.is_none() { (read_cells(pie), census_of(pie)) } else { ([[0; 2]; 2], Census::default()) };
  Obs { outputs, executed, panic, dep_errors, cells, census }
}

// =====================================================================================================================
// Part B: reference model
// =====================================================================================================================

/// Model state. `leaf[f][v]` = the cell value the task read at its last execution (None = never required);
/// `par[f][v]` = the child output `P(f,v)` saw at its last execution; `rnodes` = resource nodes that must exist;
/// `cells` = current cell values.
#[derive(Clone, Copy, PartialEq, Eq, Hash, Debug, Default)]
pub struct MState {
  pub leaf: [[Option<u8>; 2]; 6],
  pub par: [[Option<u8>; 2]; 6],
  pub rnodes: [[bool; 2]; 2],
  pub cells: [[u8; 2]; 2],
}

/// What the model expects from one operation.
#[derive(Clone, PartialEq, Eq, Debug, Default)]
pub struct Expect {
  pub outputs: Vec<u8>,
  /// sorted multiset of executed identities
  pub executed: Vec<TKey>,
}

impl MState {
  fn cell(&self, f: Fam, v: u8) -> u8 { self.cells[f.rfam().idx()][v as usize] }

  /// Makes leaf (f,v) consistent top-down; returns its output.
  fn ensure_leaf(&mut self, f: Fam, v: u8, executed: &mut Vec<TKey>) -> u8 {
    let cell = self.cell(f, v);
    if self.leaf[f.idx()][v as usize] != Some(cell) {
      executed.push(TKey::Leaf(f, v));
      self.leaf[f.idx()][v as usize] = Some(cell);
      self.rnodes[f.rfam().idx()][v as usize] = true;
    }
    f.out(cell)
  }

  fn require(&mut self, k: TKey, executed: &mut Vec<TKey>) -> u8 {
    match k {
      TKey::Leaf(f, v) => self.ensure_leaf(f, v, executed),
      TKey::Par(f, v) => {
        match self.par[f.idx()][v as usize] {
          None => {
            executed.push(TKey::Par(f, v));
            let o = self.ensure_leaf(f, v, executed);
            self.par[f.idx()][v as usize] = Some(o);
            o
          }
          Some(seen) => {
            let o = self.ensure_leaf(f, v, executed);
            if o != seen {
              executed.push(TKey::Par(f, v));
              self.par[f.idx()][v as usize] = Some(o);
            }
            o
          }
        }
      }
    }
  }

  pub fn step(&mut self, op: &Op) -> Expect {
    let mut e = Expect::default();
    match op {
      Op::SetCell(r, v) => { self.cells[r.0.idx()][r.1 as usize] = *v; }
      Op::Req(k) => { let o = self.require(*k, &mut e.executed); e.outputs.push(o); }
      Op::Req2(a, b) => {
        let o = self.require(*a, &mut e.executed); e.outputs.push(o);
        let o = self.require(*b, &mut e.executed); e.outputs.push(o);
      }
      Op::BottomUp(r) => {
        // `schedule_tasks_affected_by` creates the resource node if it does not exist yet.
        self.rnodes[r.0.idx()][r.1 as usize] = true;
        let cell = self.cells[r.0.idx()][r.1 as usize];
        for f in FAMS {
          if f.rfam() != r.0 { continue; }
          let Some(read) = self.leaf[f.idx()][r.1 as usize] else { continue; };
          if read == cell { continue; }
          e.executed.push(TKey::Leaf(f, r.1));
          self.leaf[f.idx()][r.1 as usize] = Some(cell);
          let out = f.out(cell);
          if let Some(seen) = self.par[f.idx()][r.1 as usize] {
            if seen != out {
              e.executed.push(TKey::Par(f, r.1));
              self.par[f.idx()][r.1 as usize] = Some(out);
            }
          }
        }
      }
    }
    e.executed.sort();
    e
  }

  /// The store census this state implies.
  pub fn census(&self) -> Census {
    let mut c = Census::default();
    for f in FAMS { for v in 0..2u8 {
      if let Some(cell) = self.leaf[f.idx()][v as usize] {
        c.tasks.push((TKey::Leaf(f, v), Some(f.out(cell))));
        c.edges.push(EdgeObs::Read { src: TKey::Leaf(f, v), dst: RKey(f.rfam(), v), stamp: Some(cell) });
      }
      if let Some(seen) = self.par[f.idx()][v as usize] {
        c.tasks.push((TKey::Par(f, v), Some(seen)));
        c.edges.push(EdgeObs::Require { src: TKey::Par(f, v), dst: TKey::Leaf(f, v), stamp: Some(seen) });
      }
    } }
    for rf in RFAMS { for v in 0..2u8 { if self.rnodes[rf.idx()][v as usize] { c.resources.push(RKey(rf, v)); } } }
    c.tasks.sort();
    c.resources.sort();
    c.edges.sort();
    c.task_map_len = c.tasks.len();
    c.res_map_len = c.resources.len();
    c
  }

  /// Canonical encoding (injective) used for deduplication.
  pub fn encode(&self) -> u64 {
    let mut x: u64 = 0;
    let mut push = |val: u64, bits: u32| { x = (x << bits) | val; };
    for f in FAMS { for v in 0..2usize {
      push(match self.leaf[f.idx()][v] { None => 0, Some(c) => 1 + c as u64 }, 2);
      // seen child output is cell*10+tag with a tag fixed by the family: encode the cell part.
      push(match self.par[f.idx()][v] { None => 0, Some(o) => 1 + (o / 10) as u64 }, 2);
    } }
    for rf in 0..2 { for v in 0..2 { push(self.rnodes[rf][v] as u64, 1); push(self.cells[rf][v] as u64, 1); } }
    x
  }

  /// Rule for `distinct_nontrivial`: at least two task nodes of different concrete types with the same value coexist.
  pub fn nontrivial(&self) -> bool {
    for v in 0..2usize {
      let n = FAMS.iter().filter(|f| self.leaf[f.idx()][v].is_some()).count();
      if n >= 2 { return true; }
    }
    false
  }

  pub fn to_json(&self) -> Value {
    let mut leaf = BTreeMap::new();
    let mut par = BTreeMap::new();
    for f in FAMS { for v in 0..2u8 {
      if let Some(c) = self.leaf[f.idx()][v as usize] { leaf.insert(TKey::Leaf(f, v).name(), json!({"read_cell": c, "output": f.out(c)})); }
      if let Some(o) = self.par[f.idx()][v as usize] { par.insert(TKey::Par(f, v).name(), json!({"child_output_seen": o})); }
    } }
    json!({"leaf": leaf, "parents": par, "cells": {"RA": self.cells[0], "RB": self.cells[1]},
      "resource_nodes": self.census().resources.iter().map(|r| r.name()).collect::<Vec<_>>()})
  }
}

/// Tasks an operation may legitimately execute (scope oracle): the required keys and their children; for a bottom-up
/// build the readers of the reported resource (same resource family, same id) and their parents.
pub fn scope_of(op: &Op) -> Vec<TKey> {
  let mut s = Vec::new();
  let mut add = |k: TKey| { s.push(k); if let TKey::Par(f, v) = k { s.push(TKey::Leaf(f, v)); } };
  match op {
    Op::SetCell(_, _) => {}
    Op::Req(k) => add(*k),
    Op::Req2(a, b) => { add(*a); add(*b); }
    Op::BottomUp(r) => { for f in FAMS { if f.rfam() == r.0 { add(TKey::Par(f, r.1)); } } }
  }
  s
}

/// Compares one real observation with the model's expectation (`post` = model state after the op).
pub fn judge_step(op: &Op, expect: &Expect, post: &MState, obs: &Obs) -> Vec<Fail> {
  let mut fails = Vec::new();
  if let Some(p) = &obs.panic {
    fails.push(Fail { oracle: "C15/B/panic".into(), what: format!("{} panicked inside pie: {}", op.name(), p), expected: json!("no panic"), observed: json!(p) });
    return fails;
  }
  if obs.outputs != expect.outputs {
    fails.push(Fail { oracle: "C15/B/output".into(), what: format!("{} returned {:?}, model (type,value)-keyed cache says {:?}", op.name(), obs.outputs, expect.outputs), expected: json!(expect.outputs), observed: json!(obs.outputs) });
  }
  let mut ex = obs.executed.clone();
  ex.sort();
  if ex != expect.executed {
    let n = |v: &Vec<TKey>| v.iter().map(|k| k.name()).collect::<Vec<_>>();
    fails.push(Fail { oracle: "C15/B/executed".into(), what: format!("{} executed {:?}, model says {:?}", op.name(), n(&ex), n(&expect.executed)), expected: json!(n(&expect.executed)), observed: json!(n(&ex)) });
  }
  let scope = scope_of(op);
  for k in &obs.executed {
    if !scope.contains(k) {
      fails.push(Fail { oracle: "C15/B/exec-scope".into(), what: format!("{} executed {} which is neither required nor a reader of the changed resource", op.name(), k.name()), expected: json!(scope.iter().map(|k| k.name()).collect::<Vec<_>>()), observed: json!(k.name()) });
      break;
    }
  }
  if obs.dep_errors != 0 {
    fails.push(Fail { oracle: "C15/B/dependency-check-errors".into(), what: format!("{} produced {} dependency check errors with infallible checkers", op.name(), obs.dep_errors), expected: json!(0), observed: json!(obs.dep_errors) });
  }
  if obs.cells != post.cells {
    // cells are only changed by the harness: a difference means the two resource types share state.
    fails.push(Fail { oracle: "C15/B/resource-state".into(), what: format!("after {} the cells are {:?}, model says {:?} (per-resource-type state aliased?)", op.name(), obs.cells, post.cells), expected: json!(post.cells), observed: json!(obs.cells) });
  }
  let want = post.census();
  let c = &obs.census;
  for e in &c.edges {
    if let EdgeObs::Read { src, dst, .. } = e {
      let (f, v) = src.fam_val();
      if matches!(src, TKey::Par(..)) || dst.0 != f.rfam() || dst.1 != v {
        fails.push(Fail { oracle: "C15/B/read-edge-family".into(), what: format!("after {}: task {} has a read edge to resource node {}", op.name(), src.name(), dst.name()), expected: json!(RKey(f.rfam(), v).name()), observed: json!(dst.name()) });
        break;
      }
    }
  }
  if !c.anomalies.is_empty() {
    fails.push(Fail { oracle: "C15/B/edge-endpoint".into(), what: format!("after {}: {}", op.name(), c.anomalies.join("; ")), expected: json!([]), observed: json!(c.anomalies) });
  }
  if c.tasks != want.tasks {
    fails.push(Fail { oracle: "C15/B/census-tasks".into(), what: format!("after {}: task nodes / cached outputs differ from one node per (type,value) required", op.name()), expected: want.to_json()["task_nodes"].clone(), observed: c.to_json()["task_nodes"].clone() });
  }
  if c.resources != want.resources {
    fails.push(Fail { oracle: "C15/B/census-resources".into(), what: format!("after {}: resource nodes differ from one node per (type,id) read or reported", op.name()), expected: want.to_json()["resource_nodes"].clone(), observed: c.to_json()["resource_nodes"].clone() });
  }
  if c.edges != want.edges {
    fails.push(Fail { oracle: "C15/B/census-edges".into(), what: format!("after {}: dependency edges differ from the model", op.name()), expected: want.to_json()["edges"].clone(), observed: c.to_json()["edges"].clone() });
  }
  if c.task_map_len != c.tasks.len() || c.res_map_len != c.resources.len() {
    fails.push(Fail { oracle: "C15/B/map-sizes".into(), what: format!("after {}: lookup maps have {} / {} entries for {} task and {} resource nodes", op.name(), c.task_map_len, c.res_map_len, c.tasks.len(), c.resources.len()), expected: json!([c.tasks.len(), c.resources.len()]), observed: json!([c.task_map_len, c.res_map_len]) });
  }
  fails
}

/// Runs `ops` on a fresh Pie, observing every step (stops after a panic).
pub fn run_path_full(ops: &[Op]) -> Vec<Obs> {
  let mut pie = new_pie();
  let mut v = Vec::new();
  for op in ops {
    let o = apply_real(&mut pie, op, true);
    let stop = o.panic.is_some();
    v.push(o);
    if stop { break; }
  }
  v
}

/// Judges a full path against the model: (failing step index, fails) of the first failing step.
pub fn judge_path(ops: &[Op], obs: &[Obs]) -> Option<(usize, Vec<Fail>, Expect)> {
  let mut m = MState::default();
  for (i, op) in ops.iter().enumerate() {
    let e = m.step(op);
    let Some(o) = obs.get(i) else { return None; };
    let f = judge_step(op, &e, &m, o);
    if !f.is_empty() { return Some((i, f, e)); }
  }
  None
}

// =====================================================================================================================
// Part B: breadth-first search
// =====================================================================================================================

#[derive(Clone, Debug)]
pub struct Cfg {
  pub keys: Vec<TKey>,
  pub pairs: Vec<(TKey, TKey)>,
  /// cells that `SetCell` may change
  pub resources: Vec<RKey>,
  /// resources that may be reported to a bottom-up build
  pub bu_resources: Vec<RKey>,
  pub depth_cap: usize,
  pub wall_cap_s: f64,
  pub pruned_note: &'static str,
}

impl Cfg {
  pub fn alphabet(&self) -> Vec<Op> {
    let mut ops = Vec::new();
    for k in &self.keys { ops.push(Op::Req(*k)); }
    for (a, b) in &self.pairs { ops.push(Op::Req2(*a, *b)); }
    for r in &self.resources { for v in 0..2u8 { ops.push(Op::SetCell(*r, v)); } }
    for r in &self.bu_resources { ops.push(Op::BottomUp(*r)); }
    ops
  }
  pub fn for_tier(tier: Tier) -> Cfg {
    use Fam::*;
    let l = TKey::Leaf;
    let p = TKey::Par;
    match tier {
      Tier::Thorough => Cfg {
        keys: vec![l(A, 0), l(B, 0), l(BoxA, 0), l(RcA, 0), l(ArcA, 0), l(BoxB, 0), p(A, 0), p(B, 0), p(BoxA, 0), l(A, 1), l(B, 1)],
        pairs: vec![(p(A, 0), l(A, 0)), (l(A, 0), p(A, 0)), (l(A, 0), l(B, 0)), (l(A, 0), l(BoxA, 0)), (p(A, 0), p(B, 0)), (p(BoxA, 0), p(A, 0))],
        resources: vec![RKey(RFam::RA, 0), RKey(RFam::RB, 0), RKey(RFam::RA, 1), RKey(RFam::RB, 1)],
        bu_resources: vec![RKey(RFam::RA, 0), RKey(RFam::RB, 0), RKey(RFam::RA, 1), RKey(RFam::RB, 1)],
        depth_cap: 64,
        wall_cap_s: 480.0,
        pruned_note: "full key set: all six concrete task types at value 0, FA/FB also at value 1, parents of FA(0), FB(0) and Box<FA>(0), all four cells",
      },
      Tier::Quick => Cfg {
        keys: vec![l(A, 0), l(B, 0), l(BoxA, 0), l(RcA, 0), l(ArcA, 0), l(BoxB, 0), p(A, 0), p(B, 0), l(A, 1)],
        pairs: vec![(p(A, 0), l(A, 0)), (l(A, 0), l(B, 0)), (l(A, 0), l(BoxA, 0))],
        resources: vec![RKey(RFam::RA, 0), RKey(RFam::RB, 0), RKey(RFam::RA, 1)],
        bu_resources: vec![RKey(RFam::RA, 0), RKey(RFam::RB, 0), RKey(RFam::RA, 1)],
        depth_cap: 64,
        wall_cap_s: 18.0,
        pruned_note: "quick tier prunes FB(1), P(BoxA,0) and the cell RB(1) from the thorough alphabet (and three of the two-key sessions); all six concrete task types at value 0, both parents, FA(1) (same type, other value, own resource node RA(1)) stay in",
      },
    }
  }
}

#[derive(Clone, Debug, Default)]
pub struct BStats {
  pub states: usize,
  pub transitions: usize,
  pub sessions_on_real_pie: usize,
  pub fresh_instances: usize,
  pub max_depth: usize,
  pub fixed_point: bool,
  pub depth_capped: bool,
  pub wall_capped: bool,
  pub nontrivial_states: usize,
  /// [op kind: 0 require, 1 bottom-up][executed tasks 0,1,2,3+]
  pub exec_hist: [[usize; 4]; 2],
  pub outputs_hist: BTreeMap<u8, usize>,
  pub setcell_transitions: usize,
  pub levels: Vec<usize>,
  /// transitions in which a key was served from the cache of its own (type,value) while a same-valued key of another
  /// type also had a cache entry
  pub cache_hits_with_lookalike_present: usize,
}

impl BStats {
  fn merge(&mut self, o: &BStats) {
    self.transitions += o.transitions;
    self.sessions_on_real_pie += o.sessions_on_real_pie;
    self.fresh_instances += o.fresh_instances;
    for k in 0..2 { for n in 0..4 { self.exec_hist[k][n] += o.exec_hist[k][n]; } }
    for (k, v) in &o.outputs_hist { *self.outputs_hist.entry(*k).or_insert(0) += v; }
    self.setcell_transitions += o.setcell_transitions;
    self.cache_hits_with_lookalike_present += o.cache_hits_with_lookalike_present;
  }
}

pub struct BfsFail { pub ops: Vec<Op>, pub step: usize, pub fails: Vec<Fail>, pub obs: Obs, pub post: MState }

/// (frontier position, op index, fails, observation, model state after, exact op sequence applied to the fresh Pie)
type LevelFail = (u32, u16, Vec<Fail>, Obs, MState, Vec<Op>);

pub struct BfsResult { pub stats: BStats, pub fails: Vec<BfsFail>, pub deepest_path: Vec<Op> }

fn threads() -> usize { std::thread::available_parallelism().map(|n| n.get()).unwrap_or(4).min(16) }

pub fn bfs(cfg: &Cfg, start: std::time::Instant) -> BfsResult {
  let alphabet = cfg.alphabet();
  let mut states: Vec<MState> = vec![MState::default()];
  let mut parent: Vec<(u32, u16)> = vec![(u32::MAX, 0)];
  let mut visited: HashSet<u64> = HashSet::new();
  visited.insert(states[0].encode());
  let mut frontier: Vec<u32> = vec![0];
  let mut stats = BStats::default();
  stats.levels.push(1);
  let mut fails: Vec<BfsFail> = Vec::new();
  let mut depth = 0usize;

  let path_of = |parent: &Vec<(u32, u16)>, mut idx: u32| -> Vec<Op> {
    let mut rev = Vec::new();
    while parent[idx as usize].0 != u32::MAX { rev.push(alphabet[parent[idx as usize].1 as usize]); idx = parent[idx as usize].0; }
    rev.reverse();
    rev
  };

  while !frontier.is_empty() {
    if depth >= cfg.depth_cap { stats.depth_capped = true; break; }
    if start.elapsed().as_secs_f64() > cfg.wall_cap_s { stats.wall_capped = true; break; }
    let next = AtomicUsize::new(0);
    let nthreads = threads();
    // (frontier position, op index, encoded successor) of successors not yet visited before this level
    let mut new_succ: Vec<(u32, u16, u64)> = Vec::new();
    let mut level_fails: Vec<LevelFail> = Vec::new();
    std::thread::scope(|sc| {
      let mut handles = Vec::new();
      for _ in 0..nthreads {
        let (states, parent, visited, frontier, alphabet, next, path_of) = (&states, &parent, &visited, &frontier, &alphabet, &next, &path_of);
        handles.push(sc.spawn(move || {
          crate::runner::install_panic_hook();
          let mut st = BStats::default();
          let mut succ: Vec<(u32, u16, u64)> = Vec::new();
          let mut lf: Vec<LevelFail> = Vec::new();
          loop {
            let lo = next.fetch_add(8, Ordering::SeqCst);
            if lo >= frontier.len() { break; }
            for pos in lo..(lo + 8).min(frontier.len()) {
              let sidx = frontier[pos];
              let pre = states[sidx as usize];
              let path = path_of(parent, sidx);
              // The implementation state is re-derived by replaying the path on a fresh Pie. An instance is kept for
              // the next operation only while the operations applied to it so far were model self-loops that passed
              // every oracle (then `applied` = path + those self-loops is itself an operation path into `pre`).
              let mut live: Option<Pie<Rec>> = None;
              let mut applied: Vec<Op> = Vec::new();
              for (oi, op) in alphabet.iter().enumerate() {
                if live.is_none() {
                  let mut pie = new_pie();
                  let mut broken = false;
                  for pop in &path {
                    let o = apply_real(&mut pie, pop, false);
                    st.sessions_on_real_pie += 1;
                    if o.panic.is_some() { broken = true; break; }
                  }
                  if broken { engine_error(&format!("C15: prefix {:?} panicked on replay although it was validated before", path.iter().map(|o| o.name()).collect::<Vec<_>>())); }
                  st.fresh_instances += 1;
                  applied = path.clone();
                  live = Some(pie);
                }
                let obs = apply_real(live.as_mut().unwrap(), op, true);
                applied.push(*op);
                st.sessions_on_real_pie += 1;
                let mut post = pre;
                let expect = post.step(op);
                st.transitions += 1;
                let f = judge_step(op, &expect, &post, &obs);
                match op {
                  Op::SetCell(..) => st.setcell_transitions += 1,
                  Op::Req(_) | Op::Req2(..) => {
                    st.exec_hist[0][obs.executed.len().min(3)] += 1;
                    for o in &obs.outputs { *st.outputs_hist.entry(*o).or_insert(0) += 1; }
                    if obs.executed.is_empty() && pre.nontrivial() { st.cache_hits_with_lookalike_present += 1; }
                  }
                  Op::BottomUp(_) => st.exec_hist[1][obs.executed.len().min(3)] += 1,
                }
                if !f.is_empty() { lf.push((pos as u32, oi as u16, f, obs, post, applied.clone())); live = None; continue; }
                if post != pre { live = None; }
                let enc = post.encode();
                if !visited.contains(&enc) { succ.push((pos as u32, oi as u16, enc)); }
              }
            }
          }
          (st, succ, lf)
        }));
      }
      for h in handles {
        let (st, succ, lf) = h.join().unwrap_or_else(|_| engine_error("C15: BFS worker panicked"));
        stats.merge(&st);
        new_succ.extend(succ);
        level_fails.extend(lf);
      }
    });
    depth += 1;
    if std::env::var_os("VERIF_C15_TRACE").is_some() { eprintln!("level {} frontier {} parallel part done at {:.2}s", depth, frontier.len(), start.elapsed().as_secs_f64()); }
    if !level_fails.is_empty() {
      level_fails.sort_by(|a, b| (a.0, a.1).cmp(&(b.0, b.1)));
      for (_pos, _oi, f, obs, post, ops) in level_fails {
        let step = ops.len() - 1;
        fails.push(BfsFail { ops, step, fails: f, obs, post });
      }
      stats.max_depth = depth;
      break;
    }
    new_succ.sort();
    let mut next_frontier = Vec::new();
    for (pos, oi, enc) in new_succ {
      if !visited.insert(enc) { continue; }
      let sidx = frontier[pos as usize];
      let mut post = states[sidx as usize];
      let _ = post.step(&alphabet[oi as usize]);
      if post.encode() != enc { engine_error("C15: model step is not deterministic"); }
      let idx = states.len() as u32;
      states.push(post);
      parent.push((sidx, oi));
      next_frontier.push(idx);
    }
    if !next_frontier.is_empty() { stats.max_depth = depth; stats.levels.push(next_frontier.len()); }
    frontier = next_frontier;
    if std::env::var_os("VERIF_C15_TRACE").is_some() { eprintln!("level {} merged at {:.2}s", depth, start.elapsed().as_secs_f64()); }
  }
  if frontier.is_empty() && fails.is_empty() { stats.fixed_point = true; }
  stats.states = states.len();
  stats.nontrivial_states = states.iter().filter(|s| s.nontrivial()).count();
  let deepest_path = path_of(&parent, (states.len() - 1) as u32);
  BfsResult { stats, fails, deepest_path }
}

// =====================================================================================================================
// Driver
// =====================================================================================================================

const RULE: &str = "identity = (concrete type, value): part A — for every ordered pair of keys from 8 same-representation families x 2 values, every equality route through dyn KeyObj is true iff same type and equal value, equal keys hash equal, and hash maps/sets (random, fixed and all-colliding hasher) keep exactly one entry per (type,value); part B — after every operation of every explored sequence on a real Pie the returned outputs, the executed task identities (tracker), and the complete store census (hook: task nodes with cached outputs, resource nodes, edges, lookup-map sizes) equal a reference model whose cache is keyed by (type,value)";
const NONTRIVIAL_RULE: &str = "part A: ordered cross-type pairs with equal value whose dyn-KeyObj hashes coincide (the cases where only the type check separates the keys); part B: distinct explored states in which at least two task nodes of different concrete types with the same value (identical Debug text and hash within the FA/FB families) coexist in the store";

fn showcase_path() -> Vec<Op> {
  use Fam::*;
  let l = TKey::Leaf;
  let p = TKey::Par;
  vec![
    Op::Req(l(A, 0)), Op::Req(l(B, 0)), Op::Req(l(BoxA, 0)), Op::Req(l(RcA, 0)), Op::Req(l(ArcA, 0)), Op::Req(l(BoxB, 0)),
    Op::Req(p(A, 0)), Op::Req(p(B, 0)), Op::Req(p(BoxA, 0)), Op::Req(l(A, 1)), Op::Req(l(B, 1)),
    Op::SetCell(RKey(RFam::RA, 0), 1), Op::BottomUp(RKey(RFam::RA, 0)), Op::Req(l(B, 0)), Op::Req2(l(A, 0), p(A, 0)),
    Op::SetCell(RKey(RFam::RB, 0), 1), Op::Req(p(B, 0)), Op::Req(p(A, 0)), Op::Req(l(BoxB, 0)),
    Op::SetCell(RKey(RFam::RB, 1), 1), Op::BottomUp(RKey(RFam::RB, 1)), Op::BottomUp(RKey(RFam::RA, 1)),
  ]
}

fn path_sample(ops: &[Op], obs: &[Obs]) -> Value {
  let steps: Vec<Value> = ops.iter().zip(obs.iter()).map(|(op, o)| json!({
    "op": op.name(), "outputs": o.outputs, "executed": o.executed.iter().map(|k| k.name()).collect::<Vec<_>>(),
    "task_nodes": o.census.tasks.iter().map(|(k, out)| format!("{}={:?}", k.name(), out)).collect::<Vec<_>>(),
    "resource_nodes": o.census.resources.iter().map(|r| r.name()).collect::<Vec<_>>(),
  })).collect();
  json!({"part": "B", "ops": ops.iter().map(|o| o.name()).collect::<Vec<_>>(), "steps": steps})
}

fn b_violation(ops: &[Op], step: usize, f: &Fail, obs: &Obs, post: &MState) -> Violation {
  Violation {
    property: "C15".into(), oracle: f.oracle.clone(), key: String::new(),
    what: format!("{} [path: {}]", f.what, ops.iter().map(|o| o.name()).collect::<Vec<_>>().join(" ")),
    replay: json!({"part": "B", "ops": ops.iter().map(|o| o.name()).collect::<Vec<_>>(), "failing_step": step, "oracle": f.oracle,
      "expected": f.expected, "observed": f.observed, "model_state_after": post.to_json(), "model_store_after": post.census().to_json(), "observation": obs.to_json()}),
  }
}

/// Part A in full. Returns statistics, samples; violations go to `report` (first failure per oracle id only).
fn part_a(report: &mut dyn FnMut(Violation)) -> (AStats, Vec<Value>) {
  let keys = a_keys();
  let mut st = AStats::default();
  let mut samples = Vec::new();
  let mut seen_oracles: Vec<String> = Vec::new();
  for (i, x) in keys.iter().enumerate() {
    for (j, y) in keys.iter().enumerate() {
      let o = observe_pair(*x, *y);
      st.pairs += 1;
      st.evaluations += 6; // six equality routes
      if x == y { st.same_key_pairs += 1; }
      else if x.0 == y.0 { st.same_type_other_value += 1; }
      else if x.1 == y.1 {
        st.cross_type_equal_value += 1;
        if o.hash_dyn_x == o.hash_dyn_y { st.cross_type_equal_dyn_hash += 1; }
        if o.debug_x == o.debug_y { st.cross_type_equal_debug += 1; }
      } else { st.cross_type_other_value += 1; }
      if o.eq_dyn { st.observed_equal += 1; } else { st.observed_unequal += 1; }
      st.dyn_hash_checked += 1;
      if o.hash_dyn_x == o.hash_conc_x { st.dyn_hash_equals_concrete_hash += 1; }
      if (i, j) == (0, 1) || (i, j) == (0, 4) || (i, j) == (0, 0) || (i, j) == (0, 8) || (i, j) == (5, 6) {
        samples.push(json!({"part": "A", "x": a_key_name(*x), "y": a_key_name(*y), "expected_same": x == y, "observed": o.to_json()}));
      }
      for f in judge_pair(*x, *y, &o) {
        if seen_oracles.contains(&f.oracle) { continue; }
        seen_oracles.push(f.oracle.clone());
        report(Violation { property: "C15".into(), oracle: f.oracle.clone(), key: String::new(), what: f.what.clone(),
          replay: json!({"part": "A", "case": "pair", "x": a_key_name(*x), "y": a_key_name(*y), "oracle": f.oracle, "expected": f.expected, "observed": f.observed, "observation": o.to_json()}) });
      }
    }
  }
  for order in 0..(2 * keys.len()) {
    let obs = observe_collections(order);
    st.collection_orders += 1;
    for o in &obs { st.collection_lookups += o.lookups.len() + o.contains.len(); st.evaluations += o.lookups.len() + o.contains.len() + 2; }
    if order == 0 {
      samples.push(json!({"part": "A", "case": "collections", "insertion_order": 0, "observed": obs.iter().map(|o| json!({"hasher": o.hasher, "map_len": o.map_len, "set_len": o.set_len, "own_entry_found": o.lookups.iter().zip(keys.iter()).filter(|(l, k)| **l == Some(**k)).count()})).collect::<Vec<_>>()}));
    }
    for f in judge_collections(order, &obs) {
      if seen_oracles.contains(&f.oracle) { continue; }
      seen_oracles.push(f.oracle.clone());
      report(Violation { property: "C15".into(), oracle: f.oracle.clone(), key: String::new(), what: f.what.clone(),
        replay: json!({"part": "A", "case": "collections", "order": order, "oracle": f.oracle, "expected": f.expected, "observed": f.observed}) });
    }
  }
  (st, samples)
}

pub fn run(args: &Args) -> i32 {
  crate::runner::install_panic_hook();
  let mut rep = Report::new(args);
  rep.max_violations = 24;
  if let Some(file) = &args.replay { return replay(file, rep); }
  let start = std::time::Instant::now();
  let cfg = Cfg::for_tier(args.tier);

  // ---- part A
  let mut vs: Vec<Violation> = Vec::new();
  let (ast, mut samples) = part_a(&mut |v| vs.push(v));
  for v in vs.drain(..) { rep.violation(v); }

  // ---- part B: scripted show-case path (all types at once), judged like every BFS transition
  let mut seen_oracles: Vec<String> = Vec::new();
  let show = showcase_path();
  let show_obs = run_path_full(&show);
  let show_obs2 = run_path_full(&show);
  if show_obs != show_obs2 { engine_error("C15: two executions of the scripted path differ"); }
  let scripted_steps = show_obs.len();
  // `bfs-only` (extra argument, used to demonstrate that the search finds defects without the scripted path)
  let bfs_only = args.extra.iter().any(|e| e == "bfs-only");
  if let Some((step, fails, _)) = judge_path(&show, &show_obs).filter(|_| !bfs_only) {
    let mut m = MState::default();
    for op in &show[..=step] { let _ = m.step(op); }
    for f in &fails {
      if seen_oracles.contains(&f.oracle) { continue; }
      seen_oracles.push(f.oracle.clone());
      rep.violation(b_violation(&show[..=step], step, f, &show_obs[step], &m));
    }
  }
  samples.push(path_sample(&show, &show_obs));

  // ---- part B: BFS
  let res = bfs(&cfg, start);
  for bf in &res.fails {
    for f in &bf.fails {
      if seen_oracles.contains(&f.oracle) { continue; }
      seen_oracles.push(f.oracle.clone());
      rep.violation(b_violation(&bf.ops, bf.step, f, &bf.obs, &bf.post));
    }
  }
  if res.fails.is_empty() && !res.deepest_path.is_empty() {
    let obs = run_path_full(&res.deepest_path);
    samples.push(path_sample(&res.deepest_path, &obs));
  }
  let s = &res.stats;
  let alphabet = cfg.alphabet();
  rep.set("states", json!(s.states));
  rep.set("transitions", json!(s.transitions));
  rep.set("traces_validated_against_impl", json!(s.transitions + scripted_steps));
  rep.set("sessions_executed_on_real_pie", json!(s.sessions_on_real_pie));
  rep.set("fresh_pie_instances", json!(s.fresh_instances));
  rep.set("samples", Value::Array(samples));
  let exhaustive = s.fixed_point;
  rep.set("exhaustive", json!(exhaustive));
  rep.set("exhaustive_note", json!(if exhaustive {
    "part A: all ordered pairs of the stated families/values; part B: BFS reached its fixed point (no new model states) for the stated alphabet"
  } else if !res.fails.is_empty() {
    "search stopped at the first level containing a violation"
  } else {
    "part A complete; part B complete up to the reported max_depth only (depth or wall cap hit)"
  }));
  rep.set("search_end", json!(if s.fixed_point { "fixed point" } else if s.depth_capped { "depth cap" } else if s.wall_capped { "wall cap" } else { "violation" }));
  rep.set("rule", json!(RULE));
  rep.set("evaluations", json!(ast.evaluations + s.transitions + scripted_steps));
  rep.set("distinct_nontrivial", json!(ast.cross_type_equal_dyn_hash + s.nontrivial_states));
  rep.set("distinct_nontrivial_rule", json!(NONTRIVIAL_RULE));
  rep.set("distinct_nontrivial_detail", json!({"part_a_cross_type_equal_value_equal_hash_pairs": ast.cross_type_equal_dyn_hash, "part_b_states_with_lookalike_task_nodes": s.nontrivial_states}));
  rep.set("distinct_outcomes", json!({
    "part_a": {
      "ordered_pairs": ast.pairs, "same_key_pairs": ast.same_key_pairs, "same_type_other_value_pairs": ast.same_type_other_value,
      "cross_type_equal_value_pairs": ast.cross_type_equal_value, "cross_type_other_value_pairs": ast.cross_type_other_value,
      "cross_type_equal_value_pairs_with_equal_dyn_hash": ast.cross_type_equal_dyn_hash, "cross_type_equal_value_pairs_with_equal_debug_text": ast.cross_type_equal_debug,
      "pairs_observed_equal": ast.observed_equal, "pairs_observed_unequal": ast.observed_unequal,
      "dyn_hash_equals_concrete_hash (informational, not an oracle)": format!("{}/{}", ast.dyn_hash_equals_concrete_hash, ast.dyn_hash_checked),
      "collection_insertion_orders": ast.collection_orders, "collection_lookups": ast.collection_lookups,
    },
    "part_b": {
      "require_sessions_by_tasks_executed": {"0": s.exec_hist[0][0], "1": s.exec_hist[0][1], "2": s.exec_hist[0][2], "3+": s.exec_hist[0][3]},
      "bottom_up_sessions_by_tasks_executed": {"0": s.exec_hist[1][0], "1": s.exec_hist[1][1], "2": s.exec_hist[1][2], "3+": s.exec_hist[1][3]},
      "set_cell_transitions": s.setcell_transitions,
      "returned_outputs_histogram": s.outputs_hist.iter().map(|(k, v)| (k.to_string(), json!(v))).collect::<serde_json::Map<String, Value>>(),
      "cache_hits_while_a_lookalike_of_another_type_was_cached": s.cache_hits_with_lookalike_present,
      "states_per_bfs_level": s.levels,
    },
  }));
  rep.set("bounds", json!({
    "part_a": {"families": KFAMS.iter().map(|f| f.name()).collect::<Vec<_>>(), "values": KVALS, "pairs": "all ordered pairs", "hashers": ["RandomState", "DefaultHasher(fixed)", "ConstHasher(all collide)"], "insertion_orders": "all rotations, forward and reversed"},
    "part_b": {"alphabet": alphabet.iter().map(|o| o.name()).collect::<Vec<_>>(), "alphabet_size": alphabet.len(), "depth_cap": cfg.depth_cap, "wall_cap_s": cfg.wall_cap_s, "key_set": cfg.pruned_note, "threads": threads()},
    "dyn_TaskObj": "not nameable outside the crate (trait_object::task is pub(crate)); task identity is checked through the real Store in part B",
  }));
  rep.set("max_depth", json!(s.max_depth));
  rep.assume("Task / resource types of the harness are deterministic and their Eq/Hash/Debug are as written in c15.rs; a `Hash for dyn KeyObj` that differs from the concrete hash is reported as information only (identity must not depend on hash quality).");
  rep.assume("schedule_tasks_affected_by creates a resource node for a resource that was never read; the model counts reported resources as resource nodes (observed behaviour, not an identity issue).");
  rep.finish()
}

// ------------------------------------------------------------------------------------------------ replay

fn replay(file: &std::path::Path, mut rep: Report) -> i32 {
  let text = std::fs::read_to_string(file).unwrap_or_else(|e| engine_error(&format!("cannot read replay file: {}", e)));
  let v: Value = serde_json::from_str(&text).unwrap_or_else(|e| engine_error(&format!("replay file does not parse: {}", e)));
  let r = v.get("replay").unwrap_or(&v).clone();
  let part = r.get("part").and_then(|p| p.as_str()).unwrap_or_else(|| engine_error("replay: part missing"));
  let steps: usize;
  let mut found: Vec<Violation> = Vec::new();
  match part {
    "A" => {
      match r.get("case").and_then(|c| c.as_str()) {
        Some("pair") => {
          let x = r.get("x").and_then(|s| s.as_str()).and_then(a_key_parse).unwrap_or_else(|| engine_error("replay: bad x"));
          let y = r.get("y").and_then(|s| s.as_str()).and_then(a_key_parse).unwrap_or_else(|| engine_error("replay: bad y"));
          let o1 = observe_pair(x, y);
          let o2 = observe_pair(x, y);
          if o1 != o2 { engine_error("replay: two executions of the pair differ: not a verdict"); }
          steps = 1;
          for f in judge_pair(x, y, &o1) {
            found.push(Violation { property: "C15".into(), oracle: f.oracle.clone(), key: String::new(), what: f.what.clone(),
              replay: json!({"part": "A", "case": "pair", "x": a_key_name(x), "y": a_key_name(y), "oracle": f.oracle, "expected": f.expected, "observed": f.observed, "observation": o1.to_json()}) });
          }
          rep.set("samples", json!([{"part": "A", "x": a_key_name(x), "y": a_key_name(y), "observed": o1.to_json()}]));
        }
        Some("collections") => {
          let order = r.get("order").and_then(|o| o.as_u64()).unwrap_or_else(|| engine_error("replay: order missing")) as usize;
          if order >= 2 * a_keys().len() { engine_error("replay: order out of range"); }
          let o1 = observe_collections(order);
          let o2 = observe_collections(order);
          if o1 != o2 { engine_error("replay: two executions of the collection case differ: not a verdict"); }
          steps = 1;
          for f in judge_collections(order, &o1) {
            found.push(Violation { property: "C15".into(), oracle: f.oracle.clone(), key: String::new(), what: f.what.clone(),
              replay: json!({"part": "A", "case": "collections", "order": order, "oracle": f.oracle, "expected": f.expected, "observed": f.observed}) });
          }
          rep.set("samples", json!([{"part": "A", "case": "collections", "order": order}]));
        }
        _ => engine_error("replay: unknown part A case"),
      }
    }
    "B" => {
      let ops: Vec<Op> = r.get("ops").and_then(|o| o.as_array()).unwrap_or_else(|| engine_error("replay: ops missing"))
        .iter().map(|s| s.as_str().and_then(Op::parse).unwrap_or_else(|| engine_error(&format!("replay: bad op {}", s)))).collect();
      let o1 = run_path_full(&ops);
      let o2 = run_path_full(&ops);
      if o1 != o2 { engine_error("replay: two executions of the operation path differ: not a verdict"); }
      steps = o1.len();
      if let Some((step, fails, _)) = judge_path(&ops, &o1) {
        let mut m = MState::default();
        for op in &ops[..=step] { let _ = m.step(op); }
        for f in &fails { found.push(b_violation(&ops[..=step], step, f, &o1[step], &m)); }
      }
      rep.set("samples", json!([path_sample(&ops, &o1)]));
    }
    _ => engine_error("replay: unknown part"),
  }
  let n = found.len();
  let mut oracles: Vec<String> = Vec::new();
  for v in found { if oracles.contains(&v.oracle) { continue; } oracles.push(v.oracle.clone()); rep.violation(v); }
  if n == 0 { println!("replay: no violation"); }
  rep.set("states", json!(steps + 1));
  rep.set("transitions", json!(steps));
  rep.set("traces_validated_against_impl", json!(steps));
  rep.set("exhaustive", json!(false));
  rep.set("rule", json!("replay of one recorded case, executed twice with identical observations required, re-judged with the C15 oracles"));
  rep.set("evaluations", json!(steps));
  rep.set("distinct_nontrivial", json!(if steps > 0 { 1 } else { 0 }));
  rep.set("distinct_outcomes", json!({"oracles_failing": oracles}));
  rep.set("bounds", json!({"replay": file.display().to_string()}));
  rep.set("max_depth", json!(steps));
  rep.finish()
}

// =====================================================================================================================
// Unit tests of the reference model (and of the op syntax)
// =====================================================================================================================

#[cfg(test)]
mod tests {
  use super::*;

  fn l(f: Fam, v: u8) -> TKey { TKey::Leaf(f, v) }
  fn p(f: Fam, v: u8) -> TKey { TKey::Par(f, v) }
  const RA0: RKey = RKey(RFam::RA, 0);
  const RB0: RKey = RKey(RFam::RB, 0);

  #[test]
  fn equal_keys_execute_once_and_types_never_share() {
    let mut m = MState::default();
    let e = m.step(&Op::Req(l(Fam::A, 0)));
    assert_eq!((e.outputs.clone(), e.executed.clone()), (vec![1], vec![l(Fam::A, 0)]));
    let e = m.step(&Op::Req(l(Fam::A, 0)));
    assert_eq!((e.outputs.clone(), e.executed.len()), (vec![1], 0));
    // same value, other type: executes separately, other output
    let e = m.step(&Op::Req(l(Fam::B, 0)));
    assert_eq!((e.outputs.clone(), e.executed.clone()), (vec![2], vec![l(Fam::B, 0)]));
    let e = m.step(&Op::Req(l(Fam::BoxA, 0)));
    assert_eq!((e.outputs.clone(), e.executed.clone()), (vec![1], vec![l(Fam::BoxA, 0)]));
    let c = m.census();
    assert_eq!(c.tasks.len(), 3);
    assert_eq!(c.resources, vec![RA0, RB0]);
    assert_eq!(c.edges.len(), 3);
  }

  #[test]
  fn parent_shares_the_child_entry() {
    let mut m = MState::default();
    let e = m.step(&Op::Req(p(Fam::A, 0)));
    assert_eq!(e.outputs, vec![1]);
    assert_eq!(e.executed, vec![l(Fam::A, 0), p(Fam::A, 0)]);
    // the child reached directly is the same entry: nothing executes
    assert!(m.step(&Op::Req(l(Fam::A, 0))).executed.is_empty());
    // P(B,0) needs FB(0), which is not FA(0)
    let e = m.step(&Op::Req(p(Fam::B, 0)));
    assert_eq!(e.executed, vec![l(Fam::B, 0), p(Fam::B, 0)]);
    assert_eq!(e.outputs, vec![2]);
    // both in one session
    let mut m2 = MState::default();
    let e = m2.step(&Op::Req2(p(Fam::A, 0), l(Fam::A, 0)));
    assert_eq!(e.outputs, vec![1, 1]);
    assert_eq!(e.executed, vec![l(Fam::A, 0), p(Fam::A, 0)]);
  }

  #[test]
  fn set_cell_affects_only_its_family_and_value() {
    let mut m = MState::default();
    for k in [l(Fam::A, 0), l(Fam::B, 0), l(Fam::BoxA, 0), l(Fam::A, 1), p(Fam::A, 0), p(Fam::B, 0)] { m.step(&Op::Req(k)); }
    m.step(&Op::SetCell(RA0, 1));
    assert!(m.step(&Op::Req(l(Fam::B, 0))).executed.is_empty());
    assert!(m.step(&Op::Req(l(Fam::A, 1))).executed.is_empty());
    assert!(m.step(&Op::Req(p(Fam::B, 0))).executed.is_empty());
    let e = m.step(&Op::BottomUp(RA0));
    assert_eq!(e.executed, vec![l(Fam::A, 0), l(Fam::BoxA, 0), p(Fam::A, 0)]);
    assert!(m.step(&Op::Req(p(Fam::A, 0))).executed.is_empty());
    assert_eq!(m.step(&Op::Req(l(Fam::A, 0))).outputs, vec![11]);
    assert_eq!(m.step(&Op::Req(l(Fam::B, 0))).outputs, vec![2]);
  }

  #[test]
  fn parent_stamp_is_what_it_saw() {
    let mut m = MState::default();
    m.step(&Op::Req(p(Fam::A, 0))); // saw 1
    m.step(&Op::SetCell(RA0, 1));
    assert_eq!(m.step(&Op::Req(l(Fam::A, 0))).outputs, vec![11]); // child re-executed directly; P still has stamp 1
    m.step(&Op::SetCell(RA0, 0));
    let e = m.step(&Op::BottomUp(RA0)); // child back to 1 == stamp: P not re-executed
    assert_eq!(e.executed, vec![l(Fam::A, 0)]);
    assert!(m.step(&Op::Req(p(Fam::A, 0))).executed.is_empty());
    // top-down variant
    let mut m = MState::default();
    m.step(&Op::Req(p(Fam::A, 0)));
    m.step(&Op::SetCell(RA0, 1));
    let e = m.step(&Op::Req(p(Fam::A, 0)));
    assert_eq!((e.outputs, e.executed), (vec![11], vec![l(Fam::A, 0), p(Fam::A, 0)]));
  }

  #[test]
  fn bottom_up_creates_the_reported_resource_node_only() {
    let mut m = MState::default();
    let e = m.step(&Op::BottomUp(RB0));
    assert!(e.executed.is_empty());
    assert_eq!(m.census().resources, vec![RB0]);
    assert!(m.census().tasks.is_empty());
  }

  #[test]
  fn encoding_is_injective_on_reachable_states() {
    let cfg = Cfg::for_tier(Tier::Quick);
    let ops = cfg.alphabet();
    let mut seen: HashMap<u64, MState> = HashMap::new();
    let mut frontier = vec![MState::default()];
    seen.insert(frontier[0].encode(), frontier[0]);
    for _ in 0..4 {
      let mut next = Vec::new();
      for s in &frontier { for op in &ops {
        let mut t = *s; t.step(op);
        match seen.get(&t.encode()) { Some(o) => assert_eq!(*o, t), None => { seen.insert(t.encode(), t); next.push(t); } }
      } }
      frontier = next;
    }
    assert!(seen.len() > 100);
  }

  #[test]
  fn op_names_round_trip() {
    for tier in [Tier::Quick, Tier::Thorough] {
      for op in Cfg::for_tier(tier).alphabet() { assert_eq!(Op::parse(&op.name()), Some(op), "{}", op.name()); }
    }
    for op in showcase_path() { assert_eq!(Op::parse(&op.name()), Some(op)); }
    for k in a_keys() { assert_eq!(a_key_parse(&a_key_name(k)), Some(k)); }
  }

  #[test]
  fn model_agrees_with_real_pie_on_the_scripted_path() {
    crate::runner::install_panic_hook();
    let ops = showcase_path();
    let obs = run_path_full(&ops);
    assert_eq!(obs.len(), ops.len());
    assert!(judge_path(&ops, &obs).is_none());
  }

  #[test]
  fn part_a_identity_rule_on_real_code() {
    for x in a_keys() { for y in a_keys() { assert!(judge_pair(x, y, &observe_pair(x, y)).is_empty()); } }
    assert!(judge_collections(0, &observe_collections(0)).is_empty());
  }
}
