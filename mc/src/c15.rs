//! C15 — "Task and resource identity is (concrete type, value)".
//!
//! Part A: exhaustive pairwise enumeration over key families with identical representation / hash (/ Debug text)
//! through the public `dyn KeyObj` trait object (`==`, `Box<dyn KeyObj> == dyn KeyObj`, `Hash`, hash-map / hash-set
//! membership under three hashers, one of them constant). `dyn TaskObj` is NOT nameable from outside the crate
//! (`pie::trait_object::task` is `pub(crate)`), so task identity is covered through the real `Store` in part B.
//!
//! Part B: explicit-state breadth-first search over operation sequences on a real `Pie` with a plain reference model.
//! Every transition is executed on a fresh `Pie` by replaying the operation path; output, executed task identities
//! (recording tracker), and the complete store census (verification hook) are compared with the model after the op.

use std::collections::hash_map::DefaultHasher;
use std::collections::{BTreeMap, HashMap, HashSet};
use std::convert::Infallible;
use std::fmt::{self, Debug};
use std::hash::{BuildHasherDefault, Hash, Hasher};
use std::panic::{catch_unwind, AssertUnwindSafe};
use std::rc::Rc;
use std::sync::atomic::{AtomicUsize, Ordering};
use std::sync::Arc;

use pie::task::EqualsChecker;
use pie::tracker::Tracker;
use pie::trait_object::KeyObj;
use pie::verif::{Node, VerifEdge, VerifNode, VerifStoreVisitor};
use pie::{Context, Pie, Resource, ResourceChecker, ResourceState, Task};
use serde_json::{json, Value};

use crate::common::{engine_error, Args, Report, Tier, Violation};

// =====================================================================================================================
// Part A: pairwise enumeration through `dyn KeyObj`
// =====================================================================================================================

/// Newtype family A. Same derives and same (hand-written) Debug text as `B`.
#[derive(Clone, PartialEq, Eq, Hash)]
pub struct A(pub u8);
/// Newtype family B.
#[derive(Clone, PartialEq, Eq, Hash)]
pub struct B(pub u8);
impl Debug for A { fn fmt(&self, f: &mut fmt::Formatter<'_>) -> fmt::Result { write!(f, "K({})", self.0) } }
impl Debug for B { fn fmt(&self, f: &mut fmt::Formatter<'_>) -> fmt::Result { write!(f, "K({})", self.0) } }

/// Zero-sized families: unit structs with the same derives and the same hand-written Debug text. All zero-sized keys
/// hash nothing (identical hash), every `Box` of them has the same dangling address, and borrowed locals / statics /
/// promoted constants of different zero-sized types may share an address: only the type separates them.
#[derive(Clone, PartialEq, Eq, Hash)]
pub struct ZA;
#[derive(Clone, PartialEq, Eq, Hash)]
pub struct ZB;
impl Debug for ZA { fn fmt(&self, f: &mut fmt::Formatter<'_>) -> fmt::Result { write!(f, "Z") } }
impl Debug for ZB { fn fmt(&self, f: &mut fmt::Formatter<'_>) -> fmt::Result { write!(f, "Z") } }
/// Newtype of a unit struct (still zero-sized), same Debug text.
#[derive(Clone, PartialEq, Eq, Hash)]
pub struct WA(pub ZA);
impl Debug for WA { fn fmt(&self, f: &mut fmt::Formatter<'_>) -> fmt::Result { write!(f, "Z") } }

/// Key families whose hand-written `Hash` is coarser than their `Eq` (legal: equal values hash equal, unequal values
/// may collide): `HK(a,b)` hashes `a` only, `CK(v)` hashes nothing. Unequal values of ONE type with identical hash.
#[derive(Clone, PartialEq, Eq, Debug)]
pub struct HK(pub u8, pub u8);
impl Hash for HK { fn hash<H: Hasher>(&self, state: &mut H) { self.0.hash(state); } }
#[derive(Clone, PartialEq, Eq, Debug)]
pub struct CK(pub u8);
impl Hash for CK { fn hash<H: Hasher>(&self, _state: &mut H) {} }

static S_HK0: HK = HK(0, 0);
static S_HK1: HK = HK(0, 1);
static S_CK0: CK = CK(0);
static S_CK1: CK = CK(1);
static S_ZA: ZA = ZA;
static S_ZB: ZB = ZB;
static S_WA: WA = WA(ZA);
static S_UNIT: () = ();
static S_A0: A = A(0);
static S_A1: A = A(1);
static S_B0: B = B(0);
static S_B1: B = B(1);
static S_T0: (u8,) = (0,);
static S_T1: (u8,) = (1,);
static S_U0: u8 = 0;
static S_U1: u8 = 1;

#[derive(Clone, Copy, PartialEq, Eq, Hash, PartialOrd, Ord, Debug)]
pub enum KFam { A, B, Tup, U8, BoxA, RcA, ArcA, BoxB, ZA, ZB, Unit, WA, BoxZA, RcZA, ArcZA, HK, CK }

pub const KFAMS: [KFam; 17] = [KFam::A, KFam::B, KFam::Tup, KFam::U8, KFam::BoxA, KFam::RcA, KFam::ArcA, KFam::BoxB,
  KFam::ZA, KFam::ZB, KFam::Unit, KFam::WA, KFam::BoxZA, KFam::RcZA, KFam::ArcZA, KFam::HK, KFam::CK];

impl KFam {
  pub fn name(&self) -> &'static str {
    match self {
      KFam::A => "A", KFam::B => "B", KFam::Tup => "(u8,)", KFam::U8 => "u8", KFam::BoxA => "Box<A>", KFam::RcA => "Rc<A>", KFam::ArcA => "Arc<A>", KFam::BoxB => "Box<B>",
      KFam::ZA => "ZA", KFam::ZB => "ZB", KFam::Unit => "()", KFam::WA => "WA", KFam::BoxZA => "Box<ZA>", KFam::RcZA => "Rc<ZA>", KFam::ArcZA => "Arc<ZA>",
      KFam::HK => "HK(0,_)", KFam::CK => "CK",
    }
  }
  /// Families without a field have the single value 0.
  pub fn fieldless(&self) -> bool { matches!(self, KFam::ZA | KFam::ZB | KFam::Unit | KFam::WA | KFam::BoxZA | KFam::RcZA | KFam::ArcZA) }
  /// The concrete type itself is zero-sized.
  pub fn zero_sized(&self) -> bool { matches!(self, KFam::ZA | KFam::ZB | KFam::Unit | KFam::WA) }
  pub fn values(&self) -> &'static [u8] { if self.fieldless() { &[0] } else { &[0, 1] } }
}

/// A concrete key value kept by value (so that `&x as &dyn KeyObj` is taken from the concrete value, not from a box).
pub enum Conc {
  A(A), B(B), Tup((u8,)), U8(u8), BoxA(Box<A>), RcA(Rc<A>), ArcA(Arc<A>), BoxB(Box<B>),
  ZA(ZA), ZB(ZB), Unit(()), WA(WA), BoxZA(Box<ZA>), RcZA(Rc<ZA>), ArcZA(Arc<ZA>), HK(HK), CK(CK),
}

macro_rules! conc_each {
  ($self:expr, $x:ident => $e:expr) => {
    match $self {
      Conc::A($x) => $e, Conc::B($x) => $e, Conc::Tup($x) => $e, Conc::U8($x) => $e, Conc::BoxA($x) => $e, Conc::RcA($x) => $e, Conc::ArcA($x) => $e, Conc::BoxB($x) => $e,
      Conc::ZA($x) => $e, Conc::ZB($x) => $e, Conc::Unit($x) => $e, Conc::WA($x) => $e, Conc::BoxZA($x) => $e, Conc::RcZA($x) => $e, Conc::ArcZA($x) => $e, Conc::HK($x) => $e, Conc::CK($x) => $e,
    }
  };
}

impl Conc {
  pub fn new(f: KFam, v: u8) -> Conc {
    match f {
      KFam::A => Conc::A(A(v)), KFam::B => Conc::B(B(v)), KFam::Tup => Conc::Tup((v,)), KFam::U8 => Conc::U8(v),
      KFam::BoxA => Conc::BoxA(Box::new(A(v))), KFam::RcA => Conc::RcA(Rc::new(A(v))), KFam::ArcA => Conc::ArcA(Arc::new(A(v))),
      KFam::BoxB => Conc::BoxB(Box::new(B(v))),
      KFam::ZA => Conc::ZA(ZA), KFam::ZB => Conc::ZB(ZB), KFam::Unit => Conc::Unit(()), KFam::WA => Conc::WA(WA(ZA)),
      KFam::BoxZA => Conc::BoxZA(Box::new(ZA)), KFam::RcZA => Conc::RcZA(Rc::new(ZA)), KFam::ArcZA => Conc::ArcZA(Arc::new(ZA)),
      KFam::HK => Conc::HK(HK(0, v)), KFam::CK => Conc::CK(CK(v)),
    }
  }
  /// `&x as &dyn KeyObj` of the value stored in this enum.
  pub fn as_dyn(&self) -> &dyn KeyObj { conc_each!(self, x => x as &dyn KeyObj) }
  /// `Box<dyn KeyObj>` holding a clone (for zero-sized types: the dangling address shared by all of them).
  pub fn boxed(&self) -> Box<dyn KeyObj> { conc_each!(self, x => Box::new(x.clone()) as Box<dyn KeyObj>) }
  /// Hash of the concrete value (no trait object involved) with a fresh `DefaultHasher`.
  pub fn concrete_hash(&self) -> u64 {
    let mut h = DefaultHasher::new();
    conc_each!(self, x => x.hash(&mut h));
    h.finish()
  }
}

/// A `static` of the key, where the type allows one (not Box/Rc/Arc).
pub fn static_form(k: (KFam, u8)) -> Option<&'static dyn KeyObj> {
  Some(match k {
    (KFam::A, 0) => &S_A0 as &dyn KeyObj, (KFam::A, 1) => &S_A1, (KFam::B, 0) => &S_B0, (KFam::B, 1) => &S_B1,
    (KFam::Tup, 0) => &S_T0, (KFam::Tup, 1) => &S_T1, (KFam::U8, 0) => &S_U0, (KFam::U8, 1) => &S_U1,
    (KFam::ZA, 0) => &S_ZA, (KFam::ZB, 0) => &S_ZB, (KFam::Unit, 0) => &S_UNIT, (KFam::WA, 0) => &S_WA,
    (KFam::HK, 0) => &S_HK0, (KFam::HK, 1) => &S_HK1, (KFam::CK, 0) => &S_CK0, (KFam::CK, 1) => &S_CK1,
    _ => return None,
  })
}
/// A promoted constant (`&ZA` as an rvalue with static lifetime) of the key, where the type allows one.
pub fn promoted_form(k: (KFam, u8)) -> Option<&'static dyn KeyObj> {
  Some(match k {
    (KFam::A, 0) => &A(0) as &dyn KeyObj, (KFam::A, 1) => &A(1), (KFam::B, 0) => &B(0), (KFam::B, 1) => &B(1),
    (KFam::Tup, 0) => &(0u8,), (KFam::Tup, 1) => &(1u8,), (KFam::U8, 0) => &0u8, (KFam::U8, 1) => &1u8,
    (KFam::ZA, 0) => &ZA, (KFam::ZB, 0) => &ZB, (KFam::Unit, 0) => &(), (KFam::WA, 0) => &WA(ZA),
    (KFam::HK, 0) => &HK(0, 0), (KFam::HK, 1) => &HK(0, 1), (KFam::CK, 0) => &CK(0), (KFam::CK, 1) => &CK(1),
    _ => return None,
  })
}

/// One key in every operand form: stored in an enum (borrowed), boxed, borrowed from a fresh local box (`&*Box::new(x)`
/// is the same as boxed), static, promoted constant.
pub struct Operand {
  pub key: (KFam, u8),
  pub conc: Conc,
  pub boxed: Box<dyn KeyObj>,
}
impl Operand {
  pub fn new(key: (KFam, u8)) -> Operand { let conc = Conc::new(key.0, key.1); let boxed = conc.boxed(); Operand { key, conc, boxed } }
  pub fn forms(&self) -> Vec<(&'static str, &dyn KeyObj)> {
    let mut v: Vec<(&'static str, &dyn KeyObj)> = vec![("stored", self.conc.as_dyn()), ("boxed", self.boxed.as_ref())];
    if let Some(s) = static_form(self.key) { v.push(("static", s)); }
    if let Some(p) = promoted_form(self.key) { v.push(("promoted", p)); }
    v
  }
}

pub fn data_addr(k: &dyn KeyObj) -> usize { k as *const dyn KeyObj as *const () as usize }

pub fn dyn_hash(k: &dyn KeyObj) -> u64 {
  let mut h = DefaultHasher::new();
  k.hash(&mut h);
  h.finish()
}

/// All part-A keys, smallest / most telling first: (A,0), (B,0), ..., the zero-sized ones, then value 1.
pub fn a_keys() -> Vec<(KFam, u8)> {
  let mut v = Vec::new();
  for val in [0u8, 1] { for f in KFAMS { if f.values().contains(&val) { v.push((f, val)); } } }
  v
}
fn a_key_name(k: (KFam, u8)) -> String { format!("{}:{}", k.0.name(), k.1) }
fn a_key_parse(s: &str) -> Option<(KFam, u8)> {
  let (f, v) = s.rsplit_once(':')?;
  let fam = KFAMS.iter().copied().find(|k| k.name() == f)?;
  let val: u8 = v.parse().ok()?;
  if !fam.values().contains(&val) { return None; }
  Some((fam, val))
}

/// A hasher that ignores its input: every key collides, so every lookup is decided by `==` alone.
#[derive(Default)]
pub struct ConstHasher;
impl Hasher for ConstHasher {
  fn finish(&self) -> u64 { 0 }
  fn write(&mut self, _bytes: &[u8]) {}
}

/// One evaluated equality: route, operand forms, result, and whether both operands had the same data address.
#[derive(Clone, PartialEq, Eq, Debug)]
pub struct EqObs { pub route: &'static str, pub form_x: &'static str, pub form_y: &'static str, pub result: bool, pub same_addr: bool }

/// Everything observed for one ordered pair.
#[derive(Clone, PartialEq, Eq, Debug)]
pub struct PairObs {
  /// all six equality routes over all operand forms
  pub eqs: Vec<EqObs>,
  pub hash_dyn_x: Vec<u64>,
  pub hash_dyn_y: Vec<u64>,
  pub hash_box_x: u64,
  pub hash_conc_x: u64,
  pub hash_conc_y: u64,
  pub debug_x: String,
  pub debug_y: String,
  pub clone_same_type: bool,
}

impl PairObs {
  pub fn eq_dyn_stored(&self) -> bool { self.eqs.iter().find(|e| e.route == "dyn==dyn" && e.form_x == "stored" && e.form_y == "stored").map(|e| e.result).unwrap_or(false) }
  fn to_json(&self) -> Value {
    let hx = |v: &Vec<u64>| v.iter().map(|h| format!("{:016x}", h)).collect::<Vec<_>>();
    json!({
      "equalities": self.eqs.iter().map(|e| format!("{} [{} / {}]{} = {}", e.route, e.form_x, e.form_y, if e.same_addr { " (same address)" } else { "" }, e.result)).collect::<Vec<_>>(),
      "hash_dyn_x": hx(&self.hash_dyn_x), "hash_dyn_y": hx(&self.hash_dyn_y), "hash_box_x": format!("{:016x}", self.hash_box_x),
      "hash_conc_x": format!("{:016x}", self.hash_conc_x), "hash_conc_y": format!("{:016x}", self.hash_conc_y),
      "debug_x": self.debug_x, "debug_y": self.debug_y, "clone_same_type": self.clone_same_type})
  }
}

#[derive(Clone, Debug)]
pub struct Fail { pub oracle: String, pub what: String, pub expected: Value, pub observed: Value }

/// Executes all pairwise operations on the real trait-object code for the ordered pair (x, y). x and y are built
/// independently (distinct allocations for Box/Rc/Arc even when x and y denote the same key), in every operand form.
pub fn observe_pair(x: (KFam, u8), y: (KFam, u8)) -> PairObs {
  let ox = Operand::new(x);
  let oy = Operand::new(y);
  let fx = ox.forms();
  let fy = oy.forms();
  let mut eqs = Vec::new();
  for (nx, dx) in &fx {
    for (ny, dy) in &fy {
      let same_addr = data_addr(*dx) == data_addr(*dy);
      // routes 1, 2: `&dyn KeyObj == &dyn KeyObj`, both operand orders
      eqs.push(EqObs { route: "dyn==dyn", form_x: nx, form_y: ny, result: *dx == *dy, same_addr });
      eqs.push(EqObs { route: "dyn==dyn(rev)", form_x: nx, form_y: ny, result: *dy == *dx, same_addr });
      // route 6: clone of x (a fresh Box<dyn KeyObj>) against y
      let cx: Box<dyn KeyObj> = (*dx).to_owned();
      eqs.push(EqObs { route: "to_owned==dyn", form_x: nx, form_y: ny, result: cx.as_ref() == *dy, same_addr: data_addr(cx.as_ref()) == data_addr(*dy) });
    }
  }
  for (ny, dy) in &fy {
    // route 3: `Box<dyn KeyObj> == dyn KeyObj`
    eqs.push(EqObs { route: "box==dyn", form_x: "boxed", form_y: ny, result: <Box<dyn KeyObj> as PartialEq<dyn KeyObj>>::eq(&ox.boxed, *dy), same_addr: data_addr(ox.boxed.as_ref()) == data_addr(*dy) });
  }
  for (nx, dx) in &fx {
    // route 4: the same impl with the operands exchanged
    eqs.push(EqObs { route: "box==dyn(rev)", form_x: nx, form_y: "boxed", result: <Box<dyn KeyObj> as PartialEq<dyn KeyObj>>::eq(&oy.boxed, *dx), same_addr: data_addr(oy.boxed.as_ref()) == data_addr(*dx) });
  }
  // route 5: `Box<dyn KeyObj> == Box<dyn KeyObj>`
  eqs.push(EqObs { route: "box==box", form_x: "boxed", form_y: "boxed", result: ox.boxed == oy.boxed, same_addr: data_addr(ox.boxed.as_ref()) == data_addr(oy.boxed.as_ref()) });
  let dx0 = ox.conc.as_dyn();
  let clone_x: Box<dyn KeyObj> = dx0.to_owned();
  PairObs {
    eqs,
    hash_dyn_x: fx.iter().map(|(_, d)| dyn_hash(*d)).collect(),
    hash_dyn_y: fy.iter().map(|(_, d)| dyn_hash(*d)).collect(),
    hash_box_x: { let mut h = DefaultHasher::new(); ox.boxed.hash(&mut h); h.finish() },
    hash_conc_x: ox.conc.concrete_hash(),
    hash_conc_y: oy.conc.concrete_hash(),
    debug_x: format!("{:?}", dx0),
    debug_y: format!("{:?}", oy.conc.as_dyn()),
    clone_same_type: clone_x.as_ref().as_any().type_id() == dx0.as_any().type_id(),
  }
}

/// Judges one pair observation. Identity rule: same ⇔ same family and same value.
pub fn judge_pair(x: (KFam, u8), y: (KFam, u8), o: &PairObs) -> Vec<Fail> {
  let same = x == y;
  let mut fails = Vec::new();
  for e in &o.eqs {
    if e.result != same {
      let id = match e.route { "dyn==dyn" | "dyn==dyn(rev)" => "eq-dyn", "box==dyn" | "box==dyn(rev)" => "eq-box", "box==box" => "eq-box-box", _ => "eq-clone" };
      if fails.iter().any(|f: &Fail| f.oracle == format!("C15/A/{}", id)) { continue; }
      fails.push(Fail { oracle: format!("C15/A/{}", id), what: format!("`{}` of {} ({}) and {} ({}){} is {} but identity (type, value) says {}", e.route, a_key_name(x), e.form_x, a_key_name(y), e.form_y, if e.same_addr { " [operands share one address]" } else { "" }, e.result, same), expected: json!(same), observed: json!(e.result) });
    }
  }
  // symmetry: every dyn==dyn evaluation is immediately followed by its reversed evaluation
  for w in o.eqs.chunks(3) {
    if w.len() == 3 && w[0].route == "dyn==dyn" && w[1].route == "dyn==dyn(rev)" && w[0].result != w[1].result {
      fails.push(Fail { oracle: "C15/A/eq-symmetry".into(), what: format!("== on dyn KeyObj is not symmetric for {} ({}) and {} ({})", a_key_name(x), w[0].form_x, a_key_name(y), w[0].form_y), expected: json!("x==y equals y==x"), observed: json!([w[0].result, w[1].result]) });
      break;
    }
  }
  let hx = o.hash_dyn_x[0];
  if o.hash_dyn_x.iter().any(|h| *h != hx) {
    fails.push(Fail { oracle: "C15/A/hash-equal-keys".into(), what: format!("operand forms of {} hash differently through dyn KeyObj", a_key_name(x)), expected: json!("equal hashes"), observed: json!(o.hash_dyn_x.iter().map(|h| format!("{:016x}", h)).collect::<Vec<_>>()) });
  }
  if same && o.hash_dyn_y.iter().any(|h| *h != hx) {
    fails.push(Fail { oracle: "C15/A/hash-equal-keys".into(), what: format!("equal keys {} hash differently through dyn KeyObj", a_key_name(x)), expected: json!("equal hashes"), observed: json!([format!("{:016x}", hx), o.hash_dyn_y.iter().map(|h| format!("{:016x}", h)).collect::<Vec<_>>()]) });
  }
  if o.hash_box_x != hx {
    fails.push(Fail { oracle: "C15/A/hash-box-vs-dyn".into(), what: format!("Box<dyn KeyObj> and dyn KeyObj hash differently for {} (breaks Borrow-based map lookup)", a_key_name(x)), expected: json!(format!("{:016x}", hx)), observed: json!(format!("{:016x}", o.hash_box_x)) });
  }
  if !o.clone_same_type {
    fails.push(Fail { oracle: "C15/A/clone-type".into(), what: format!("to_owned() of {} has another concrete type", a_key_name(x)), expected: json!(true), observed: json!(false) });
  }
  fails
}

/// Observation of the collection test for one insertion order and one hasher: map len, set len, per key and operand
/// form what the map lookup returned and the set membership.
#[derive(Clone, PartialEq, Eq, Debug)]
pub struct CollObs {
  pub hasher: &'static str,
  pub map_len: usize,
  pub set_len: usize,
  /// per key: (operand form, lookup result, set membership)
  pub lookups: Vec<Vec<(&'static str, Option<(KFam, u8)>, bool)>>,
  pub absent_found: usize,
}

fn coll_run<S: std::hash::BuildHasher + Default>(hasher: &'static str, order: &[usize], keys: &[(KFam, u8)]) -> CollObs {
  let mut map: HashMap<Box<dyn KeyObj>, (KFam, u8), S> = HashMap::default();
  let mut set: HashSet<Box<dyn KeyObj>, S> = HashSet::default();
  // Two rounds: the second round inserts independently constructed equal keys, which must hit the existing entries.
  for _round in 0..2 {
    for &i in order {
      let c = Conc::new(keys[i].0, keys[i].1);
      map.insert(c.boxed(), keys[i]);
      set.insert(c.boxed());
    }
  }
  let mut lookups = Vec::new();
  for k in keys {
    let o = Operand::new(*k);
    lookups.push(o.forms().iter().map(|(n, d)| (*n, map.get(*d).copied(), set.contains(*d))).collect());
  }
  // Keys never inserted (value 2 of every family with a field) must not be found.
  let mut absent_found = 0;
  for f in KFAMS {
    if f.fieldless() { continue; }
    let c = Conc::new(f, 2);
    if map.get(c.as_dyn()).is_some() || set.contains(c.as_dyn()) { absent_found += 1; }
  }
  CollObs { hasher, map_len: map.len(), set_len: set.len(), lookups, absent_found }
}

/// Insertion order number `n`: rotations 0..len, then reversed rotations.
fn coll_order(n: usize, len: usize) -> Vec<usize> {
  let rot = n % len;
  let mut v: Vec<usize> = (0..len).map(|i| (i + rot) % len).collect();
  if n >= len { v.reverse(); }
  v
}

pub fn observe_collections(order_no: usize) -> Vec<CollObs> {
  let keys = a_keys();
  let order = coll_order(order_no, keys.len());
  vec![
    coll_run::<std::collections::hash_map::RandomState>("RandomState", &order, &keys),
    coll_run::<BuildHasherDefault<DefaultHasher>>("DefaultHasher(fixed)", &order, &keys),
    coll_run::<BuildHasherDefault<ConstHasher>>("ConstHasher(all collide)", &order, &keys),
  ]
}

pub fn judge_collections(order_no: usize, obs: &[CollObs]) -> Vec<Fail> {
  let keys = a_keys();
  let mut fails = Vec::new();
  for o in obs {
    if o.map_len != keys.len() {
      fails.push(Fail { oracle: "C15/A/map-entries".into(), what: format!("HashMap<Box<dyn KeyObj>,_> ({}) filled with all {} keys (insertion order {}) has {} entries", o.hasher, keys.len(), order_no, o.map_len), expected: json!(keys.len()), observed: json!(o.map_len) });
    }
    if o.set_len != keys.len() {
      fails.push(Fail { oracle: "C15/A/set-entries".into(), what: format!("HashSet<Box<dyn KeyObj>> ({}) filled with all {} keys (insertion order {}) has {} entries", o.hasher, keys.len(), order_no, o.set_len), expected: json!(keys.len()), observed: json!(o.set_len) });
    }
    for (i, k) in keys.iter().enumerate() {
      for (form, found, contained) in &o.lookups[i] {
        if *found != Some(*k) {
          fails.push(Fail { oracle: "C15/A/map-lookup".into(), what: format!("lookup of {} ({}) in the map ({}, insertion order {}) found {:?}", a_key_name(*k), form, o.hasher, order_no, found.map(a_key_name)), expected: json!(a_key_name(*k)), observed: json!(found.map(a_key_name)) });
        }
        if !*contained {
          fails.push(Fail { oracle: "C15/A/set-lookup".into(), what: format!("{} ({}) not found in the set ({}, insertion order {})", a_key_name(*k), form, o.hasher, order_no), expected: json!(true), observed: json!(false) });
        }
      }
    }
    if o.absent_found != 0 {
      fails.push(Fail { oracle: "C15/A/absent-found".into(), what: format!("{} never-inserted keys (value 2) were found in map/set ({}, insertion order {})", o.absent_found, o.hasher, order_no), expected: json!(0), observed: json!(o.absent_found) });
    }
  }
  fails
}

#[derive(Default, Debug)]
pub struct AStats {
  pub pairs: usize,
  pub evaluations: usize,
  pub equality_evaluations: usize,
  pub same_key_pairs: usize,
  pub same_type_other_value: usize,
  /// unequal values of one type whose hashes coincide (coarse hand-written Hash)
  pub same_type_other_value_equal_hash: usize,
  pub cross_type_equal_value: usize,
  pub cross_type_other_value: usize,
  pub cross_type_equal_dyn_hash: usize,
  pub cross_type_equal_debug: usize,
  pub cross_type_zero_sized_pairs: usize,
  /// equality evaluations between keys of different types whose operands had the same data address
  pub cross_type_same_address_evaluations: usize,
  pub observed_equal: usize,
  pub observed_unequal: usize,
  pub dyn_hash_equals_concrete_hash: usize,
  pub dyn_hash_checked: usize,
  pub collection_orders: usize,
  pub collection_lookups: usize,
}

// =====================================================================================================================
// Part B: pie types
// =====================================================================================================================

/// Task family A (reads `RA`, output `cell*10+1`). Same derives / Debug text / Hash as `FB`.
#[derive(Clone, PartialEq, Eq, Hash)]
pub struct FA(pub u8);
/// Task family B (reads `RB`, output `cell*10+2`).
#[derive(Clone, PartialEq, Eq, Hash)]
pub struct FB(pub u8);
impl Debug for FA { fn fmt(&self, f: &mut fmt::Formatter<'_>) -> fmt::Result { write!(f, "F({})", self.0) } }
impl Debug for FB { fn fmt(&self, f: &mut fmt::Formatter<'_>) -> fmt::Result { write!(f, "F({})", self.0) } }

/// Zero-sized task types: unit structs, same derives, same Debug text, same (empty) hash. `ZTA` behaves exactly like
/// `FA(0)`, `ZTB` like `FB(0)`; `ZUA` / `ZUB` read the zero-sized resources `ZRA` / `ZRB`.
#[derive(Clone, PartialEq, Eq, Hash)]
pub struct ZTA;
#[derive(Clone, PartialEq, Eq, Hash)]
pub struct ZTB;
#[derive(Clone, PartialEq, Eq, Hash)]
pub struct ZUA;
#[derive(Clone, PartialEq, Eq, Hash)]
pub struct ZUB;
impl Debug for ZTA { fn fmt(&self, f: &mut fmt::Formatter<'_>) -> fmt::Result { write!(f, "ZT") } }
impl Debug for ZTB { fn fmt(&self, f: &mut fmt::Formatter<'_>) -> fmt::Result { write!(f, "ZT") } }
impl Debug for ZUA { fn fmt(&self, f: &mut fmt::Formatter<'_>) -> fmt::Result { write!(f, "ZT") } }
impl Debug for ZUB { fn fmt(&self, f: &mut fmt::Formatter<'_>) -> fmt::Result { write!(f, "ZT") } }

/// Resource family A / B: same derives / Debug text / Hash.
#[derive(Clone, PartialEq, Eq, Hash)]
pub struct RA(pub u8);
#[derive(Clone, PartialEq, Eq, Hash)]
pub struct RB(pub u8);
impl Debug for RA { fn fmt(&self, f: &mut fmt::Formatter<'_>) -> fmt::Result { write!(f, "R({})", self.0) } }
impl Debug for RB { fn fmt(&self, f: &mut fmt::Formatter<'_>) -> fmt::Result { write!(f, "R({})", self.0) } }
/// Zero-sized resource types, each with its own cell (index 0 of its own per-type `Cells`).
#[derive(Clone, PartialEq, Eq, Hash)]
pub struct ZRA;
#[derive(Clone, PartialEq, Eq, Hash)]
pub struct ZRB;
impl Debug for ZRA { fn fmt(&self, f: &mut fmt::Formatter<'_>) -> fmt::Result { write!(f, "ZR") } }
impl Debug for ZRB { fn fmt(&self, f: &mut fmt::Formatter<'_>) -> fmt::Result { write!(f, "ZR") } }

/// A type used in BOTH roles: the task `Dual(v)` reads the resource `Dual(v)` (same type, same value) and returns
/// `cell*10+5`. Task node and resource node of the same key must stay two nodes (role is part of the identity).
#[derive(Clone, PartialEq, Eq, Hash)]
pub struct Dual(pub u8);
impl Debug for Dual { fn fmt(&self, f: &mut fmt::Formatter<'_>) -> fmt::Result { write!(f, "D({})", self.0) } }

/// Task / resource types whose `Hash` is coarser than their `Eq`: `HT(a,b)` hashes `a` only (the alphabet uses
/// HT(0,0) and HT(0,1): unequal, same hash), `CT(v)` and the resource `HR(v)` hash nothing (all values collide).
/// `HT(0,b)` reads `RA(0)` and returns `cell*10+6+b`; `CT(v)` reads `HR(v)` and returns `cell*10+8+v`.
#[derive(Clone, PartialEq, Eq, Debug)]
pub struct HT(pub u8, pub u8);
impl Hash for HT { fn hash<H: Hasher>(&self, state: &mut H) { self.0.hash(state); } }
#[derive(Clone, PartialEq, Eq, Debug)]
pub struct CT(pub u8);
impl Hash for CT { fn hash<H: Hasher>(&self, _state: &mut H) {} }
#[derive(Clone, PartialEq, Eq, Debug)]
pub struct HR(pub u8);
impl Hash for HR { fn hash<H: Hasher>(&self, _state: &mut H) {} }

/// Cell store; one instance per resource TYPE, kept in pie's per-resource-type state (same state type for all).
#[derive(Default, Clone, Debug)]
pub struct Cells { pub v: [u8; 2] }

/// Equality-style resource checker: stamp = cell value.
#[derive(Clone, Copy, PartialEq, Eq, Hash, Debug)]
pub struct CellEq;

trait CellId { fn cell_id(&self) -> usize; }
impl CellId for RA { fn cell_id(&self) -> usize { self.0 as usize } }
impl CellId for RB { fn cell_id(&self) -> usize { self.0 as usize } }
impl CellId for ZRA { fn cell_id(&self) -> usize { 0 } }
impl CellId for ZRB { fn cell_id(&self) -> usize { 0 } }
impl CellId for Dual { fn cell_id(&self) -> usize { self.0 as usize } }
impl CellId for HR { fn cell_id(&self) -> usize { self.0 as usize } }

macro_rules! impl_cell_resource {
  ($ty:ty) => {
    impl Resource for $ty {
      type Reader<'rs> = u8;
      type Writer<'r> = ();
      type Error = Infallible;
      fn read<'rs, RS: ResourceState<Self>>(&self, state: &'rs mut RS) -> Result<u8, Infallible> {
        Ok(state.get_or_set_default_mut::<Cells>().v[self.cell_id()])
      }
      fn write<'r, RS: ResourceState<Self>>(&'r self, _state: &'r mut RS) -> Result<(), Infallible> { Ok(()) }
    }
    impl ResourceChecker<$ty> for CellEq {
      type Stamp = u8;
      type Error = Infallible;
      fn stamp<RS: ResourceState<$ty>>(&self, resource: &$ty, state: &mut RS) -> Result<u8, Infallible> {
        Ok(state.get_or_set_default_mut::<Cells>().v[resource.cell_id()])
      }
      fn stamp_reader(&self, _resource: &$ty, reader: &mut u8) -> Result<u8, Infallible> { Ok(*reader) }
      fn stamp_writer(&self, _resource: &$ty, _writer: ()) -> Result<u8, Infallible> {
        panic!("HARNESS-BUG: C15 resources are never written through pie")
      }
      fn check<RS: ResourceState<$ty>>(&self, resource: &$ty, state: &mut RS, stamp: &u8) -> Result<Option<impl Debug>, Infallible> {
        let now = state.get_or_set_default_mut::<Cells>().v[resource.cell_id()];
        Ok(if now != *stamp { Some(now) } else { None })
      }
      fn wrap_error(&self, error: Infallible) -> Infallible { match error {} }
    }
  };
}
impl_cell_resource!(RA);
impl_cell_resource!(RB);
impl_cell_resource!(ZRA);
impl_cell_resource!(ZRB);
impl_cell_resource!(Dual);
impl_cell_resource!(HR);

macro_rules! impl_reading_task {
  ($ty:ty, $slf:ident => $res:expr, $tag:expr) => {
    impl Task for $ty {
      type Output = u8;
      fn execute<C: Context>(&self, context: &mut C) -> u8 {
        let $slf = self;
        let cell: u8 = match context.read(&$res, CellEq) { Ok(r) => r, Err(e) => match e {} };
        cell * 10 + $tag
      }
    }
  };
}
impl_reading_task!(FA, s => RA(s.0), 1);
impl_reading_task!(FB, s => RB(s.0), 2);
impl_reading_task!(ZTA, _s => RA(0), 1);
impl_reading_task!(ZTB, _s => RB(0), 2);
impl_reading_task!(ZUA, _s => ZRA, 3);
impl_reading_task!(ZUB, _s => ZRB, 4);
impl_reading_task!(Dual, s => Dual(s.0), 5);
impl_reading_task!(HT, s => RA(0), 6 + s.1);
impl_reading_task!(CT, s => HR(s.0), 8 + s.0);

/// Leaf task families (concrete Rust types). `Unit` is pie's own `impl Task for ()` (output `()`, shown as 0).
#[derive(Clone, Copy, PartialEq, Eq, Hash, PartialOrd, Ord, Debug)]
pub enum Fam { A, B, BoxA, RcA, ArcA, BoxB, ZTA, ZTB, BoxZTA, ZUA, ZUB, Unit, Dual, HT, CT }
pub const NF: usize = 15;
pub const FAMS: [Fam; NF] = [Fam::A, Fam::B, Fam::BoxA, Fam::RcA, Fam::ArcA, Fam::BoxB, Fam::ZTA, Fam::ZTB, Fam::BoxZTA, Fam::ZUA, Fam::ZUB, Fam::Unit, Fam::Dual, Fam::HT, Fam::CT];

#[derive(Clone, Copy, PartialEq, Eq, Hash, PartialOrd, Ord, Debug)]
pub enum RFam { RA, RB, ZRA, ZRB, Dual, HR }
pub const NR: usize = 6;
pub const RFAMS: [RFam; NR] = [RFam::RA, RFam::RB, RFam::ZRA, RFam::ZRB, RFam::Dual, RFam::HR];

impl Fam {
  pub fn idx(self) -> usize { self as usize }
  pub fn name(self) -> &'static str {
    match self {
      Fam::A => "FA", Fam::B => "FB", Fam::BoxA => "Box<FA>", Fam::RcA => "Rc<FA>", Fam::ArcA => "Arc<FA>", Fam::BoxB => "Box<FB>",
      Fam::ZTA => "ZTA", Fam::ZTB => "ZTB", Fam::BoxZTA => "Box<ZTA>", Fam::ZUA => "ZUA", Fam::ZUB => "ZUB", Fam::Unit => "()", Fam::Dual => "Dual", Fam::HT => "HT", Fam::CT => "CT",
    }
  }
  /// Tag shown in `P(tag,v)`.
  pub fn tag(self) -> &'static str {
    match self {
      Fam::A => "A", Fam::B => "B", Fam::BoxA => "BoxA", Fam::RcA => "RcA", Fam::ArcA => "ArcA", Fam::BoxB => "BoxB",
      Fam::ZTA => "ZTA", Fam::ZTB => "ZTB", Fam::BoxZTA => "BoxZTA", Fam::ZUA => "ZUA", Fam::ZUB => "ZUB", Fam::Unit => "Unit", Fam::Dual => "Dual", Fam::HT => "HT", Fam::CT => "CT",
    }
  }
  /// Families of types without a field have the single value 0.
  pub fn fieldless(self) -> bool { !matches!(self, Fam::A | Fam::B | Fam::BoxA | Fam::RcA | Fam::ArcA | Fam::BoxB | Fam::Dual | Fam::HT | Fam::CT) }
  pub fn values(self) -> &'static [u8] { if self.fieldless() { &[0] } else { &[0, 1] } }
  /// The resource a task of this family with value `v` reads.
  pub fn resource(self, v: u8) -> Option<RKey> {
    match self {
      Fam::A | Fam::BoxA | Fam::RcA | Fam::ArcA => Some(RKey(RFam::RA, v)),
      Fam::B | Fam::BoxB => Some(RKey(RFam::RB, v)),
      Fam::ZTA | Fam::BoxZTA => Some(RKey(RFam::RA, 0)),
      Fam::ZTB => Some(RKey(RFam::RB, 0)),
      Fam::ZUA => Some(RKey(RFam::ZRA, 0)),
      Fam::ZUB => Some(RKey(RFam::ZRB, 0)),
      Fam::Dual => Some(RKey(RFam::Dual, v)),
      Fam::HT => Some(RKey(RFam::RA, 0)),
      Fam::CT => Some(RKey(RFam::HR, v)),
      Fam::Unit => None,
    }
  }
  /// Output of the task of this family with value `v` that read `cell` (`()` is shown as 0).
  pub fn out(self, v: u8, cell: u8) -> u8 {
    match self {
      Fam::A | Fam::BoxA | Fam::RcA | Fam::ArcA | Fam::ZTA | Fam::BoxZTA => cell * 10 + 1,
      Fam::B | Fam::BoxB | Fam::ZTB => cell * 10 + 2,
      Fam::ZUA => cell * 10 + 3,
      Fam::ZUB => cell * 10 + 4,
      Fam::Dual => cell * 10 + 5,
      Fam::HT => cell * 10 + 6 + v,
      Fam::CT => cell * 10 + 8 + v,
      Fam::Unit => 0,
    }
  }
}
impl RFam {
  pub fn idx(self) -> usize { self as usize }
  pub fn name(self) -> &'static str { match self { RFam::RA => "RA", RFam::RB => "RB", RFam::ZRA => "ZRA", RFam::ZRB => "ZRB", RFam::Dual => "res:Dual", RFam::HR => "HR" } }
  pub fn fieldless(self) -> bool { matches!(self, RFam::ZRA | RFam::ZRB) }
  pub fn values(self) -> &'static [u8] { if self.fieldless() { &[0] } else { &[0, 1] } }
}

/// Parent task: requires the child of the given family / value with pie's `EqualsChecker` and returns its output.
/// Zero-sized children are required through `&*Box::new(child)`, i.e. with the dangling address every boxed
/// zero-sized value (including the keys stored inside pie) has.
#[derive(Clone, PartialEq, Eq, Hash, Debug)]
pub struct P(pub Fam, pub u8);

impl Task for P {
  type Output = u8;
  fn execute<C: Context>(&self, context: &mut C) -> u8 {
    let v = self.1;
    match self.0 {
      Fam::A => context.require(&FA(v), EqualsChecker),
      Fam::B => context.require(&FB(v), EqualsChecker),
      Fam::BoxA => context.require(&Box::new(FA(v)), EqualsChecker),
      Fam::RcA => context.require(&Rc::new(FA(v)), EqualsChecker),
      Fam::ArcA => context.require(&Arc::new(FA(v)), EqualsChecker),
      Fam::BoxB => context.require(&Box::new(FB(v)), EqualsChecker),
      Fam::ZTA => context.require(&*Box::new(ZTA), EqualsChecker),
      Fam::ZTB => context.require(&*Box::new(ZTB), EqualsChecker),
      Fam::BoxZTA => context.require(&Box::new(ZTA), EqualsChecker),
      Fam::ZUA => context.require(&*Box::new(ZUA), EqualsChecker),
      Fam::ZUB => context.require(&*Box::new(ZUB), EqualsChecker),
      Fam::Unit => { context.require(&*Box::new(()), EqualsChecker); 0 }
      Fam::Dual => context.require(&Dual(v), EqualsChecker),
      Fam::HT => context.require(&HT(0, v), EqualsChecker),
      Fam::CT => context.require(&CT(v), EqualsChecker),
    }
  }
}

/// Identity of a task: concrete type + value.
#[derive(Clone, Copy, PartialEq, Eq, Hash, PartialOrd, Ord, Debug)]
pub enum TKey { Leaf(Fam, u8), Par(Fam, u8) }
/// Identity of a resource.
#[derive(Clone, Copy, PartialEq, Eq, Hash, PartialOrd, Ord, Debug)]
pub struct RKey(pub RFam, pub u8);

impl TKey {
  pub fn name(&self) -> String {
    match self {
      TKey::Leaf(Fam::HT, v) => format!("HT(0,{})", v),
      TKey::Leaf(f, v) => if f.fieldless() { f.name().to_string() } else { format!("{}({})", f.name(), v) },
      TKey::Par(f, v) => format!("P({},{})", f.tag(), v),
    }
  }
  pub fn parse(s: &str) -> Option<TKey> {
    for f in FAMS { for &v in f.values() {
      if TKey::Leaf(f, v).name() == s { return Some(TKey::Leaf(f, v)); }
      if TKey::Par(f, v).name() == s { return Some(TKey::Par(f, v)); }
    } }
    None
  }
  pub fn fam_val(&self) -> (Fam, u8) { match self { TKey::Leaf(f, v) | TKey::Par(f, v) => (*f, *v) } }
}
impl RKey {
  pub fn name(&self) -> String { if self.0.fieldless() { self.0.name().to_string() } else { format!("{}({})", self.0.name(), self.1) } }
  pub fn parse(s: &str) -> Option<RKey> {
    for f in RFAMS { for &v in f.values() { if RKey(f, v).name() == s { return Some(RKey(f, v)); } } }
    None
  }
}

pub fn classify_task(k: &dyn KeyObj) -> Option<TKey> {
  let a = k.as_any();
  if let Some(t) = a.downcast_ref::<FA>() { return Some(TKey::Leaf(Fam::A, t.0)); }
  if let Some(t) = a.downcast_ref::<FB>() { return Some(TKey::Leaf(Fam::B, t.0)); }
  if let Some(t) = a.downcast_ref::<Box<FA>>() { return Some(TKey::Leaf(Fam::BoxA, (**t).0)); }
  if let Some(t) = a.downcast_ref::<Rc<FA>>() { return Some(TKey::Leaf(Fam::RcA, (**t).0)); }
  if let Some(t) = a.downcast_ref::<Arc<FA>>() { return Some(TKey::Leaf(Fam::ArcA, (**t).0)); }
  if let Some(t) = a.downcast_ref::<Box<FB>>() { return Some(TKey::Leaf(Fam::BoxB, (**t).0)); }
  if a.is::<ZTA>() { return Some(TKey::Leaf(Fam::ZTA, 0)); }
  if a.is::<ZTB>() { return Some(TKey::Leaf(Fam::ZTB, 0)); }
  if a.is::<Box<ZTA>>() { return Some(TKey::Leaf(Fam::BoxZTA, 0)); }
  if a.is::<ZUA>() { return Some(TKey::Leaf(Fam::ZUA, 0)); }
  if a.is::<ZUB>() { return Some(TKey::Leaf(Fam::ZUB, 0)); }
  if a.is::<()>() { return Some(TKey::Leaf(Fam::Unit, 0)); }
  if let Some(t) = a.downcast_ref::<Dual>() { return Some(TKey::Leaf(Fam::Dual, t.0)); }
  if let Some(t) = a.downcast_ref::<HT>() { if t.0 == 0 { return Some(TKey::Leaf(Fam::HT, t.1)); } }
  if let Some(t) = a.downcast_ref::<CT>() { return Some(TKey::Leaf(Fam::CT, t.0)); }
  if let Some(t) = a.downcast_ref::<P>() { return Some(TKey::Par(t.0, t.1)); }
  None
}
pub fn classify_res(k: &dyn KeyObj) -> Option<RKey> {
  let a = k.as_any();
  if let Some(r) = a.downcast_ref::<RA>() { return Some(RKey(RFam::RA, r.0)); }
  if let Some(r) = a.downcast_ref::<RB>() { return Some(RKey(RFam::RB, r.0)); }
  if a.is::<ZRA>() { return Some(RKey(RFam::ZRA, 0)); }
  if a.is::<ZRB>() { return Some(RKey(RFam::ZRB, 0)); }
  if let Some(r) = a.downcast_ref::<Dual>() { return Some(RKey(RFam::Dual, r.0)); }
  if let Some(r) = a.downcast_ref::<HR>() { return Some(RKey(RFam::HR, r.0)); }
  None
}

/// One operation of the alphabet.
#[derive(Clone, Copy, PartialEq, Eq, Hash, PartialOrd, Ord, Debug)]
pub enum Op {
  /// one top-down session requiring one key
  Req(TKey),
  /// one top-down session requiring two keys in order
  Req2(TKey, TKey),
  SetCell(RKey, u8),
  /// one session: create_bottom_up_build + schedule_tasks_affected_by(resource) + update_affected_tasks
  BottomUp(RKey),
}

impl Op {
  pub fn name(&self) -> String {
    match self {
      Op::Req(k) => format!("Require[{}]", k.name()),
      Op::Req2(a, b) => format!("Require[{};{}]", a.name(), b.name()),
      Op::SetCell(r, v) => format!("SetCell[{}={}]", r.name(), v),
      Op::BottomUp(r) => format!("BottomUp[{}]", r.name()),
    }
  }
  pub fn parse(s: &str) -> Option<Op> {
    let (head, rest) = s.split_once('[')?;
    let body = rest.strip_suffix(']')?;
    match head {
      "Require" => {
        if let Some((a, b)) = body.split_once(';') { Some(Op::Req2(TKey::parse(a)?, TKey::parse(b)?)) } else { Some(Op::Req(TKey::parse(body)?)) }
      }
      "SetCell" => { let (r, v) = body.split_once('=')?; let v: u8 = v.parse().ok()?; if v > 1 { return None; } Some(Op::SetCell(RKey::parse(r)?, v)) }
      "BottomUp" => Some(Op::BottomUp(RKey::parse(body)?)),
      _ => None,
    }
  }
}

// ------------------------------------------------------------------------------------------------ real execution

/// Recording tracker: identities of executed tasks, in order.
#[derive(Default, Debug)]
pub struct Rec {
  pub executed: Vec<TKey>,
  pub unknown: Vec<String>,
}
impl Tracker for Rec {
  fn execute_start(&mut self, task: &dyn KeyObj) {
    match classify_task(task) { Some(k) => self.executed.push(k), None => self.unknown.push(format!("{:?}", task)) }
  }
}

#[derive(Clone, PartialEq, Eq, PartialOrd, Ord, Debug)]
pub enum EdgeObs {
  Read { src: TKey, dst: RKey, stamp: Option<u8> },
  Require { src: TKey, dst: TKey, stamp: Option<u8> },
}
impl EdgeObs {
  fn to_json(&self) -> Value {
    match self {
      EdgeObs::Read { src, dst, stamp } => json!(format!("{} -read[{:?}]-> {}", src.name(), stamp, dst.name())),
      EdgeObs::Require { src, dst, stamp } => json!(format!("{} -require[{:?}]-> {}", src.name(), stamp, dst.name())),
    }
  }
}

/// Census of the store: multisets (sorted vectors), so duplicated nodes are visible.
#[derive(Clone, PartialEq, Eq, Debug, Default)]
pub struct Census {
  pub tasks: Vec<(TKey, Option<u8>)>,
  pub resources: Vec<RKey>,
  pub edges: Vec<EdgeObs>,
  pub task_map_len: usize,
  pub res_map_len: usize,
  /// structural anomalies found while resolving the walk (edge payload vs endpoint identity, wrong node kinds, ...)
  pub anomalies: Vec<String>,
}
impl Census {
  pub fn to_json(&self) -> Value {
    json!({
      "task_nodes": self.tasks.iter().map(|(k, o)| format!("{} = {:?}", k.name(), o)).collect::<Vec<_>>(),
      "resource_nodes": self.resources.iter().map(|r| r.name()).collect::<Vec<_>>(),
      "edges": self.edges.iter().map(|e| e.to_json()).collect::<Vec<_>>(),
      "task_to_node_len": self.task_map_len, "resource_to_node_len": self.res_map_len,
      "anomalies": self.anomalies,
    })
  }
}

#[derive(Clone, Copy, PartialEq, Eq, Debug)]
enum NodeId { T(TKey), R(RKey) }
impl NodeId { fn name(&self) -> String { match self { NodeId::T(k) => k.name(), NodeId::R(r) => r.name() } } }

enum RawEdge { Read(Option<RKey>, Option<u8>), Require(Option<TKey>, Option<u8>), Other(&'static str) }

#[derive(Default)]
struct Collector {
  nodes: Vec<(Node, NodeId, Option<u8>)>,
  out: Vec<(Node, Node, RawEdge)>,
  inc: usize,
  maps: (usize, usize),
  unknown: Vec<String>,
}

/// Outputs / stamps are `u8`, except for pie's unit task whose output `()` is shown as 0.
fn stamp_u8(v: &dyn pie::trait_object::ValueObj) -> Option<u8> {
  if v.as_any().is::<()>() { return Some(0); }
  v.as_any().downcast_ref::<u8>().copied()
}

impl VerifStoreVisitor for Collector {
  fn node(&mut self, node: Node, _rank: u32, data: VerifNode<'_>) {
    match data {
      VerifNode::Task { task, output } => match classify_task(task) {
        Some(k) => {
          let out = match output { None => None, Some(o) => match stamp_u8(o) { Some(v) => Some(v), None => { self.unknown.push(format!("output of {} is not u8: {:?}", k.name(), o)); None } } };
          self.nodes.push((node, NodeId::T(k), out));
        }
        None => self.unknown.push(format!("task node of unknown type: {:?}", task)),
      },
      VerifNode::Resource(r) => match classify_res(r) {
        Some(k) => self.nodes.push((node, NodeId::R(k), None)),
        None => self.unknown.push(format!("resource node of unknown type: {:?}", r)),
      },
    }
  }
  fn outgoing_edge(&mut self, src: Node, dst: Node, edge: VerifEdge<'_>) {
    let raw = match edge {
      VerifEdge::ReservedRequire => RawEdge::Other("ReservedRequire"),
      VerifEdge::Write { .. } => RawEdge::Other("Write"),
      VerifEdge::Read { resource, stamp, .. } => RawEdge::Read(classify_res(resource), stamp_u8(stamp)),
      VerifEdge::Require { task, stamp, .. } => RawEdge::Require(classify_task(task), stamp_u8(stamp)),
    };
    self.out.push((src, dst, raw));
  }
  fn incoming_edge(&mut self, _dst: Node, _src: Node, _edge: VerifEdge<'_>) { self.inc += 1; }
  fn maps(&mut self, t: usize, r: usize) { self.maps = (t, r); }
}

pub fn census_of(pie: &Pie<Rec>) -> Census {
  let mut c = Collector::default();
  pie.verif_visit_store(&mut c);
  if !c.unknown.is_empty() { engine_error(&format!("C15: store contains objects the harness never created: {:?}", c.unknown)); }
  let mut census = Census::default();
  let find = |n: Node| c.nodes.iter().find(|(m, _, _)| *m == n).map(|(_, id, _)| *id);
  for (_, id, out) in &c.nodes {
    match id { NodeId::T(k) => census.tasks.push((*k, *out)), NodeId::R(r) => census.resources.push(*r) }
  }
  for (src, dst, raw) in &c.out {
    let (Some(s), Some(d)) = (find(*src), find(*dst)) else { census.anomalies.push("edge endpoint is not a visited node".to_string()); continue; };
    match (s, d, raw) {
      (NodeId::T(sk), NodeId::R(dr), RawEdge::Read(payload, stamp)) => {
        if *payload != Some(dr) { census.anomalies.push(format!("read edge of {} carries resource {:?} but ends at node {}", sk.name(), payload.map(|p| p.name()), dr.name())); }
        census.edges.push(EdgeObs::Read { src: sk, dst: dr, stamp: *stamp });
      }
      (NodeId::T(sk), NodeId::T(dk), RawEdge::Require(payload, stamp)) => {
        if *payload != Some(dk) { census.anomalies.push(format!("require edge of {} carries task {:?} but ends at node {}", sk.name(), payload.map(|p| p.name()), dk.name())); }
        census.edges.push(EdgeObs::Require { src: sk, dst: dk, stamp: *stamp });
      }
      (s, d, RawEdge::Read(p, _)) => census.anomalies.push(format!("read edge (payload {:?}) between {} and {}", p.map(|p| p.name()), s.name(), d.name())),
      (s, d, RawEdge::Require(p, _)) => census.anomalies.push(format!("require edge (payload {:?}) between {} and {}", p.map(|p| p.name()), s.name(), d.name())),
      (s, d, RawEdge::Other(kind)) => census.anomalies.push(format!("{} edge between {} and {} after a finished session", kind, s.name(), d.name())),
    }
  }
  if c.inc != c.out.len() { census.anomalies.push(format!("{} outgoing but {} incoming edges", c.out.len(), c.inc)); }
  census.tasks.sort();
  census.resources.sort();
  census.edges.sort();
  census.task_map_len = c.maps.0;
  census.res_map_len = c.maps.1;
  census
}

/// Observation of one operation on the real code.
#[derive(Clone, PartialEq, Eq, Debug)]
pub struct Obs {
  pub outputs: Vec<u8>,
  /// executed task identities in tracker order
  pub executed: Vec<TKey>,
  pub panic: Option<String>,
  pub dep_errors: usize,
  pub cells: [[u8; 2]; NR],
  pub census: Census,
}
impl Obs {
  pub fn to_json(&self) -> Value {
    json!({"outputs": self.outputs, "executed": self.executed.iter().map(|k| k.name()).collect::<Vec<_>>(), "panic": self.panic,
      "dependency_check_errors": self.dep_errors, "cells": {"RA": self.cells[0], "RB": self.cells[1], "ZRA": self.cells[2][0], "ZRB": self.cells[3][0], "Dual": self.cells[4], "HR": self.cells[5]}, "store": self.census.to_json()})
  }
}

/// How zero-sized keys are handed to pie by the harness: through `&*Box::new(key)` (the reference has the dangling
/// address that every boxed zero-sized value, including the keys stored inside pie's maps, has) or as a borrowed local.
#[derive(Clone, Copy, PartialEq, Eq, Debug)]
pub enum ZForm { BoxDeref, Local }
impl ZForm {
  pub fn name(&self) -> &'static str { match self { ZForm::BoxDeref => "box-deref", ZForm::Local => "local" } }
  pub fn parse(s: &str) -> Option<ZForm> { match s { "box-deref" => Some(ZForm::BoxDeref), "local" => Some(ZForm::Local), _ => None } }
}

fn require_key(s: &mut pie::Session<'_>, k: TKey, z: ZForm) -> u8 {
  macro_rules! zreq { ($e:expr) => { match z { ZForm::BoxDeref => { let b = Box::new($e); s.require(&*b) } ZForm::Local => { let l = $e; s.require(&l) } } }; }
  match k {
    TKey::Leaf(Fam::ZTA, _) => zreq!(ZTA),
    TKey::Leaf(Fam::ZTB, _) => zreq!(ZTB),
    TKey::Leaf(Fam::BoxZTA, _) => s.require(&Box::new(ZTA)),
    TKey::Leaf(Fam::ZUA, _) => zreq!(ZUA),
    TKey::Leaf(Fam::ZUB, _) => zreq!(ZUB),
    TKey::Leaf(Fam::Unit, _) => { zreq!(()); 0 }
    TKey::Leaf(Fam::Dual, v) => s.require(&Dual(v)),
    TKey::Leaf(Fam::HT, v) => s.require(&HT(0, v)),
    TKey::Leaf(Fam::CT, v) => s.require(&CT(v)),
    TKey::Leaf(Fam::A, v) => s.require(&FA(v)),
    TKey::Leaf(Fam::B, v) => s.require(&FB(v)),
    TKey::Leaf(Fam::BoxA, v) => s.require(&Box::new(FA(v))),
    TKey::Leaf(Fam::RcA, v) => s.require(&Rc::new(FA(v))),
    TKey::Leaf(Fam::ArcA, v) => s.require(&Arc::new(FA(v))),
    TKey::Leaf(Fam::BoxB, v) => s.require(&Box::new(FB(v))),
    TKey::Par(f, v) => s.require(&P(f, v)),
  }
}

pub fn new_pie() -> Pie<Rec> { Pie::with_tracker(Rec::default()) }

fn read_cells(pie: &mut Pie<Rec>) -> [[u8; 2]; NR] {
  let a = pie.resource_state_mut::<RA>().get_or_set_default_mut::<Cells>().v;
  let b = pie.resource_state_mut::<RB>().get_or_set_default_mut::<Cells>().v;
  let c = pie.resource_state_mut::<ZRA>().get_or_set_default_mut::<Cells>().v;
  let d = pie.resource_state_mut::<ZRB>().get_or_set_default_mut::<Cells>().v;
  let e = pie.resource_state_mut::<Dual>().get_or_set_default_mut::<Cells>().v;
  let f = pie.resource_state_mut::<HR>().get_or_set_default_mut::<Cells>().v;
  [a, b, c, d, e, f]
}

/// Applies `op` to the real Pie. `observe`: also take the store census (skipped for path prefixes).
pub fn apply_real(pie: &mut Pie<Rec>, op: &Op, observe: bool, z: ZForm) -> Obs {
  pie.tracker_mut().executed.clear();
  let mut outputs = Vec::new();
  let mut dep_errors = 0;
  let mut panic = None;
  let _ = crate::runner::take_last_panic();
  match op {
    Op::SetCell(RKey(RFam::RA, id), v) => { pie.resource_state_mut::<RA>().get_or_set_default_mut::<Cells>().v[*id as usize] = *v; }
    Op::SetCell(RKey(RFam::RB, id), v) => { pie.resource_state_mut::<RB>().get_or_set_default_mut::<Cells>().v[*id as usize] = *v; }
    Op::SetCell(RKey(RFam::ZRA, _), v) => { pie.resource_state_mut::<ZRA>().get_or_set_default_mut::<Cells>().v[0] = *v; }
    Op::SetCell(RKey(RFam::ZRB, _), v) => { pie.resource_state_mut::<ZRB>().get_or_set_default_mut::<Cells>().v[0] = *v; }
    Op::SetCell(RKey(RFam::Dual, id), v) => { pie.resource_state_mut::<Dual>().get_or_set_default_mut::<Cells>().v[*id as usize] = *v; }
    Op::SetCell(RKey(RFam::HR, id), v) => { pie.resource_state_mut::<HR>().get_or_set_default_mut::<Cells>().v[*id as usize] = *v; }
    Op::Req(_) | Op::Req2(_, _) => {
      let keys: Vec<TKey> = match op { Op::Req(k) => vec![*k], Op::Req2(a, b) => vec![*a, *b], _ => unreachable!() };
      let res = catch_unwind(AssertUnwindSafe(|| {
        let mut s = pie.new_session();
        let mut outs = Vec::new();
        for k in &keys { outs.push(require_key(&mut s, *k, z)); }
        let n = s.dependency_check_errors().len();
        (outs, n)
      }));
      match res {
        Ok((o, e)) => { outputs = o; dep_errors = e; }
        Err(_) => { panic = Some(crate::runner::take_last_panic().map(|p| format!("{} at {}:{}", p.msg, p.file, p.line)).unwrap_or_else(|| "<panic>".into())); }
      }
    }
    Op::BottomUp(r) => {
      let r = *r;
      let res = catch_unwind(AssertUnwindSafe(|| {
        let mut s = pie.new_session();
        {
          let mut b = s.create_bottom_up_build();
          match (r, z) {
            (RKey(RFam::RA, id), _) => b.schedule_tasks_affected_by(&RA(id)),
            (RKey(RFam::RB, id), _) => b.schedule_tasks_affected_by(&RB(id)),
            (RKey(RFam::Dual, id), _) => b.schedule_tasks_affected_by(&Dual(id)),
            (RKey(RFam::HR, id), _) => b.schedule_tasks_affected_by(&HR(id)),
            (RKey(RFam::ZRA, _), ZForm::BoxDeref) => { let x = Box::new(ZRA); b.schedule_tasks_affected_by(&*x) }
            (RKey(RFam::ZRA, _), ZForm::Local) => { let x = ZRA; b.schedule_tasks_affected_by(&x) }
            (RKey(RFam::ZRB, _), ZForm::BoxDeref) => { let x = Box::new(ZRB); b.schedule_tasks_affected_by(&*x) }
            (RKey(RFam::ZRB, _), ZForm::Local) => { let x = ZRB; b.schedule_tasks_affected_by(&x) }
          }
          b.update_affected_tasks();
        }
        let n = s.dependency_check_errors().len();
        n
      }));
      match res {
        Ok(e) => dep_errors = e,
        Err(_) => { panic = Some(crate::runner::take_last_panic().map(|p| format!("{} at {}:{}", p.msg, p.file, p.line)).unwrap_or_else(|| "<panic>".into())); }
      }
    }
  }
  if !pie.tracker().unknown.is_empty() { engine_error(&format!("C15: tracker saw tasks the harness never created: {:?}", pie.tracker().unknown)); }
  if let Some(p) = &panic { if p.contains("HARNESS-BUG") { engine_error(&format!("C15: {}", p)); } }
  let executed = pie.tracker().executed.clone();
  let (cells, census) = if observe && panic.is_none() { (read_cells(pie), census_of(pie)) } else { ([[0; 2]; NR], Census::default()) };
  Obs { outputs, executed, panic, dep_errors, cells, census }
}

// =====================================================================================================================
// Part B: reference model
// =====================================================================================================================

/// Model state. `leaf[f][v]` = the cell value the task read at its last execution (None = never required; the unit
/// task, which reads nothing, records 0); `par[f][v]` = the child output `P(f,v)` saw at its last execution;
/// `rnodes` = resource nodes that must exist; `cells` = current cell values.
#[derive(Clone, Copy, PartialEq, Eq, Hash, Debug, Default)]
pub struct MState {
  pub leaf: [[Option<u8>; 2]; NF],
  pub par: [[Option<u8>; 2]; NF],
  pub rnodes: [[bool; 2]; NR],
  pub cells: [[u8; 2]; NR],
}

/// Canonical encoding of a model state: 4 bits per (task family, value) and 2 bits per (resource family, value).
pub type Enc = (u128, u32);
const _: () = assert!(NF * 2 * 4 <= 128 && NR * 2 * 2 <= 32);

/// What the model expects from one operation.
#[derive(Clone, PartialEq, Eq, Debug, Default)]
pub struct Expect {
  pub outputs: Vec<u8>,
  /// sorted multiset of executed identities
  pub executed: Vec<TKey>,
}

impl MState {
  /// Current content of what leaf (f,v) reads (0 for the unit task, which reads nothing).
  fn cell(&self, f: Fam, v: u8) -> u8 { match f.resource(v) { Some(r) => self.cells[r.0.idx()][r.1 as usize], None => 0 } }

  /// Makes leaf (f,v) consistent top-down; returns its output.
  fn ensure_leaf(&mut self, f: Fam, v: u8, executed: &mut Vec<TKey>) -> u8 {
    let cell = self.cell(f, v);
    if self.leaf[f.idx()][v as usize] != Some(cell) {
      executed.push(TKey::Leaf(f, v));
      self.leaf[f.idx()][v as usize] = Some(cell);
      if let Some(r) = f.resource(v) { self.rnodes[r.0.idx()][r.1 as usize] = true; }
    }
    f.out(v, cell)
  }

  fn require(&mut self, k: TKey, executed: &mut Vec<TKey>) -> u8 {
    match k {
      TKey::Leaf(f, v) => self.ensure_leaf(f, v, executed),
      TKey::Par(f, v) => {
        match self.par[f.idx()][v as usize] {
          None => {
            executed.push(TKey::Par(f, v));
            let o = self.ensure_leaf(f, v, executed);
            self.par[f.idx()][v as usize] = Some(o);
            o
          }
          Some(seen) => {
            let o = self.ensure_leaf(f, v, executed);
            if o != seen {
              executed.push(TKey::Par(f, v));
              self.par[f.idx()][v as usize] = Some(o);
            }
            o
          }
        }
      }
    }
  }

  pub fn step(&mut self, op: &Op) -> Expect {
    let mut e = Expect::default();
    match op {
      Op::SetCell(r, v) => { self.cells[r.0.idx()][r.1 as usize] = *v; }
      Op::Req(k) => { let o = self.require(*k, &mut e.executed); e.outputs.push(o); }
      Op::Req2(a, b) => {
        let o = self.require(*a, &mut e.executed); e.outputs.push(o);
        let o = self.require(*b, &mut e.executed); e.outputs.push(o);
      }
      Op::BottomUp(r) => {
        // `schedule_tasks_affected_by` creates the resource node if it does not exist yet.
        self.rnodes[r.0.idx()][r.1 as usize] = true;
        let cell = self.cells[r.0.idx()][r.1 as usize];
        for f in FAMS { for &v in f.values() {
          if f.resource(v) != Some(*r) { continue; }
          let Some(read) = self.leaf[f.idx()][v as usize] else { continue; };
          if read == cell { continue; }
          e.executed.push(TKey::Leaf(f, v));
          self.leaf[f.idx()][v as usize] = Some(cell);
          let out = f.out(v, cell);
          if let Some(seen) = self.par[f.idx()][v as usize] {
            if seen != out {
              e.executed.push(TKey::Par(f, v));
              self.par[f.idx()][v as usize] = Some(out);
            }
          }
        } }
      }
    }
    e.executed.sort();
    e
  }

  /// The store census this state implies.
  pub fn census(&self) -> Census {
    let mut c = Census::default();
    for f in FAMS { for &v in f.values() {
      if let Some(cell) = self.leaf[f.idx()][v as usize] {
        c.tasks.push((TKey::Leaf(f, v), Some(f.out(v, cell))));
        if let Some(r) = f.resource(v) { c.edges.push(EdgeObs::Read { src: TKey::Leaf(f, v), dst: r, stamp: Some(cell) }); }
      }
      if let Some(seen) = self.par[f.idx()][v as usize] {
        c.tasks.push((TKey::Par(f, v), Some(seen)));
        c.edges.push(EdgeObs::Require { src: TKey::Par(f, v), dst: TKey::Leaf(f, v), stamp: Some(seen) });
      }
    } }
    for rf in RFAMS { for &v in rf.values() { if self.rnodes[rf.idx()][v as usize] { c.resources.push(RKey(rf, v)); } } }
    c.tasks.sort();
    c.resources.sort();
    c.edges.sort();
    c.task_map_len = c.tasks.len();
    c.res_map_len = c.resources.len();
    c
  }

  /// Canonical encoding (injective) used for deduplication.
  pub fn encode(&self) -> Enc {
    let mut x: u128 = 0;
    let mut y: u32 = 0;
    let mut push = |val: u128, bits: u32| { x = (x << bits) | val; };
    for f in FAMS { for v in 0..2usize {
      push(match self.leaf[f.idx()][v] { None => 0, Some(c) => 1 + c as u128 }, 2);
      // seen child output is cell*10+tag with a tag fixed by the family: encode the cell part.
      push(match self.par[f.idx()][v] { None => 0, Some(o) => 1 + (o / 10) as u128 }, 2);
    } }
    for rf in 0..NR { for v in 0..2 { y = (y << 2) | ((self.rnodes[rf][v] as u32) << 1) | self.cells[rf][v] as u32; } }
    (x, y)
  }

  /// Rule for `distinct_nontrivial`: at least two task nodes of different concrete types that look alike coexist:
  /// same value among the families with a field, or two zero-sized task types (identical empty hash, identical
  /// dangling box address).
  pub fn nontrivial(&self) -> bool {
    for v in 0..2usize {
      let n = FAMS.iter().filter(|f| !f.fieldless() && self.leaf[f.idx()][v].is_some()).count();
      if n >= 2 { return true; }
    }
    self.zero_sized_lookalikes() || self.colliding_keys()
  }
  /// Two unequal task keys of one type with identical hash coexist.
  pub fn colliding_keys(&self) -> bool {
    [Fam::HT, Fam::CT].iter().any(|f| self.leaf[f.idx()][0].is_some() && self.leaf[f.idx()][1].is_some())
  }
  /// At least two task nodes of different zero-sized task types coexist.
  pub fn zero_sized_lookalikes(&self) -> bool {
    [Fam::ZTA, Fam::ZTB, Fam::ZUA, Fam::ZUB, Fam::Unit].iter().filter(|f| self.leaf[f.idx()][0].is_some()).count() >= 2
  }

  pub fn to_json(&self) -> Value {
    let mut leaf = BTreeMap::new();
    let mut par = BTreeMap::new();
    for f in FAMS { for &v in f.values() {
      if let Some(c) = self.leaf[f.idx()][v as usize] { leaf.insert(TKey::Leaf(f, v).name(), json!({"read_cell": c, "output": f.out(v, c)})); }
      if let Some(o) = self.par[f.idx()][v as usize] { par.insert(TKey::Par(f, v).name(), json!({"child_output_seen": o})); }
    } }
    json!({"leaf": leaf, "parents": par, "cells": {"RA": self.cells[0], "RB": self.cells[1], "ZRA": self.cells[2][0], "ZRB": self.cells[3][0], "Dual": self.cells[4], "HR": self.cells[5]},
      "resource_nodes": self.census().resources.iter().map(|r| r.name()).collect::<Vec<_>>()})
  }
}

/// Tasks an operation may legitimately execute (scope oracle): the required keys and their children; for a bottom-up
/// build the readers of the reported resource (same resource family, same id) and their parents.
pub fn scope_of(op: &Op) -> Vec<TKey> {
  let mut s = Vec::new();
  let mut add = |k: TKey| { s.push(k); if let TKey::Par(f, v) = k { s.push(TKey::Leaf(f, v)); } };
  match op {
    Op::SetCell(_, _) => {}
    Op::Req(k) => add(*k),
    Op::Req2(a, b) => { add(*a); add(*b); }
    Op::BottomUp(r) => { for f in FAMS { for &v in f.values() { if f.resource(v) == Some(*r) { add(TKey::Par(f, v)); } } } }
  }
  s
}

/// Compares one real observation with the model's expectation (`post` = model state after the op).
pub fn judge_step(op: &Op, expect: &Expect, post: &MState, obs: &Obs) -> Vec<Fail> {
  let mut fails = Vec::new();
  if let Some(p) = &obs.panic {
    fails.push(Fail { oracle: "C15/B/panic".into(), what: format!("{} panicked inside pie: {}", op.name(), p), expected: json!("no panic"), observed: json!(p) });
    return fails;
  }
  if obs.outputs != expect.outputs {
    fails.push(Fail { oracle: "C15/B/output".into(), what: format!("{} returned {:?}, model (type,value)-keyed cache says {:?}", op.name(), obs.outputs, expect.outputs), expected: json!(expect.outputs), observed: json!(obs.outputs) });
  }
  let mut ex = obs.executed.clone();
  ex.sort();
  if ex != expect.executed {
    let n = |v: &Vec<TKey>| v.iter().map(|k| k.name()).collect::<Vec<_>>();
    fails.push(Fail { oracle: "C15/B/executed".into(), what: format!("{} executed {:?}, model says {:?}", op.name(), n(&ex), n(&expect.executed)), expected: json!(n(&expect.executed)), observed: json!(n(&ex)) });
  }
  let scope = scope_of(op);
  for k in &obs.executed {
    if !scope.contains(k) {
      fails.push(Fail { oracle: "C15/B/exec-scope".into(), what: format!("{} executed {} which is neither required nor a reader of the changed resource", op.name(), k.name()), expected: json!(scope.iter().map(|k| k.name()).collect::<Vec<_>>()), observed: json!(k.name()) });
      break;
    }
  }
  if obs.dep_errors != 0 {
    fails.push(Fail { oracle: "C15/B/dependency-check-errors".into(), what: format!("{} produced {} dependency check errors with infallible checkers", op.name(), obs.dep_errors), expected: json!(0), observed: json!(obs.dep_errors) });
  }
  if obs.cells != post.cells {
    // cells are only changed by the harness: a difference means the two resource types share state.
    fails.push(Fail { oracle: "C15/B/resource-state".into(), what: format!("after {} the cells are {:?}, model says {:?} (per-resource-type state aliased?)", op.name(), obs.cells, post.cells), expected: json!(post.cells), observed: json!(obs.cells) });
  }
  let want = post.census();
  let c = &obs.census;
  for e in &c.edges {
    if let EdgeObs::Read { src, dst, .. } = e {
      let (f, v) = src.fam_val();
      if matches!(src, TKey::Par(..)) || f.resource(v) != Some(*dst) {
        fails.push(Fail { oracle: "C15/B/read-edge-family".into(), what: format!("after {}: task {} has a read edge to resource node {}", op.name(), src.name(), dst.name()), expected: json!(f.resource(v).map(|r| r.name())), observed: json!(dst.name()) });
        break;
      }
    }
  }
  if !c.anomalies.is_empty() {
    fails.push(Fail { oracle: "C15/B/edge-endpoint".into(), what: format!("after {}: {}", op.name(), c.anomalies.join("; ")), expected: json!([]), observed: json!(c.anomalies) });
  }
  if c.tasks != want.tasks {
    fails.push(Fail { oracle: "C15/B/census-tasks".into(), what: format!("after {}: task nodes / cached outputs differ from one node per (type,value) required", op.name()), expected: want.to_json()["task_nodes"].clone(), observed: c.to_json()["task_nodes"].clone() });
  }
  if c.resources != want.resources {
    fails.push(Fail { oracle: "C15/B/census-resources".into(), what: format!("after {}: resource nodes differ from one node per (type,id) read or reported", op.name()), expected: want.to_json()["resource_nodes"].clone(), observed: c.to_json()["resource_nodes"].clone() });
  }
  if c.edges != want.edges {
    fails.push(Fail { oracle: "C15/B/census-edges".into(), what: format!("after {}: dependency edges differ from the model", op.name()), expected: want.to_json()["edges"].clone(), observed: c.to_json()["edges"].clone() });
  }
  if c.task_map_len != c.tasks.len() || c.res_map_len != c.resources.len() {
    fails.push(Fail { oracle: "C15/B/map-sizes".into(), what: format!("after {}: lookup maps have {} / {} entries for {} task and {} resource nodes", op.name(), c.task_map_len, c.res_map_len, c.tasks.len(), c.resources.len()), expected: json!([c.tasks.len(), c.resources.len()]), observed: json!([c.task_map_len, c.res_map_len]) });
  }
  fails
}

/// Runs `ops` on a fresh Pie, observing every step (stops after a panic).
pub fn run_path_full(ops: &[Op], z: ZForm) -> Vec<Obs> {
  let mut pie = new_pie();
  let mut v = Vec::new();
  for op in ops {
    let o = apply_real(&mut pie, op, true, z);
    let stop = o.panic.is_some();
    v.push(o);
    if stop { break; }
  }
  v
}

/// Judges a full path against the model: (failing step index, fails) of the first failing step.
pub fn judge_path(ops: &[Op], obs: &[Obs]) -> Option<(usize, Vec<Fail>, Expect)> {
  let mut m = MState::default();
  for (i, op) in ops.iter().enumerate() {
    let e = m.step(op);
    let Some(o) = obs.get(i) else { return None; };
    let f = judge_step(op, &e, &m, o);
    if !f.is_empty() { return Some((i, f, e)); }
  }
  None
}

/// Result of executing one operation path several times on fresh Pie instances (fresh hash seeds), every execution
/// judged against the model.
pub struct Repeated {
  /// observations of the reported execution: the failing one with the earliest failing step, else the first
  pub obs: Vec<Obs>,
  pub fail: Option<(usize, Vec<Fail>)>,
  pub runs: usize,
  pub failing_runs: usize,
  /// all executions showed the same behaviour (executed tasks compared as multisets)
  pub deterministic: bool,
}

fn same_behaviour(a: &[Obs], b: &[Obs]) -> bool {
  a.len() == b.len() && a.iter().zip(b.iter()).all(|(x, y)| {
    let (mut ex, mut ey) = (x.executed.clone(), y.executed.clone());
    ex.sort();
    ey.sort();
    ex == ey && x.outputs == y.outputs && x.panic == y.panic && x.dep_errors == y.dep_errors && x.cells == y.cells && x.census == y.census
  })
}

/// A defect in the code under test may make pie's behaviour depend on the hash seeds of its maps; then executions of
/// one path differ. That is a finding about pie (reported through the oracles that fail), never an engine error.
pub fn run_repeated(ops: &[Op], z: ZForm, runs: usize) -> Repeated {
  let mut r = Repeated { obs: Vec::new(), fail: None, runs, failing_runs: 0, deterministic: true };
  let mut first: Option<Vec<Obs>> = None;
  for _ in 0..runs {
    let obs = run_path_full(ops, z);
    if let Some(f) = &first { if !same_behaviour(f, &obs) { r.deterministic = false; } }
    let judged = judge_path(ops, &obs).map(|(step, fails, _)| (step, fails));
    if let Some((step, fails)) = judged {
      r.failing_runs += 1;
      if r.fail.as_ref().map_or(true, |(s, _)| step < *s) { r.fail = Some((step, fails)); r.obs = obs.clone(); }
    }
    if first.is_none() { first = Some(obs); }
  }
  if r.fail.is_none() { r.obs = first.unwrap_or_default(); }
  if !r.deterministic && r.failing_runs == 0 { engine_error("C15: executions of one path differ although each of them matches the model completely (harness-internal contradiction)"); }
  r
}

impl Repeated {
  pub fn note(&self) -> String {
    if self.deterministic { format!("all {} executions on fresh instances agree", self.runs) }
    else { format!("NON-DETERMINISTIC: {} of {} executions of this path on fresh instances (fresh hash seeds) fail", self.failing_runs, self.runs) }
  }
}

// =====================================================================================================================
// Part B: breadth-first search
// =====================================================================================================================

#[derive(Clone, Debug)]
pub struct Cfg {
  pub name: &'static str,
  pub keys: Vec<TKey>,
  pub pairs: Vec<(TKey, TKey)>,
  /// cells that `SetCell` may change
  pub resources: Vec<RKey>,
  /// resources that may be reported to a bottom-up build
  pub bu_resources: Vec<RKey>,
  pub depth_cap: usize,
  pub wall_cap_s: f64,
  pub pruned_note: &'static str,
}

impl Cfg {
  pub fn alphabet(&self) -> Vec<Op> {
    let mut ops = Vec::new();
    for k in &self.keys { ops.push(Op::Req(*k)); }
    for (a, b) in &self.pairs { ops.push(Op::Req2(*a, *b)); }
    for r in &self.resources { for v in 0..2u8 { ops.push(Op::SetCell(*r, v)); } }
    for r in &self.bu_resources { ops.push(Op::BottomUp(*r)); }
    ops
  }
  /// The alphabets explored for a tier (each one to its own fixed point).
  pub fn for_tier(tier: Tier) -> Vec<Cfg> {
    use Fam::*;
    let l = TKey::Leaf;
    let p = TKey::Par;
    let (ra0, rb0, ra1, rb1, zra, zrb) = (RKey(RFam::RA, 0), RKey(RFam::RB, 0), RKey(RFam::RA, 1), RKey(RFam::RB, 1), RKey(RFam::ZRA, 0), RKey(RFam::ZRB, 0));
    let (d0, d1) = (RKey(RFam::Dual, 0), RKey(RFam::Dual, 1));
    let (hr0, hr1) = (RKey(RFam::HR, 0), RKey(RFam::HR, 1));
    match tier {
      Tier::Thorough => vec![
        Cfg {
          name: "coarse-hash",
          keys: vec![l(HT, 0), l(HT, 1), l(CT, 0), l(CT, 1), l(A, 0), p(HT, 0), p(HT, 1), p(CT, 0), p(CT, 1)],
          pairs: vec![(l(HT, 0), l(HT, 1)), (l(CT, 1), l(CT, 0)), (p(HT, 1), l(HT, 0)), (l(A, 0), l(HT, 0))],
          resources: vec![ra0, hr0, hr1],
          bu_resources: vec![ra0, hr0, hr1],
          depth_cap: 64,
          wall_cap_s: 100.0,
          pruned_note: "coarse-hash alphabet: keys whose hand-written Hash is coarser than Eq — tasks HT(0,0), HT(0,1) (hash over the first field only; both read RA(0)), CT(0), CT(1) (constant hash) reading the resources HR(0), HR(1) (constant hash), their four parents, next to FA(0); cells RA(0), HR(0), HR(1)",
        },
        Cfg {
          name: "dual-role",
          keys: vec![l(A, 0), l(B, 0), l(BoxA, 0), l(ZTA, 0), l(Dual, 0), l(Dual, 1), p(A, 0), p(Dual, 0)],
          pairs: vec![(l(Dual, 0), l(Dual, 1)), (p(Dual, 0), l(Dual, 0)), (l(BoxA, 0), l(A, 0)), (l(A, 0), l(Dual, 0))],
          resources: vec![ra0, rb0, d0, d1],
          bu_resources: vec![ra0, rb0, d0, d1],
          depth_cap: 64,
          wall_cap_s: 120.0,
          pruned_note: "dual-role alphabet: Dual(0), Dual(1) used as task AND as resource (the task Dual(v) reads the resource Dual(v)), parent of Dual(0), next to FA(0), FB(0), Box<FA>(0), ZTA, P(A,0); cells RA(0), RB(0), Dual(0), Dual(1)",
        },
        Cfg {
          name: "zero-sized",
          keys: vec![l(A, 0), l(B, 0), l(ZTA, 0), l(ZTB, 0), l(BoxZTA, 0), l(ZUA, 0), l(ZUB, 0), l(Unit, 0), p(A, 0), p(ZTA, 0), p(ZUA, 0)],
          pairs: vec![(l(ZTA, 0), l(ZTB, 0)), (l(Unit, 0), l(ZTA, 0)), (l(ZUA, 0), l(ZUB, 0)), (p(ZTA, 0), l(ZTA, 0)), (l(A, 0), l(ZTA, 0)), (l(ZTA, 0), l(BoxZTA, 0))],
          resources: vec![ra0, rb0, zra, zrb],
          bu_resources: vec![ra0, rb0, zra, zrb],
          depth_cap: 64,
          wall_cap_s: 280.0,
          pruned_note: "zero-sized alphabet: unit-struct tasks ZTA, ZTB (behave like FA(0), FB(0)), Box<ZTA>, ZUA, ZUB (reading the unit-struct resources ZRA, ZRB), pie's unit task (), next to FA(0), FB(0); parents of FA(0), ZTA and ZUA; all four cells",
        },
        Cfg {
          name: "classic",
          keys: vec![l(A, 0), l(B, 0), l(BoxA, 0), l(RcA, 0), l(ArcA, 0), l(BoxB, 0), p(A, 0), p(B, 0), p(BoxA, 0), l(A, 1), l(B, 1)],
          pairs: vec![(p(A, 0), l(A, 0)), (l(A, 0), p(A, 0)), (l(A, 0), l(B, 0)), (l(A, 0), l(BoxA, 0)), (p(A, 0), p(B, 0)), (p(BoxA, 0), p(A, 0))],
          resources: vec![ra0, rb0, ra1, rb1],
          bu_resources: vec![ra0, rb0, ra1, rb1],
          depth_cap: 64,
          wall_cap_s: 570.0,
          pruned_note: "classic alphabet: all six concrete FA/FB task types at value 0, FA/FB also at value 1, parents of FA(0), FB(0) and Box<FA>(0), all four RA/RB cells",
        },
      ],
      Tier::Quick => vec![Cfg {
        name: "quick-coarse-hash",
        keys: vec![l(HT, 0), l(HT, 1), l(CT, 0), l(CT, 1), l(A, 0), p(HT, 1), p(CT, 0)],
        pairs: vec![(l(HT, 0), l(HT, 1)), (l(CT, 1), l(CT, 0))],
        resources: vec![ra0, hr0, hr1],
        bu_resources: vec![ra0, hr0, hr1],
        depth_cap: 64,
        wall_cap_s: 6.0,
        pruned_note: "quick coarse-hash alphabet: tasks HT(0,0), HT(0,1) (hash over the first field only; both read RA(0)), CT(0), CT(1) (constant hash) reading the resources HR(0), HR(1) (constant hash), P(HT,1), P(CT,0), next to FA(0); cells RA(0), HR(0), HR(1)",
      }, Cfg {
        name: "quick-dual",
        keys: vec![l(A, 0), l(B, 0), l(BoxA, 0), l(RcA, 0), l(ZTA, 0), l(Dual, 0), l(Dual, 1), p(Dual, 0)],
        pairs: vec![(l(BoxA, 0), l(A, 0)), (l(Dual, 0), l(Dual, 1))],
        resources: vec![ra0, d0],
        bu_resources: vec![ra0, d0, d1],
        depth_cap: 64,
        wall_cap_s: 12.0,
        pruned_note: "quick dual-role alphabet: Dual(0), Dual(1) used as task AND as resource (task Dual(v) reads resource Dual(v)), P(Dual,0), next to FA(0), FB(0), Box<FA>(0), Rc<FA>(0), ZTA; cells RA(0), Dual(0) (RB(0), Dual(1) stay 0); bottom-up reports of RA(0), Dual(0), Dual(1)",
      }, Cfg {
        name: "quick-mixed",
        keys: vec![l(A, 0), l(B, 0), l(BoxA, 0), l(ZTA, 0), l(ZTB, 0), l(ZUA, 0), p(A, 0), p(ZTA, 0)],
        pairs: vec![(p(A, 0), l(A, 0)), (l(ZTA, 0), l(ZTB, 0)), (l(A, 0), l(ZTA, 0))],
        resources: vec![ra0, rb0, zra],
        bu_resources: vec![ra0, rb0, zra],
        depth_cap: 64,
        wall_cap_s: 20.0,
        pruned_note: "quick tier: FA(0), FB(0), Box<FA>(0), the zero-sized tasks ZTA, ZTB, ZUA (reading the zero-sized resource ZRA), parents of FA(0) and ZTA. Pruned against the thorough tier (to stay under 25 s): Rc<FA> (it is in the quick-dual alphabet), Arc<FA>, Box<FB>, FA(1), FB(1), Box<ZTA>, ZUB/ZRB, the unit task () (covered by the scripted scenario in every run), P(B,0), P(BoxA,0), P(ZUA,0), the cells RA(1), RB(1), ZRB and most two-key sessions",
      }],
    }
  }
}

#[derive(Clone, Debug, Default)]
pub struct BStats {
  pub states: usize,
  pub transitions: usize,
  pub sessions_on_real_pie: usize,
  pub fresh_instances: usize,
  pub max_depth: usize,
  pub fixed_point: bool,
  pub depth_capped: bool,
  pub wall_capped: bool,
  pub nontrivial_states: usize,
  pub zero_sized_lookalike_states: usize,
  pub colliding_states: usize,
  /// [op kind: 0 require, 1 bottom-up][executed tasks 0,1,2,3+]
  pub exec_hist: [[usize; 4]; 2],
  pub outputs_hist: BTreeMap<u8, usize>,
  pub setcell_transitions: usize,
  pub levels: Vec<usize>,
  /// transitions in which a key was served from the cache of its own (type,value) while a same-valued key of another
  /// type also had a cache entry
  pub cache_hits_with_lookalike_present: usize,
}

impl BStats {
  fn merge(&mut self, o: &BStats) {
    self.transitions += o.transitions;
    self.sessions_on_real_pie += o.sessions_on_real_pie;
    self.fresh_instances += o.fresh_instances;
    for k in 0..2 { for n in 0..4 { self.exec_hist[k][n] += o.exec_hist[k][n]; } }
    for (k, v) in &o.outputs_hist { *self.outputs_hist.entry(*k).or_insert(0) += v; }
    self.setcell_transitions += o.setcell_transitions;
    self.cache_hits_with_lookalike_present += o.cache_hits_with_lookalike_present;
  }
}

pub struct BfsFail { pub ops: Vec<Op>, pub step: usize, pub fails: Vec<Fail>, pub obs: Obs, pub post: MState }

/// (frontier position, op index, fails, observation, model state after, exact op sequence applied to the fresh Pie)
type LevelFail = (u32, u16, Vec<Fail>, Obs, MState, Vec<Op>);

pub struct BfsResult { pub stats: BStats, pub fails: Vec<BfsFail>, pub deepest_path: Vec<Op> }

fn threads() -> usize { std::thread::available_parallelism().map(|n| n.get()).unwrap_or(4).min(16) }

pub fn bfs(cfg: &Cfg, start: std::time::Instant) -> BfsResult {
  let alphabet = cfg.alphabet();
  let mut states: Vec<MState> = vec![MState::default()];
  let mut parent: Vec<(u32, u16)> = vec![(u32::MAX, 0)];
  let mut visited: HashSet<Enc> = HashSet::new();
  visited.insert(states[0].encode());
  let mut frontier: Vec<u32> = vec![0];
  let mut stats = BStats::default();
  stats.levels.push(1);
  let mut fails: Vec<BfsFail> = Vec::new();
  let mut depth = 0usize;

  let path_of = |parent: &Vec<(u32, u16)>, mut idx: u32| -> Vec<Op> {
    let mut rev = Vec::new();
    while parent[idx as usize].0 != u32::MAX { rev.push(alphabet[parent[idx as usize].1 as usize]); idx = parent[idx as usize].0; }
    rev.reverse();
    rev
  };

  while !frontier.is_empty() {
    if depth >= cfg.depth_cap { stats.depth_capped = true; break; }
    if start.elapsed().as_secs_f64() > cfg.wall_cap_s { stats.wall_capped = true; break; }
    let next = AtomicUsize::new(0);
    let nthreads = threads();
    // (frontier position, op index, encoded successor) of successors not yet visited before this level
    let mut new_succ: Vec<(u32, u16, Enc)> = Vec::new();
    let mut level_fails: Vec<LevelFail> = Vec::new();
    std::thread::scope(|sc| {
      let mut handles = Vec::new();
      for _ in 0..nthreads {
        let (states, parent, visited, frontier, alphabet, next, path_of) = (&states, &parent, &visited, &frontier, &alphabet, &next, &path_of);
        handles.push(sc.spawn(move || {
          crate::runner::install_panic_hook();
          let mut st = BStats::default();
          let mut succ: Vec<(u32, u16, Enc)> = Vec::new();
          let mut lf: Vec<LevelFail> = Vec::new();
          loop {
            let lo = next.fetch_add(8, Ordering::SeqCst);
            if lo >= frontier.len() { break; }
            for pos in lo..(lo + 8).min(frontier.len()) {
              let sidx = frontier[pos];
              let pre = states[sidx as usize];
              let path = path_of(parent, sidx);
              // The implementation state is re-derived by replaying the path on a fresh Pie. An instance is kept for
              // the next operation only while the operations applied to it so far were model self-loops that passed
              // every oracle (then `applied` = path + those self-loops is itself an operation path into `pre`).
              let mut live: Option<Pie<Rec>> = None;
              let mut applied: Vec<Op> = Vec::new();
              for (oi, op) in alphabet.iter().enumerate() {
                if live.is_none() {
                  let mut pie = new_pie();
                  let mut broken = false;
                  for (pi, pop) in path.iter().enumerate() {
                    let o = apply_real(&mut pie, pop, false, ZForm::BoxDeref);
                    st.sessions_on_real_pie += 1;
                    if o.panic.is_some() {
                      // A prefix that was validated before panics on re-execution: pie's behaviour depends on
                      // something outside the operation path (hash seeds). Reported as a violation of pie.
                      let mut m = MState::default();
                      let mut e = Expect::default();
                      for q in &path[..=pi] { e = m.step(q); }
                      let f = judge_step(pop, &e, &m, &o);
                      lf.push((pos as u32, oi as u16, f, o, m, path[..=pi].to_vec()));
                      broken = true;
                      break;
                    }
                  }
                  if broken { break; }
                  st.fresh_instances += 1;
                  applied = path.clone();
                  live = Some(pie);
                }
                let obs = apply_real(live.as_mut().unwrap(), op, true, ZForm::BoxDeref);
                applied.push(*op);
                st.sessions_on_real_pie += 1;
                let mut post = pre;
                let expect = post.step(op);
                st.transitions += 1;
                let f = judge_step(op, &expect, &post, &obs);
                match op {
                  Op::SetCell(..) => st.setcell_transitions += 1,
                  Op::Req(_) | Op::Req2(..) => {
                    st.exec_hist[0][obs.executed.len().min(3)] += 1;
                    for o in &obs.outputs { *st.outputs_hist.entry(*o).or_insert(0) += 1; }
                    if obs.executed.is_empty() && pre.nontrivial() { st.cache_hits_with_lookalike_present += 1; }
                  }
                  Op::BottomUp(_) => st.exec_hist[1][obs.executed.len().min(3)] += 1,
                }
                if !f.is_empty() { lf.push((pos as u32, oi as u16, f, obs, post, applied.clone())); live = None; continue; }
                if post != pre { live = None; }
                let enc = post.encode();
                if !visited.contains(&enc) { succ.push((pos as u32, oi as u16, enc)); }
              }
            }
          }
          (st, succ, lf)
        }));
      }
      for h in handles {
        let (st, succ, lf) = h.join().unwrap_or_else(|_| engine_error("C15: BFS worker panicked"));
        stats.merge(&st);
        new_succ.extend(succ);
        level_fails.extend(lf);
      }
    });
    depth += 1;
    if std::env::var_os("VERIF_C15_TRACE").is_some() { eprintln!("level {} frontier {} parallel part done at {:.2}s", depth, frontier.len(), start.elapsed().as_secs_f64()); }
    if !level_fails.is_empty() {
      level_fails.sort_by(|a, b| (a.0, a.1).cmp(&(b.0, b.1)));
      for (_pos, _oi, f, obs, post, ops) in level_fails {
        let step = ops.len() - 1;
        fails.push(BfsFail { ops, step, fails: f, obs, post });
      }
      stats.max_depth = depth;
      break;
    }
    new_succ.sort();
    let mut next_frontier = Vec::new();
    for (pos, oi, enc) in new_succ {
      if !visited.insert(enc) { continue; }
      let sidx = frontier[pos as usize];
      let mut post = states[sidx as usize];
      let _ = post.step(&alphabet[oi as usize]);
      if post.encode() != enc { engine_error("C15: model step is not deterministic"); }
      let idx = states.len() as u32;
      states.push(post);
      parent.push((sidx, oi));
      next_frontier.push(idx);
    }
    if !next_frontier.is_empty() { stats.max_depth = depth; stats.levels.push(next_frontier.len()); }
    frontier = next_frontier;
    if std::env::var_os("VERIF_C15_TRACE").is_some() { eprintln!("level {} merged at {:.2}s", depth, start.elapsed().as_secs_f64()); }
  }
  if frontier.is_empty() && fails.is_empty() { stats.fixed_point = true; }
  stats.states = states.len();
  stats.nontrivial_states = states.iter().filter(|s| s.nontrivial()).count();
  stats.zero_sized_lookalike_states = states.iter().filter(|s| s.zero_sized_lookalikes()).count();
  stats.colliding_states = states.iter().filter(|s| s.colliding_keys()).count();
  let deepest_path = path_of(&parent, (states.len() - 1) as u32);
  BfsResult { stats, fails, deepest_path }
}

// =====================================================================================================================
// Driver
// =====================================================================================================================

const RULE: &str = "identity = (concrete type, value): part A — for every ordered pair of keys from 17 families (8 same-representation families with a field x 2 values; 7 field-less ones: unit structs ZA, ZB, WA(ZA), pie's unit key (), Box/Rc/Arc of a unit struct; 2 families whose hand-written Hash is coarser than Eq: HK(0,b) hashing the first field only and CK(v) with a constant hash, 2 unequal colliding values each), every one of the six equality routes through dyn KeyObj, evaluated for every combination of operand forms (borrowed from a value, boxed, static, promoted constant), is true iff same type and equal value, equal keys hash equal, and hash maps/sets (random, fixed and all-colliding hasher) keep exactly one entry per (type,value) and find it through every operand form; part B — after every operation of every explored sequence on a real Pie the returned outputs, the executed task identities (tracker), and the complete store census (hook: task nodes with cached outputs, resource nodes, edges, lookup-map sizes) equal a reference model whose cache is keyed by (type,value); zero-sized task / resource keys are handed to pie through `&*Box::new(key)` (the address every stored zero-sized key has); the alphabets include a type used in both roles (Dual) and task / resource types with a Hash coarser than Eq (HT, CT, HR: unequal values with identical hash are different tasks / resources)";
const NONTRIVIAL_RULE: &str = "part A: ordered cross-type pairs with equal value whose dyn-KeyObj hashes coincide (the cases where only the type check separates the keys; all pairs of zero-sized types are among them) plus ordered pairs of unequal values of one type with identical hash (coarse Hash: only Eq separates them); part B: distinct explored states in which at least two task nodes of different concrete types that look alike coexist in the store (same value among FA/FB/Box/Rc/Arc, or two zero-sized task types) or two unequal task keys of one type with identical hash coexist (HT(0,0)/HT(0,1), CT(0)/CT(1))";

/// How often every scripted path is executed on fresh instances (fresh hash seeds).
const SCRIPTED_RUNS: usize = 16;
/// How often a replayed path is executed on fresh instances.
const REPLAY_RUNS: usize = 32;

/// Scripted scenarios, judged like every BFS transition under both operand forms for zero-sized keys.
fn scripted_paths() -> Vec<(&'static str, Vec<Op>)> {
  use Fam::*;
  let l = TKey::Leaf;
  let p = TKey::Par;
  let (ra0, rb0, ra1, rb1, zra, zrb) = (RKey(RFam::RA, 0), RKey(RFam::RB, 0), RKey(RFam::RA, 1), RKey(RFam::RB, 1), RKey(RFam::ZRA, 0), RKey(RFam::ZRB, 0));
  let (d0, d1) = (RKey(RFam::Dual, 0), RKey(RFam::Dual, 1));
  let (hr0, hr1) = (RKey(RFam::HR, 0), RKey(RFam::HR, 1));
  vec![
    // smallest case first: two unit-struct tasks that behave differently
    ("two-unit-struct-tasks", vec![Op::Req(l(ZTA, 0)), Op::Req(l(ZTB, 0)), Op::Req(l(ZTA, 0)), Op::Req2(l(ZTB, 0), l(ZTA, 0))]),
    // wrapper required before the bare task (and after): both orders, for Box/Rc/Arc
    ("wrapper-before-bare", vec![
      Op::Req(l(BoxA, 0)), Op::Req(l(A, 0)), Op::Req(l(BoxA, 0)), Op::Req(l(BoxB, 0)), Op::Req(l(B, 0)), Op::Req(l(RcA, 0)), Op::Req(l(ArcA, 0)), Op::Req(l(A, 0)),
      Op::Req(l(BoxZTA, 0)), Op::Req(l(ZTA, 0)), Op::Req(l(A, 1)), Op::Req(l(BoxA, 1)), Op::Req(p(A, 0)), Op::Req(p(BoxA, 0)),
      Op::SetCell(ra0, 1), Op::Req(l(A, 0)), Op::Req(l(BoxA, 0)), Op::BottomUp(ra0), Op::Req(p(A, 0)),
    ]),
    // unequal keys of one type with the same hash (Hash coarser than Eq), as tasks and as resources
    ("coarse-hash", vec![
      Op::Req(l(HT, 0)), Op::Req(l(HT, 1)), Op::Req(l(HT, 0)), Op::Req(l(CT, 0)), Op::Req(l(CT, 1)), Op::Req2(l(CT, 1), l(CT, 0)),
      Op::SetCell(hr1, 1), Op::Req(l(CT, 0)), Op::Req(l(CT, 1)), Op::BottomUp(hr0), Op::SetCell(ra0, 1), Op::BottomUp(ra0),
      Op::Req(p(HT, 1)), Op::Req(p(CT, 0)), Op::Req(p(HT, 0)), Op::SetCell(hr0, 1), Op::BottomUp(hr0), Op::Req(p(CT, 0)), Op::Req2(l(HT, 1), l(HT, 0)),
    ]),
    // one type in both roles: task Dual(v) reads resource Dual(v)
    ("dual-role", vec![
      Op::Req(l(Dual, 0)), Op::Req(l(Dual, 0)), Op::SetCell(d0, 1), Op::Req(l(Dual, 0)), Op::SetCell(d0, 0), Op::BottomUp(d0), Op::Req(l(Dual, 0)),
      Op::BottomUp(d1), Op::Req(l(Dual, 1)), Op::Req(p(Dual, 0)), Op::SetCell(d0, 1), Op::Req(p(Dual, 0)), Op::SetCell(d1, 1), Op::BottomUp(d1), Op::Req2(l(Dual, 1), l(Dual, 0)),
    ]),
    // pie's unit task and two unit-struct tasks in one Pie: three task nodes, each executed once
    ("unit-and-unit-structs", vec![
      Op::Req(l(Unit, 0)), Op::Req(l(ZTA, 0)), Op::Req(l(ZTB, 0)), Op::Req2(l(Unit, 0), l(ZTA, 0)), Op::Req(l(ZTB, 0)),
      Op::Req(l(ZUA, 0)), Op::Req(l(ZUB, 0)), Op::Req(l(BoxZTA, 0)), Op::BottomUp(zrb), Op::BottomUp(zra),
      Op::SetCell(zra, 1), Op::BottomUp(zrb), Op::BottomUp(zra), Op::Req(l(ZUB, 0)), Op::Req(p(ZTA, 0)), Op::Req(p(ZTB, 0)), Op::Req(p(Unit, 0)),
      Op::SetCell(rb0, 1), Op::Req2(l(ZTA, 0), l(ZTB, 0)), Op::SetCell(zrb, 1), Op::Req2(l(ZUA, 0), l(ZUB, 0)), Op::Req(l(Unit, 0)),
    ]),
    // resource nodes of zero-sized resources created by bottom-up reports only
    ("zero-sized-resource-reports", vec![Op::BottomUp(zra), Op::BottomUp(zrb), Op::Req(l(ZUB, 0)), Op::Req(l(ZUA, 0))]),
    ("all-types", vec![
      Op::Req(l(A, 0)), Op::Req(l(B, 0)), Op::Req(l(BoxA, 0)), Op::Req(l(RcA, 0)), Op::Req(l(ArcA, 0)), Op::Req(l(BoxB, 0)),
      Op::Req(p(A, 0)), Op::Req(p(B, 0)), Op::Req(p(BoxA, 0)), Op::Req(l(A, 1)), Op::Req(l(B, 1)), Op::Req(l(ZTA, 0)), Op::Req(l(ZTB, 0)), Op::Req(l(Unit, 0)),
      Op::SetCell(ra0, 1), Op::BottomUp(ra0), Op::Req(l(B, 0)), Op::Req2(l(A, 0), p(A, 0)),
      Op::SetCell(rb0, 1), Op::Req(p(B, 0)), Op::Req(p(A, 0)), Op::Req(l(BoxB, 0)), Op::Req(l(ZTB, 0)),
      Op::SetCell(rb1, 1), Op::BottomUp(rb1), Op::BottomUp(ra1),
    ]),
  ]
}

fn path_sample(ops: &[Op], obs: &[Obs], z: ZForm) -> Value {
  let steps: Vec<Value> = ops.iter().zip(obs.iter()).map(|(op, o)| json!({
    "op": op.name(), "outputs": o.outputs, "executed": o.executed.iter().map(|k| k.name()).collect::<Vec<_>>(),
    "task_nodes": o.census.tasks.iter().map(|(k, out)| format!("{}={:?}", k.name(), out)).collect::<Vec<_>>(),
    "resource_nodes": o.census.resources.iter().map(|r| r.name()).collect::<Vec<_>>(),
  })).collect();
  json!({"part": "B", "zero_sized_operand_form": z.name(), "ops": ops.iter().map(|o| o.name()).collect::<Vec<_>>(), "steps": steps})
}

fn b_violation(ops: &[Op], step: usize, f: &Fail, obs: &Obs, post: &MState, z: ZForm, note: &str) -> Violation {
  Violation {
    property: "C15".into(), oracle: f.oracle.clone(), key: String::new(),
    what: format!("{} [path: {}; zero-sized keys passed as {}{}{}]", f.what, ops.iter().map(|o| o.name()).collect::<Vec<_>>().join(" "), z.name(), if note.is_empty() { "" } else { "; " }, note),
    replay: json!({"part": "B", "zst_form": z.name(), "ops": ops.iter().map(|o| o.name()).collect::<Vec<_>>(), "failing_step": step, "oracle": f.oracle,
      "note": note, "expected": f.expected, "observed": f.observed, "model_state_after": post.to_json(), "model_store_after": post.census().to_json(), "observation": obs.to_json()}),
  }
}

/// Part A in full. Returns statistics, samples; violations go to `report` (first failure per oracle id only).
fn part_a(report: &mut dyn FnMut(Violation)) -> (AStats, Vec<Value>) {
  let keys = a_keys();
  let mut st = AStats::default();
  let mut samples = Vec::new();
  let mut seen_oracles: Vec<String> = Vec::new();
  for x in keys.iter() {
    for y in keys.iter() {
      let o = observe_pair(*x, *y);
      st.pairs += 1;
      st.evaluations += o.eqs.len(); // six equality routes x operand forms
      st.equality_evaluations += o.eqs.len();
      if x == y { st.same_key_pairs += 1; }
      else if x.0 == y.0 { st.same_type_other_value += 1; if o.hash_dyn_x[0] == o.hash_dyn_y[0] { st.same_type_other_value_equal_hash += 1; } }
      else if x.1 == y.1 {
        st.cross_type_equal_value += 1;
        if o.hash_dyn_x[0] == o.hash_dyn_y[0] { st.cross_type_equal_dyn_hash += 1; }
        if o.debug_x == o.debug_y { st.cross_type_equal_debug += 1; }
        if x.0.zero_sized() && y.0.zero_sized() { st.cross_type_zero_sized_pairs += 1; }
      } else { st.cross_type_other_value += 1; }
      if x.0 != y.0 { st.cross_type_same_address_evaluations += o.eqs.iter().filter(|e| e.same_addr).count(); }
      if o.eq_dyn_stored() { st.observed_equal += 1; } else { st.observed_unequal += 1; }
      st.dyn_hash_checked += 1;
      if o.hash_dyn_x[0] == o.hash_conc_x { st.dyn_hash_equals_concrete_hash += 1; }
      let name = |k: &(KFam, u8)| a_key_name(*k);
      let is = |a: &str, b: &str| name(x) == a && name(y) == b;
      if is("A:0", "B:0") || is("A:0", "Box<A>:0") || is("A:0", "A:0") || is("A:0", "A:1") || is("ZA:0", "ZB:0") || is("ZA:0", "():0") || is("ZA:0", "Box<ZA>:0") || is("HK(0,_):0", "HK(0,_):1") || is("CK:0", "CK:1") {
        samples.push(json!({"part": "A", "x": a_key_name(*x), "y": a_key_name(*y), "expected_same": x == y, "observed": o.to_json()}));
      }
      for f in judge_pair(*x, *y, &o) {
        if seen_oracles.contains(&f.oracle) { continue; }
        seen_oracles.push(f.oracle.clone());
        report(Violation { property: "C15".into(), oracle: f.oracle.clone(), key: String::new(), what: f.what.clone(),
          replay: json!({"part": "A", "case": "pair", "x": a_key_name(*x), "y": a_key_name(*y), "oracle": f.oracle, "expected": f.expected, "observed": f.observed, "observation": o.to_json()}) });
      }
    }
  }
  for order in 0..(2 * keys.len()) {
    let obs = observe_collections(order);
    st.collection_orders += 1;
    for o in &obs { let n: usize = o.lookups.iter().map(|l| 2 * l.len()).sum(); st.collection_lookups += n; st.evaluations += n + 2; }
    if order == 0 {
      samples.push(json!({"part": "A", "case": "collections", "insertion_order": 0, "observed": obs.iter().map(|o| json!({"hasher": o.hasher, "map_len": o.map_len, "set_len": o.set_len, "own_entry_found": o.lookups.iter().zip(keys.iter()).filter(|(l, k)| l.iter().all(|(_, found, inset)| *found == Some(**k) && *inset)).count()})).collect::<Vec<_>>()}));
    }
    for f in judge_collections(order, &obs) {
      if seen_oracles.contains(&f.oracle) { continue; }
      seen_oracles.push(f.oracle.clone());
      report(Violation { property: "C15".into(), oracle: f.oracle.clone(), key: String::new(), what: f.what.clone(),
        replay: json!({"part": "A", "case": "collections", "order": order, "oracle": f.oracle, "expected": f.expected, "observed": f.observed}) });
    }
  }
  // Information only (nothing to judge): one type used as task and as resource is of course ONE key for `dyn KeyObj`
  // (same type, same value); keeping the two roles apart is the Store's job (part B census through VerifNode).
  let (dt, dr) = (Dual(0), Dual(0));
  let same = (&dt as &dyn KeyObj) == (&dr as &dyn KeyObj) && dyn_hash(&dt) == dyn_hash(&dr);
  samples.push(json!({"part": "A", "case": "dual-role key (information)", "x": "Dual(0) used as task", "y": "Dual(0) used as resource", "dyn_KeyObj_equal_and_equal_hash": same,
    "note": "same type and value: equal by the identity rule; the role separation is checked on the Store in part B"}));
  (st, samples)
}

pub fn run(args: &Args) -> i32 {
  crate::runner::install_panic_hook();
  let mut rep = Report::new(args);
  rep.max_violations = 24;
  if let Some(file) = &args.replay { return replay(file, rep); }
  let start = std::time::Instant::now();
  let cfgs = Cfg::for_tier(args.tier);

  // ---- part A
  let mut vs: Vec<Violation> = Vec::new();
  let (ast, mut samples) = part_a(&mut |v| vs.push(v));
  for v in vs.drain(..) { rep.violation(v); }

  // ---- part B: scripted scenarios (all types at once), judged like every BFS transition, under both operand forms
  // `bfs-only` (extra argument, used to demonstrate that the search finds defects without the scripted paths)
  let bfs_only = args.extra.iter().any(|e| e == "bfs-only");
  let mut seen_oracles: Vec<String> = Vec::new();
  let mut scripted_steps = 0usize;
  let mut scripted_nondeterministic = 0usize;
  for (name, path) in scripted_paths() {
    for z in [ZForm::BoxDeref, ZForm::Local] {
      let _ = name;
      let r = run_repeated(&path, z, SCRIPTED_RUNS);
      scripted_steps += r.obs.len() * r.runs;
      if !r.deterministic { scripted_nondeterministic += 1; }
      if let Some((step, fails)) = r.fail.as_ref().filter(|_| !bfs_only) {
        let mut m = MState::default();
        for op in &path[..=*step] { let _ = m.step(op); }
        for f in fails {
          if seen_oracles.contains(&f.oracle) { continue; }
          seen_oracles.push(f.oracle.clone());
          rep.violation(b_violation(&path[..=*step], *step, f, &r.obs[*step], &m, z, &r.note()));
        }
      }
      if z == ZForm::BoxDeref { samples.push(path_sample(&path, &r.obs, z)); }
    }
  }

  // ---- part B: BFS, one search per alphabet
  let mut total = BStats::default();
  total.fixed_point = true;
  let mut per_alphabet = Vec::new();
  let mut any_fail = false;
  for cfg in &cfgs {
    let t0 = start.elapsed().as_secs_f64();
    let res = bfs(cfg, start);
    for bf in &res.fails {
      any_fail = true;
      for f in &bf.fails {
        if seen_oracles.contains(&f.oracle) { continue; }
        seen_oracles.push(f.oracle.clone());
        rep.violation(b_violation(&bf.ops, bf.step, f, &bf.obs, &bf.post, ZForm::BoxDeref, "found by the search; one execution"));
      }
    }
    if res.fails.is_empty() && !res.deepest_path.is_empty() {
      let obs = run_path_full(&res.deepest_path, ZForm::BoxDeref);
      samples.push(path_sample(&res.deepest_path, &obs, ZForm::BoxDeref));
    }
    let s = &res.stats;
    let alphabet = cfg.alphabet();
    per_alphabet.push(json!({
      "name": cfg.name, "alphabet": alphabet.iter().map(|o| o.name()).collect::<Vec<_>>(), "alphabet_size": alphabet.len(), "key_set": cfg.pruned_note,
      "depth_cap": cfg.depth_cap, "wall_cap_s_from_start": cfg.wall_cap_s,
      "states": s.states, "transitions": s.transitions, "max_depth": s.max_depth, "wall_s": start.elapsed().as_secs_f64() - t0,
      "search_end": if s.fixed_point { "fixed point" } else if s.depth_capped { "depth cap" } else if s.wall_capped { "wall cap" } else { "violation" },
      "states_with_lookalike_task_nodes": s.nontrivial_states, "states_with_two_zero_sized_task_types": s.zero_sized_lookalike_states, "states_with_two_colliding_unequal_task_keys": s.colliding_states,
      "states_per_bfs_level": s.levels,
    }));
    total.merge(s);
    total.states += s.states;
    total.nontrivial_states += s.nontrivial_states;
    total.zero_sized_lookalike_states += s.zero_sized_lookalike_states;
    total.colliding_states += s.colliding_states;
    total.max_depth = total.max_depth.max(s.max_depth);
    total.fixed_point &= s.fixed_point;
    total.depth_capped |= s.depth_capped;
    total.wall_capped |= s.wall_capped;
  }
  let s = &total;
  rep.set("states", json!(s.states));
  rep.set("transitions", json!(s.transitions));
  rep.set("traces_validated_against_impl", json!(s.transitions + scripted_steps));
  rep.set("scripted_steps_validated", json!(scripted_steps));
  rep.set("scripted_paths_with_nondeterministic_behaviour", json!(scripted_nondeterministic));
  rep.set("sessions_executed_on_real_pie", json!(s.sessions_on_real_pie));
  rep.set("fresh_pie_instances", json!(s.fresh_instances));
  rep.set("samples", Value::Array(samples));
  let exhaustive = s.fixed_point;
  rep.set("exhaustive", json!(exhaustive));
  rep.set("exhaustive_note", json!(if exhaustive {
    "part A: all ordered pairs of the stated families/values in all operand forms; part B: the BFS of every stated alphabet reached its fixed point (no new model states)"
  } else if any_fail {
    "search stopped at the first level containing a violation"
  } else {
    "part A complete; part B: at least one alphabet is complete only up to its reported max_depth (depth or wall cap hit, see bounds.part_b.alphabets)"
  }));
  rep.set("search_end", json!(if s.fixed_point { "fixed point" } else if s.depth_capped { "depth cap" } else if s.wall_capped { "wall cap" } else { "violation" }));
  rep.set("rule", json!(RULE));
  rep.set("evaluations", json!(ast.evaluations + s.transitions + scripted_steps));
  rep.set("distinct_nontrivial", json!(ast.cross_type_equal_dyn_hash + ast.same_type_other_value_equal_hash + s.nontrivial_states));
  rep.set("distinct_nontrivial_rule", json!(NONTRIVIAL_RULE));
  rep.set("distinct_nontrivial_detail", json!({"part_a_cross_type_equal_value_equal_hash_pairs": ast.cross_type_equal_dyn_hash, "part_a_same_type_unequal_value_equal_hash_pairs": ast.same_type_other_value_equal_hash, "part_b_states_with_two_colliding_unequal_task_keys": s.colliding_states, "part_a_pairs_of_two_different_zero_sized_types": ast.cross_type_zero_sized_pairs,
    "part_b_states_with_lookalike_task_nodes": s.nontrivial_states, "part_b_states_with_two_zero_sized_task_types": s.zero_sized_lookalike_states}));
  rep.set("distinct_outcomes", json!({
    "part_a": {
      "ordered_pairs": ast.pairs, "equality_evaluations (routes x operand forms)": ast.equality_evaluations,
      "same_key_pairs": ast.same_key_pairs, "same_type_other_value_pairs": ast.same_type_other_value,
      "same_type_other_value_pairs_with_equal_hash (coarse Hash)": ast.same_type_other_value_equal_hash,
      "cross_type_equal_value_pairs": ast.cross_type_equal_value, "cross_type_other_value_pairs": ast.cross_type_other_value,
      "cross_type_equal_value_pairs_with_equal_dyn_hash": ast.cross_type_equal_dyn_hash, "cross_type_equal_value_pairs_with_equal_debug_text": ast.cross_type_equal_debug,
      "pairs_of_two_different_zero_sized_types": ast.cross_type_zero_sized_pairs,
      "cross_type_equality_evaluations_whose_operands_share_one_address": ast.cross_type_same_address_evaluations,
      "pairs_observed_equal": ast.observed_equal, "pairs_observed_unequal": ast.observed_unequal,
      "dyn_hash_equals_concrete_hash (informational, not an oracle)": format!("{}/{}", ast.dyn_hash_equals_concrete_hash, ast.dyn_hash_checked),
      "collection_insertion_orders": ast.collection_orders, "collection_lookups": ast.collection_lookups,
    },
    "part_b": {
      "require_sessions_by_tasks_executed": {"0": s.exec_hist[0][0], "1": s.exec_hist[0][1], "2": s.exec_hist[0][2], "3+": s.exec_hist[0][3]},
      "bottom_up_sessions_by_tasks_executed": {"0": s.exec_hist[1][0], "1": s.exec_hist[1][1], "2": s.exec_hist[1][2], "3+": s.exec_hist[1][3]},
      "set_cell_transitions": s.setcell_transitions,
      "returned_outputs_histogram (0 = unit)": s.outputs_hist.iter().map(|(k, v)| (k.to_string(), json!(v))).collect::<serde_json::Map<String, Value>>(),
      "cache_hits_while_a_lookalike_of_another_type_was_cached": s.cache_hits_with_lookalike_present,
    },
  }));
  rep.set("bounds", json!({
    "part_a": {"families": KFAMS.iter().map(|f| f.name()).collect::<Vec<_>>(), "values": "0 and 1 for families with a field (HK: HK(0,0), HK(0,1)), the single value for field-less families", "keys": a_keys().len(), "pairs": "all ordered pairs",
      "operand_forms": ["stored (borrowed from a value)", "boxed", "static", "promoted constant"], "hashers": ["RandomState", "DefaultHasher(fixed)", "ConstHasher(all collide)"], "insertion_orders": "all rotations, forward and reversed"},
    "part_b": {"alphabets": per_alphabet, "zero_sized_operand_form_in_bfs": "box-deref", "scripted_paths": scripted_paths().iter().map(|(n, p)| json!({"name": n, "ops": p.len(), "operand_forms": ["box-deref", "local"]})).collect::<Vec<_>>(), "threads": threads()},
    "dyn_TaskObj": "not nameable outside the crate (trait_object::task is pub(crate)); task identity is checked through the real Store in part B",
  }));
  rep.set("max_depth", json!(s.max_depth));
  rep.assume("Task / resource types of the harness are deterministic and their Eq/Hash/Debug are as written in c15.rs; a `Hash for dyn KeyObj` that differs from the concrete hash is reported as information only (identity must not depend on hash quality).");
  rep.assume("schedule_tasks_affected_by creates a resource node for a resource that was never read; the model counts reported resources as resource nodes (observed behaviour, not an identity issue).");
  rep.assume("pie's unit task `()` has output `()`; the harness shows it as 0 in outputs and cached outputs.");
  rep.finish()
}

// ------------------------------------------------------------------------------------------------ replay

fn replay(file: &std::path::Path, mut rep: Report) -> i32 {
  let text = std::fs::read_to_string(file).unwrap_or_else(|e| engine_error(&format!("cannot read replay file: {}", e)));
  let v: Value = serde_json::from_str(&text).unwrap_or_else(|e| engine_error(&format!("replay file does not parse: {}", e)));
  let r = v.get("replay").unwrap_or(&v).clone();
  let part = r.get("part").and_then(|p| p.as_str()).unwrap_or_else(|| engine_error("replay: part missing"));
  let steps: usize;
  let mut found: Vec<Violation> = Vec::new();
  match part {
    "A" => {
      match r.get("case").and_then(|c| c.as_str()) {
        Some("pair") => {
          let x = r.get("x").and_then(|s| s.as_str()).and_then(a_key_parse).unwrap_or_else(|| engine_error("replay: bad x"));
          let y = r.get("y").and_then(|s| s.as_str()).and_then(a_key_parse).unwrap_or_else(|| engine_error("replay: bad y"));
          // executed twice; the verdicts (not the operand addresses) have to agree, else the worse one is reported
          let o1 = observe_pair(x, y);
          let o2 = observe_pair(x, y);
          let o1 = if judge_pair(x, y, &o1).len() >= judge_pair(x, y, &o2).len() { o1 } else { o2 };
          steps = 1;
          for f in judge_pair(x, y, &o1) {
            found.push(Violation { property: "C15".into(), oracle: f.oracle.clone(), key: String::new(), what: f.what.clone(),
              replay: json!({"part": "A", "case": "pair", "x": a_key_name(x), "y": a_key_name(y), "oracle": f.oracle, "expected": f.expected, "observed": f.observed, "observation": o1.to_json()}) });
          }
          rep.set("samples", json!([{"part": "A", "x": a_key_name(x), "y": a_key_name(y), "observed": o1.to_json()}]));
        }
        Some("collections") => {
          let order = r.get("order").and_then(|o| o.as_u64()).unwrap_or_else(|| engine_error("replay: order missing")) as usize;
          if order >= 2 * a_keys().len() { engine_error("replay: order out of range"); }
          let o1 = observe_collections(order);
          let o2 = observe_collections(order);
          let o1 = if judge_collections(order, &o1).len() >= judge_collections(order, &o2).len() { o1 } else { o2 };
          steps = 1;
          for f in judge_collections(order, &o1) {
            found.push(Violation { property: "C15".into(), oracle: f.oracle.clone(), key: String::new(), what: f.what.clone(),
              replay: json!({"part": "A", "case": "collections", "order": order, "oracle": f.oracle, "expected": f.expected, "observed": f.observed}) });
          }
          rep.set("samples", json!([{"part": "A", "case": "collections", "order": order}]));
        }
        _ => engine_error("replay: unknown part A case"),
      }
    }
    "B" => {
      let ops: Vec<Op> = r.get("ops").and_then(|o| o.as_array()).unwrap_or_else(|| engine_error("replay: ops missing"))
        .iter().map(|s| s.as_str().and_then(Op::parse).unwrap_or_else(|| engine_error(&format!("replay: bad op {}", s)))).collect();
      let z = match r.get("zst_form").and_then(|z| z.as_str()) { None => ZForm::BoxDeref, Some(t) => ZForm::parse(t).unwrap_or_else(|| engine_error("replay: bad zst_form")) };
      // Executed REPLAY_RUNS times on fresh instances; every execution is judged. Executions that differ from each
      // other are a property of the code under test (hash-seed dependence) and are reported through the failing oracle.
      let r = run_repeated(&ops, z, REPLAY_RUNS);
      steps = r.obs.len();
      if let Some((step, fails)) = &r.fail {
        let mut m = MState::default();
        for op in &ops[..=*step] { let _ = m.step(op); }
        for f in fails { found.push(b_violation(&ops[..=*step], *step, f, &r.obs[*step], &m, z, &r.note())); }
      }
      rep.set("replay_executions", json!({"runs": r.runs, "failing": r.failing_runs, "deterministic": r.deterministic}));
      rep.set("samples", json!([path_sample(&ops, &r.obs, z)]));
    }
    _ => engine_error("replay: unknown part"),
  }
  let n = found.len();
  let mut oracles: Vec<String> = Vec::new();
  for v in found { if oracles.contains(&v.oracle) { continue; } oracles.push(v.oracle.clone()); rep.violation(v); }
  if n == 0 { println!("replay: no violation"); }
  rep.set("states", json!(steps + 1));
  rep.set("transitions", json!(steps));
  rep.set("traces_validated_against_impl", json!(steps));
  rep.set("exhaustive", json!(false));
  rep.set("rule", json!("replay of one recorded case, executed twice with identical observations required, re-judged with the C15 oracles"));
  rep.set("evaluations", json!(steps));
  rep.set("distinct_nontrivial", json!(if steps > 0 { 1 } else { 0 }));
  rep.set("distinct_outcomes", json!({"oracles_failing": oracles}));
  rep.set("bounds", json!({"replay": file.display().to_string()}));
  rep.set("max_depth", json!(steps));
  rep.finish()
}

// =====================================================================================================================
// Unit tests of the reference model (and of the op syntax)
// =====================================================================================================================

#[cfg(test)]
mod tests {
  use super::*;

  fn l(f: Fam, v: u8) -> TKey { TKey::Leaf(f, v) }
  fn p(f: Fam, v: u8) -> TKey { TKey::Par(f, v) }
  const RA0: RKey = RKey(RFam::RA, 0);
  const RB0: RKey = RKey(RFam::RB, 0);

  #[test]
  fn equal_keys_execute_once_and_types_never_share() {
    let mut m = MState::default();
    let e = m.step(&Op::Req(l(Fam::A, 0)));
    assert_eq!((e.outputs.clone(), e.executed.clone()), (vec![1], vec![l(Fam::A, 0)]));
    let e = m.step(&Op::Req(l(Fam::A, 0)));
    assert_eq!((e.outputs.clone(), e.executed.len()), (vec![1], 0));
    // same value, other type: executes separately, other output
    let e = m.step(&Op::Req(l(Fam::B, 0)));
    assert_eq!((e.outputs.clone(), e.executed.clone()), (vec![2], vec![l(Fam::B, 0)]));
    let e = m.step(&Op::Req(l(Fam::BoxA, 0)));
    assert_eq!((e.outputs.clone(), e.executed.clone()), (vec![1], vec![l(Fam::BoxA, 0)]));
    let c = m.census();
    assert_eq!(c.tasks.len(), 3);
    assert_eq!(c.resources, vec![RA0, RB0]);
    assert_eq!(c.edges.len(), 3);
  }

  #[test]
  fn parent_shares_the_child_entry() {
    let mut m = MState::default();
    let e = m.step(&Op::Req(p(Fam::A, 0)));
    assert_eq!(e.outputs, vec![1]);
    assert_eq!(e.executed, vec![l(Fam::A, 0), p(Fam::A, 0)]);
    // the child reached directly is the same entry: nothing executes
    assert!(m.step(&Op::Req(l(Fam::A, 0))).executed.is_empty());
    // P(B,0) needs FB(0), which is not FA(0)
    let e = m.step(&Op::Req(p(Fam::B, 0)));
    assert_eq!(e.executed, vec![l(Fam::B, 0), p(Fam::B, 0)]);
    assert_eq!(e.outputs, vec![2]);
    // both in one session
    let mut m2 = MState::default();
    let e = m2.step(&Op::Req2(p(Fam::A, 0), l(Fam::A, 0)));
    assert_eq!(e.outputs, vec![1, 1]);
    assert_eq!(e.executed, vec![l(Fam::A, 0), p(Fam::A, 0)]);
  }

  #[test]
  fn set_cell_affects_only_its_family_and_value() {
    let mut m = MState::default();
    for k in [l(Fam::A, 0), l(Fam::B, 0), l(Fam::BoxA, 0), l(Fam::A, 1), p(Fam::A, 0), p(Fam::B, 0)] { m.step(&Op::Req(k)); }
    m.step(&Op::SetCell(RA0, 1));
    assert!(m.step(&Op::Req(l(Fam::B, 0))).executed.is_empty());
    assert!(m.step(&Op::Req(l(Fam::A, 1))).executed.is_empty());
    assert!(m.step(&Op::Req(p(Fam::B, 0))).executed.is_empty());
    let e = m.step(&Op::BottomUp(RA0));
    assert_eq!(e.executed, vec![l(Fam::A, 0), l(Fam::BoxA, 0), p(Fam::A, 0)]);
    assert!(m.step(&Op::Req(p(Fam::A, 0))).executed.is_empty());
    assert_eq!(m.step(&Op::Req(l(Fam::A, 0))).outputs, vec![11]);
    assert_eq!(m.step(&Op::Req(l(Fam::B, 0))).outputs, vec![2]);
  }

  #[test]
  fn parent_stamp_is_what_it_saw() {
    let mut m = MState::default();
    m.step(&Op::Req(p(Fam::A, 0))); // saw 1
    m.step(&Op::SetCell(RA0, 1));
    assert_eq!(m.step(&Op::Req(l(Fam::A, 0))).outputs, vec![11]); // child re-executed directly; P still has stamp 1
    m.step(&Op::SetCell(RA0, 0));
    let e = m.step(&Op::BottomUp(RA0)); // child back to 1 == stamp: P not re-executed
    assert_eq!(e.executed, vec![l(Fam::A, 0)]);
    assert!(m.step(&Op::Req(p(Fam::A, 0))).executed.is_empty());
    // top-down variant
    let mut m = MState::default();
    m.step(&Op::Req(p(Fam::A, 0)));
    m.step(&Op::SetCell(RA0, 1));
    let e = m.step(&Op::Req(p(Fam::A, 0)));
    assert_eq!((e.outputs, e.executed), (vec![11], vec![l(Fam::A, 0), p(Fam::A, 0)]));
  }

  #[test]
  fn zero_sized_types_are_separate_keys() {
    let (zra, zrb) = (RKey(RFam::ZRA, 0), RKey(RFam::ZRB, 0));
    let mut m = MState::default();
    // pie's unit task and two unit structs: three nodes, each executed once
    assert_eq!(m.step(&Op::Req(l(Fam::Unit, 0))), Expect { outputs: vec![0], executed: vec![l(Fam::Unit, 0)] });
    assert_eq!(m.step(&Op::Req(l(Fam::ZTA, 0))), Expect { outputs: vec![1], executed: vec![l(Fam::ZTA, 0)] });
    assert_eq!(m.step(&Op::Req(l(Fam::ZTB, 0))), Expect { outputs: vec![2], executed: vec![l(Fam::ZTB, 0)] });
    assert_eq!(m.step(&Op::Req2(l(Fam::Unit, 0), l(Fam::ZTA, 0))), Expect { outputs: vec![0, 1], executed: vec![] });
    assert_eq!(m.census().tasks.len(), 3);
    assert_eq!(m.census().resources, vec![RA0, RB0]);
    // ZTA is not FA(0) although both read RA(0) and return the same value
    assert_eq!(m.step(&Op::Req(l(Fam::A, 0))).executed, vec![l(Fam::A, 0)]);
    // the unit task has no dependency: never re-executed, untouched by any report
    m.step(&Op::SetCell(RA0, 1));
    assert_eq!(m.step(&Op::BottomUp(RA0)).executed, vec![l(Fam::A, 0), l(Fam::ZTA, 0)]);
    assert!(m.step(&Op::Req(l(Fam::Unit, 0))).executed.is_empty());
    // zero-sized resources: own nodes, own cells
    assert_eq!(m.step(&Op::Req(l(Fam::ZUA, 0))).outputs, vec![3]);
    assert_eq!(m.step(&Op::Req(l(Fam::ZUB, 0))).outputs, vec![4]);
    m.step(&Op::SetCell(zra, 1));
    assert!(m.step(&Op::BottomUp(zrb)).executed.is_empty());
    assert_eq!(m.step(&Op::BottomUp(zra)).executed, vec![l(Fam::ZUA, 0)]);
    assert_eq!(m.step(&Op::Req2(l(Fam::ZUA, 0), l(Fam::ZUB, 0))), Expect { outputs: vec![13, 4], executed: vec![] });
    assert_eq!(m.census().resources, vec![RA0, RB0, zra, zrb]);
    // parent of a unit-struct task shares the child's entry
    assert_eq!(m.step(&Op::Req(p(Fam::ZTA, 0))), Expect { outputs: vec![11], executed: vec![p(Fam::ZTA, 0)] });
  }

  #[test]
  fn dual_role_key_has_a_task_node_and_a_resource_node() {
    let (d0, d1) = (RKey(RFam::Dual, 0), RKey(RFam::Dual, 1));
    let mut m = MState::default();
    assert_eq!(m.step(&Op::Req(l(Fam::Dual, 0))), Expect { outputs: vec![5], executed: vec![l(Fam::Dual, 0)] });
    let c = m.census();
    assert_eq!(c.tasks, vec![(l(Fam::Dual, 0), Some(5))]);
    assert_eq!(c.resources, vec![d0]);
    assert_eq!(c.edges, vec![EdgeObs::Read { src: l(Fam::Dual, 0), dst: d0, stamp: Some(0) }]);
    // the output follows the cell of the resource Dual(0), not of Dual(1)
    m.step(&Op::SetCell(d1, 1));
    assert!(m.step(&Op::Req(l(Fam::Dual, 0))).executed.is_empty());
    m.step(&Op::SetCell(d0, 1));
    assert_eq!(m.step(&Op::Req(l(Fam::Dual, 0))), Expect { outputs: vec![15], executed: vec![l(Fam::Dual, 0)] });
    m.step(&Op::SetCell(d0, 0));
    assert_eq!(m.step(&Op::BottomUp(d0)).executed, vec![l(Fam::Dual, 0)]);
    assert_eq!(m.step(&Op::Req(p(Fam::Dual, 0))), Expect { outputs: vec![5], executed: vec![p(Fam::Dual, 0)] });
    assert_eq!(m.step(&Op::Req(l(Fam::Dual, 1))).outputs, vec![15]);
    assert_eq!(m.census().resources, vec![d0, d1]);
  }

  #[test]
  fn unequal_keys_with_equal_hash_are_different_tasks_and_resources() {
    use std::hash::{Hash, Hasher};
    let h = |k: &dyn Fn(&mut DefaultHasher)| { let mut s = DefaultHasher::new(); k(&mut s); s.finish() };
    assert_eq!(h(&|s| HT(0, 0).hash(s)), h(&|s| HT(0, 1).hash(s)));
    assert_eq!(h(&|s| CT(0).hash(s)), h(&|s| CT(1).hash(s)));
    assert_eq!(h(&|s| HR(0).hash(s)), h(&|s| HR(1).hash(s)));
    assert!(HT(0, 0) != HT(0, 1) && CT(0) != CT(1) && HR(0) != HR(1));
    let (hr0, hr1) = (RKey(RFam::HR, 0), RKey(RFam::HR, 1));
    let mut m = MState::default();
    assert_eq!(m.step(&Op::Req(l(Fam::HT, 0))), Expect { outputs: vec![6], executed: vec![l(Fam::HT, 0)] });
    assert_eq!(m.step(&Op::Req(l(Fam::HT, 1))), Expect { outputs: vec![7], executed: vec![l(Fam::HT, 1)] });
    assert_eq!(m.step(&Op::Req2(l(Fam::CT, 1), l(Fam::CT, 0))), Expect { outputs: vec![9, 8], executed: vec![l(Fam::CT, 0), l(Fam::CT, 1)] });
    assert_eq!(m.census().tasks.len(), 4);
    assert_eq!(m.census().resources, vec![RA0, hr0, hr1]);
    m.step(&Op::SetCell(hr1, 1));
    assert!(m.step(&Op::Req(l(Fam::CT, 0))).executed.is_empty());
    assert!(m.step(&Op::BottomUp(hr0)).executed.is_empty());
    assert_eq!(m.step(&Op::BottomUp(hr1)).executed, vec![l(Fam::CT, 1)]);
    assert_eq!(m.step(&Op::Req(l(Fam::CT, 1))).outputs, vec![19]);
    m.step(&Op::SetCell(RA0, 1));
    assert_eq!(m.step(&Op::BottomUp(RA0)).executed, vec![l(Fam::HT, 0), l(Fam::HT, 1)]);
    assert_eq!(m.step(&Op::Req(p(Fam::HT, 1))), Expect { outputs: vec![17], executed: vec![p(Fam::HT, 1)] });
  }

  #[test]
  fn bottom_up_creates_the_reported_resource_node_only() {
    let mut m = MState::default();
    let e = m.step(&Op::BottomUp(RB0));
    assert!(e.executed.is_empty());
    assert_eq!(m.census().resources, vec![RB0]);
    assert!(m.census().tasks.is_empty());
  }

  #[test]
  fn encoding_is_injective_on_reachable_states() {
    let cfg = Cfg::for_tier(Tier::Quick).remove(0);
    let ops = cfg.alphabet();
    let mut seen: HashMap<Enc, MState> = HashMap::new();
    let mut frontier = vec![MState::default()];
    seen.insert(frontier[0].encode(), frontier[0]);
    for _ in 0..4 {
      let mut next = Vec::new();
      for s in &frontier { for op in &ops {
        let mut t = *s; t.step(op);
        match seen.get(&t.encode()) { Some(o) => assert_eq!(*o, t), None => { seen.insert(t.encode(), t); next.push(t); } }
      } }
      frontier = next;
    }
    assert!(seen.len() > 100);
  }

  #[test]
  fn op_names_round_trip() {
    for tier in [Tier::Quick, Tier::Thorough] {
      for cfg in Cfg::for_tier(tier) { for op in cfg.alphabet() { assert_eq!(Op::parse(&op.name()), Some(op), "{}", op.name()); } }
    }
    for (_, path) in scripted_paths() { for op in path { assert_eq!(Op::parse(&op.name()), Some(op), "{}", op.name()); } }
    for f in FAMS { for &v in f.values() {
      assert_eq!(TKey::parse(&TKey::Leaf(f, v).name()), Some(TKey::Leaf(f, v)));
      assert_eq!(TKey::parse(&TKey::Par(f, v).name()), Some(TKey::Par(f, v)));
    } }
    for f in RFAMS { for &v in f.values() { assert_eq!(RKey::parse(&RKey(f, v).name()), Some(RKey(f, v))); } }
    for k in a_keys() { assert_eq!(a_key_parse(&a_key_name(k)), Some(k)); }
  }

  #[test]
  fn model_agrees_with_real_pie_on_the_scripted_path() {
    crate::runner::install_panic_hook();
    for (name, ops) in scripted_paths() {
      for z in [ZForm::BoxDeref, ZForm::Local] {
        let obs = run_path_full(&ops, z);
        assert_eq!(obs.len(), ops.len(), "{}", name);
        assert!(judge_path(&ops, &obs).is_none(), "{}", name);
      }
    }
  }

  #[test]
  fn part_a_identity_rule_on_real_code() {
    for x in a_keys() { for y in a_keys() { assert!(judge_pair(x, y, &observe_pair(x, y)).is_empty()); } }
    assert!(judge_collections(0, &observe_collections(0)).is_empty());
  }
}
