//! Executes a history (sequence of explorer events) on a fresh, real `Pie` instance and records everything.

use std::cell::RefCell;
use std::panic::{catch_unwind, AssertUnwindSafe};
use std::sync::Once;

use pie::tracker::event::EventTracker;
use pie::tracker::CompositeTracker;
use pie::{Pie, ResourceState};
use serde_json::{json, Value};

use crate::dump::{dump_store, Dump};
use crate::prog::*;
use crate::tracker::{Rec, TrkEv};
use crate::world::*;

pub type VPie = Pie<CompositeTracker<Rec, CompositeTracker<EventTracker, Rec>>>;

/// Explorer events (DESIGN §3.5).
#[derive(Clone, PartialEq, Eq, Hash, PartialOrd, Ord, Debug)]
pub enum Event {
  Set(Rid, Cell),
  SetFail(Rid, bool),
  /// one session requiring the roots in order
  TopDown(Vec<Tid>),
  /// one session requiring the roots in order, each require with its own `catch_unwind`: the session is used
  /// again after a caught panic
  TopDownKeep(Vec<Tid>),
  /// one session: optional requires, bottom-up build reporting the resources in order, optional requires
  /// `builds`: how many bottom-up builds (each reporting `reported`) the session runs one after the other (1 or 2)
  BottomUp { pre: Vec<Tid>, reported: Vec<Rid>, then: Vec<Tid>, builds: u8 },
}

impl Event {
  pub fn is_build(&self) -> bool { matches!(self, Event::TopDown(_) | Event::TopDownKeep(_) | Event::BottomUp { .. }) }
  pub fn to_string(&self) -> String {
    match self {
      Event::Set(r, c) => format!("Set(r{},{})", r, cell_to_string(*c)),
      Event::SetFail(r, b) => format!("SetFail(r{},{})", r, b),
      Event::TopDown(roots) => format!("TopDown[{}]", roots.iter().map(|t| format!("T{}", t)).collect::<Vec<_>>().join(",")),
      Event::TopDownKeep(roots) => format!("TopDownKeepSession[{}]", roots.iter().map(|t| format!("T{}", t)).collect::<Vec<_>>().join(",")),
      Event::BottomUp { pre, reported, then, builds } => format!(
        "BottomUp{}{{pre:[{}],reported:[{}],then:[{}]}}", match *builds { 2 => "x2", 3 => "-split", _ => "" },
        pre.iter().map(|t| format!("T{}", t)).collect::<Vec<_>>().join(","),
        reported.iter().map(|r| format!("r{}", r)).collect::<Vec<_>>().join(","),
        then.iter().map(|t| format!("T{}", t)).collect::<Vec<_>>().join(",")),
    }
  }
  pub fn to_json(&self) -> Value {
    match self {
      Event::Set(r, c) => json!({"ev": "Set", "r": r, "v": cell_to_string(*c)}),
      Event::SetFail(r, b) => json!({"ev": "SetFail", "r": r, "v": b}),
      Event::TopDown(roots) => json!({"ev": "TopDown", "roots": roots}),
      Event::TopDownKeep(roots) => json!({"ev": "TopDownKeep", "roots": roots}),
      Event::BottomUp { pre, reported, then, builds } => json!({"ev": "BottomUp", "pre": pre, "reported": reported, "then": then, "builds": builds}),
    }
  }
  pub fn from_json(v: &Value) -> Result<Event, String> {
    let list = |k: &str| -> Vec<u8> {
      v.get(k).and_then(|x| x.as_array()).map(|a| a.iter().filter_map(|x| x.as_u64()).map(|x| x as u8).collect()).unwrap_or_default()
    };
    let r = v.get("r").and_then(|x| x.as_u64()).unwrap_or(0) as u8;
    match v.get("ev").and_then(|x| x.as_str()).ok_or("ev")? {
      "Set" => {
        let c = match v.get("v").and_then(|x| x.as_str()).ok_or("v")? { "absent" => None, "0" => Some(0), "1" => Some(1), o => return Err(format!("cell {}", o)) };
        Ok(Event::Set(r, c))
      }
      "SetFail" => Ok(Event::SetFail(r, v.get("v").and_then(|x| x.as_bool()).ok_or("v")?)),
      "TopDown" => Ok(Event::TopDown(list("roots"))),
      "TopDownKeep" => Ok(Event::TopDownKeep(list("roots"))),
      "BottomUp" => Ok(Event::BottomUp { pre: list("pre"), reported: list("reported"), then: list("then"), builds: v.get("builds").and_then(|x| x.as_u64()).unwrap_or(1) as u8 }),
      o => Err(format!("event {}", o)),
    }
  }
}

/// An event plus its deviation decoration: abort at crash point `k` of this step.
#[derive(Clone, PartialEq, Eq, Hash, PartialOrd, Ord, Debug)]
pub struct PEvent {
  pub ev: Event,
  pub crash_at: Option<usize>,
}

impl PEvent {
  pub fn plain(ev: Event) -> Self { PEvent { ev, crash_at: None } }
  pub fn to_string(&self) -> String {
    match self.crash_at { Some(k) => format!("{}!crash@{}", self.ev.to_string(), k), None => self.ev.to_string() }
  }
  pub fn to_json(&self) -> Value {
    let mut v = self.ev.to_json();
    if let Some(k) = self.crash_at { v.as_object_mut().unwrap().insert("crash_at".into(), json!(k)); }
    v
  }
  pub fn from_json(v: &Value) -> Result<PEvent, String> {
    Ok(PEvent { ev: Event::from_json(v)?, crash_at: v.get("crash_at").and_then(|x| x.as_u64()).map(|x| x as usize) })
  }
}

#[derive(Clone, PartialEq, Eq, Debug)]
pub struct PanicInfo {
  pub msg: String,
  pub file: String,
  pub line: u32,
}

#[derive(Clone, PartialEq, Eq, Debug)]
pub enum Outcome {
  /// not a build
  Applied,
  /// outputs of the required roots, in order (pre roots, then roots)
  Returned(Vec<u8>),
  Panicked(PanicInfo),
  /// a kept session: per root the output, or None where that require aborted (panics in order)
  Partial(Vec<Option<u8>>, Vec<PanicInfo>),
}

/// Everything observed in one step.
#[derive(Clone, Debug)]
pub struct Step {
  pub pev: PEvent,
  pub pre_cells: [Cell; MAX_RES],
  pub post_cells: [Cell; MAX_RES],
  pub pre_fail: [bool; MAX_RES],
  pub post_fail: [bool; MAX_RES],
  pub outcome: Outcome,
  /// unified log of the step
  pub log: Vec<Ev>,
  /// stream received by the second recording tracker
  pub rec2: Vec<TrkEv>,
  /// typed mirror of the `EventTracker`'s stored events after the step
  pub evt: Vec<EvtEv>,
  /// results of the event helpers and tracker queries on that slice (C17 runs only)
  pub helpers: Option<HelperObs>,
  pub dep_errors: Vec<String>,
  pub dump: Dump,
  pub ticks: usize,
}

thread_local! {
  static LAST_PANIC: RefCell<Option<PanicInfo>> = RefCell::new(None);
}

static HOOK: Once = Once::new();

/// Installs a quiet panic hook that records message and location per thread.
pub fn install_panic_hook() {
  HOOK.call_once(|| {
    std::panic::set_hook(Box::new(|info| {
      let msg = if let Some(s) = info.payload().downcast_ref::<&str>() { s.to_string() }
      else if let Some(s) = info.payload().downcast_ref::<String>() { s.clone() }
      else { "<non-string panic payload>".to_string() };
      let (file, line) = info.location().map(|l| (l.file().to_string(), l.line())).unwrap_or_default();
      if msg.starts_with("HARNESS-BUG") || std::env::var_os("VERIF_LOUD_PANICS").is_some() {
        eprintln!("panic: {} at {}:{}", msg, file, line);
      }
      LAST_PANIC.with(|p| *p.borrow_mut() = Some(PanicInfo { msg, file, line }));
    }));
  });
}

pub fn take_last_panic() -> Option<PanicInfo> { LAST_PANIC.with(|p| p.borrow_mut().take()) }

pub fn new_pie() -> VPie {
  Pie::with_tracker(CompositeTracker(Rec::new(true), CompositeTracker(EventTracker::default(), Rec::new(false))))
}

fn world_snapshot(pie: &mut VPie) -> World {
  pie.resource_state_mut::<VRes>().get_or_set_default_mut::<World>().clone()
}

/// A live history: a real Pie plus the steps executed so far.
pub struct Live {
  pub pie: VPie,
  pub steps: Vec<Step>,
}

impl Live {
  pub fn new() -> Self {
    install_panic_hook();
    let _ = take_log();
    if HELPER_MODE_GLOBAL.load(std::sync::atomic::Ordering::SeqCst) { set_helper_mode(true); }
    Live { pie: new_pie(), steps: Vec::new() }
  }

  /// Applies one event to the real Pie instance.
  pub fn apply(&mut self, pev: &PEvent) -> &Step {
    let pre = world_snapshot(&mut self.pie);
    let _ = take_log();
    reset_ticks(pev.crash_at);
    self.pie.tracker_mut().1.1.events.clear();
    let mut dep_errors = Vec::new();
    let outcome = match &pev.ev {
      Event::Set(r, c) => {
        self.pie.resource_state_mut::<VRes>().get_or_set_default_mut::<World>().cells[*r as usize] = *c;
        Outcome::Applied
      }
      Event::SetFail(r, b) => {
        self.pie.resource_state_mut::<VRes>().get_or_set_default_mut::<World>().fail[*r as usize] = *b;
        Outcome::Applied
      }
      Event::TopDown(roots) => {
        let pie = &mut self.pie;
        let res = catch_unwind(AssertUnwindSafe(|| {
          let mut session = pie.new_session();
          let mut outs = Vec::new();
          for t in roots {
            log(Ev::RootReq(*t));
            let o = session.require(&VTask(*t));
            log(Ev::RootRet(*t, o));
            outs.push(o);
          }
          let errs: Vec<String> = session.dependency_check_errors().map(|e| format!("{}", e)).collect();
          (outs, errs)
        }));
        match res {
          Ok((outs, errs)) => { dep_errors = errs; Outcome::Returned(outs) }
          Err(_) => Outcome::Panicked(take_last_panic().unwrap_or(PanicInfo { msg: "<unknown>".into(), file: String::new(), line: 0 })),
        }
      }
      Event::TopDownKeep(roots) => {
        let pie = &mut self.pie;
        let mut session = pie.new_session();
        let mut outs: Vec<Option<u8>> = Vec::new();
        let mut panics: Vec<PanicInfo> = Vec::new();
        for t in roots {
          log(Ev::RootReq(*t));
          let res = catch_unwind(AssertUnwindSafe(|| session.require(&VTask(*t))));
          match res {
            Ok(o) => { log(Ev::RootRet(*t, o)); outs.push(Some(o)); }
            Err(_) => {
              let p = take_last_panic().unwrap_or(PanicInfo { msg: "<unknown>".into(), file: String::new(), line: 0 });
              log(Ev::RootAbort(*t, p.msg.clone(), p.file.clone(), p.line));
              panics.push(p);
              outs.push(None);
            }
          }
        }
        dep_errors = session.dependency_check_errors().map(|e| format!("{}", e)).collect();
        drop(session);
        if panics.is_empty() { Outcome::Returned(outs.into_iter().map(|o| o.unwrap()).collect()) } else { Outcome::Partial(outs, panics) }
      }
      Event::BottomUp { pre, reported, then, builds } => {
        let pie = &mut self.pie;
        let res = catch_unwind(AssertUnwindSafe(|| {
          let mut session = pie.new_session();
          let mut outs = Vec::new();
          for t in pre {
            log(Ev::RootReq(*t));
            let o = session.require(&VTask(*t));
            log(Ev::RootRet(*t, o));
            outs.push(o);
          }
          // builds: 1 = one build; 2 = the same report twice; 3 = the report split over two builds (first resource,
          // then the rest)
          let rounds: Vec<Vec<Rid>> = match *builds {
            2 => vec![reported.clone(), reported.clone()],
            3 if reported.len() >= 2 => vec![reported[..1].to_vec(), reported[1..].to_vec()],
            _ => vec![reported.clone()],
          };
          for reported in &rounds {
            log(Ev::BottomUpStart);
            let mut bu = session.create_bottom_up_build();
            for r in reported {
              log(Ev::BottomUpSchedule(*r));
              bu.schedule_tasks_affected_by(&VRes(*r));
            }
            log(Ev::BottomUpUpdate);
            bu.update_affected_tasks();
            log(Ev::BottomUpDone);
          }
          for t in then {
            log(Ev::RootReq(*t));
            let o = session.require(&VTask(*t));
            log(Ev::RootRet(*t, o));
            outs.push(o);
          }
          let errs: Vec<String> = session.dependency_check_errors().map(|e| format!("{}", e)).collect();
          (outs, errs)
        }));
        match res {
          Ok((outs, errs)) => { dep_errors = errs; Outcome::Returned(outs) }
          Err(_) => Outcome::Panicked(take_last_panic().unwrap_or(PanicInfo { msg: "<unknown>".into(), file: String::new(), line: 0 })),
        }
      }
    };
    let ticks_used = ticks();
    reset_ticks(None);
    let log_v = take_log();
    let post = world_snapshot(&mut self.pie);
    let _ = take_log();
    let rec2 = std::mem::take(&mut self.pie.tracker_mut().1.1.events);
    let evt: Vec<EvtEv> = self.pie.tracker().1.0.slice().iter().map(mirror_event).collect();
    let helpers = if HELPER_MODE.with(|h| h.get()) { Some(observe_helpers(&self.pie.tracker().1.0, n_tasks_of_program(), n_res_of_program())) } else { None };
    let dump = dump_store(&self.pie);
    self.steps.push(Step {
      pev: pev.clone(),
      pre_cells: pre.cells, post_cells: post.cells, pre_fail: pre.fail, post_fail: post.fail,
      outcome, log: log_v, rec2, evt, helpers, dep_errors, dump, ticks: ticks_used,
    });
    self.steps.last().unwrap()
  }
}

/// Runs a whole history on a fresh instance.
pub fn run_history(prog: &Prog, path: &[PEvent]) -> Vec<Step> {
  set_program(Some(prog.clone()));
  let mut live = Live::new();
  for pev in path { live.apply(pev); }
  live.steps
}

/// Did this panic come from harness code (a bug of ours), as opposed to pie or an intended task panic?
pub fn is_harness_bug(p: &PanicInfo) -> bool {
  if p.msg.starts_with(TASK_PANIC_MSG) || p.msg.starts_with(CRASH_MSG) || p.msg.starts_with(RECURSION_MSG) || p.msg.starts_with(crate::world::RUNAWAY_MSG) { return false; }
  p.msg.starts_with("HARNESS-BUG") || (p.file.contains("/mc/src/") && !p.file.contains("/repo/"))
}

/// Classification of a panic message.
#[derive(Clone, Copy, PartialEq, Eq, Hash, PartialOrd, Ord, Debug)]
pub enum PanicKind { Hidden, Overlap, Cycle, TaskPanic, InjectedCrash, Recursion, Runaway, Internal }

pub fn panic_kind(p: &PanicInfo) -> PanicKind {
  if p.msg.starts_with("Hidden dependency") { PanicKind::Hidden }
  else if p.msg.starts_with("Overlapping write") { PanicKind::Overlap }
  else if p.msg.starts_with("Cyclic task dependency") { PanicKind::Cycle }
  else if p.msg.starts_with(TASK_PANIC_MSG) { PanicKind::TaskPanic }
  else if p.msg.starts_with(CRASH_MSG) { PanicKind::InjectedCrash }
  else if p.msg.starts_with(RECURSION_MSG) { PanicKind::Recursion }
  else if p.msg.starts_with(crate::world::RUNAWAY_MSG) { PanicKind::Runaway }
  else { PanicKind::Internal }
}

// ------------------------------------------------------------------------------------------------ EventTracker mirror

use pie::tracker::event::Event as PieEvent;
use crate::tracker::{oc_of, ostamp_of, out_of, rc_of, rid_of, rstamp_of, tid_of};

thread_local! {
  pub static HELPER_MODE: std::cell::Cell<bool> = std::cell::Cell::new(false);
}
pub fn set_helper_mode(on: bool) { HELPER_MODE.with(|h| h.set(on)); }
static HELPER_MODE_GLOBAL: std::sync::atomic::AtomicBool = std::sync::atomic::AtomicBool::new(false);
/// Process-wide switch (worker threads pick it up when they create their first live history).
pub fn set_helper_mode_global(on: bool) { HELPER_MODE_GLOBAL.store(on, std::sync::atomic::Ordering::SeqCst); }

fn n_tasks_of_program() -> usize { PROGRAM.with(|p| p.borrow().as_ref().map(|p| p.n_tasks()).unwrap_or(0)) }
fn n_res_of_program() -> usize { PROGRAM.with(|p| p.borrow().as_ref().map(|p| p.n_res as usize).unwrap_or(0)) }

/// Typed mirror of `pie::tracker::event::Event` (with the stored index).
#[derive(Clone, PartialEq, Eq, Hash, Debug)]
pub enum EvtEv {
  BuildStart,
  BuildEnd,
  RequireStart(Tid, OC, usize),
  RequireEnd(Tid, OC, OStamp, u8, usize),
  ReadStart(Rid, RC, usize),
  ReadEnd(Rid, RC, RStamp, usize),
  WriteStart(Rid, RC, usize),
  WriteEnd(Rid, RC, RStamp, usize),
  ExecStart(Tid, usize),
  ExecEnd(Tid, u8, usize),
}

fn mirror_event(e: &PieEvent) -> EvtEv {
  match e {
    PieEvent::BuildStart => EvtEv::BuildStart,
    PieEvent::BuildEnd => EvtEv::BuildEnd,
    PieEvent::RequireStart(d) => EvtEv::RequireStart(tid_of(d.task.as_ref()), oc_of(d.checker.as_ref()), d.index),
    PieEvent::RequireEnd(d) => EvtEv::RequireEnd(tid_of(d.task.as_ref()), oc_of(d.checker.as_ref()), ostamp_of(d.stamp.as_ref()), out_of(d.output.as_ref()), d.index),
    PieEvent::ReadStart(d) => EvtEv::ReadStart(rid_of(d.resource.as_ref()), rc_of(d.checker.as_ref()), d.index),
    PieEvent::ReadEnd(d) => EvtEv::ReadEnd(rid_of(d.resource.as_ref()), rc_of(d.checker.as_ref()), rstamp_of(d.stamp.as_ref()), d.index),
    PieEvent::WriteStart(d) => EvtEv::WriteStart(rid_of(d.resource.as_ref()), rc_of(d.checker.as_ref()), d.index),
    PieEvent::WriteEnd(d) => EvtEv::WriteEnd(rid_of(d.resource.as_ref()), rc_of(d.checker.as_ref()), rstamp_of(d.stamp.as_ref()), d.index),
    PieEvent::ExecuteStart(d) => EvtEv::ExecStart(tid_of(d.task.as_ref()), d.index),
    PieEvent::ExecuteEnd(d) => EvtEv::ExecEnd(tid_of(d.task.as_ref()), out_of(d.output.as_ref()), d.index),
  }
}

/// What the real helpers answered, per event of the slice and per subject of the alphabet.
#[derive(Clone, PartialEq, Eq, Hash, Debug, Default)]
pub struct HelperObs {
  /// per event: [is_build_start, is_build_end, is_execute]
  pub flags: Vec<[bool; 3]>,
  /// per event, per task: [match_require_start, match_require_end, is_execute_of, match_execute_start, match_execute_end]
  pub per_task: Vec<Vec<[bool; 5]>>,
  /// per event, per resource: [match_read_start, match_read_end, match_write_start, match_write_end]
  pub per_res: Vec<Vec<[bool; 4]>>,
  pub any_execute: bool,
  /// per task: any_execute_of, one_execute_of
  pub exec_queries: Vec<[bool; 2]>,
  /// per task: first_require (start idx, end idx), first_require_range, first_execute, first_execute_range, first_execute_end index
  pub task_firsts: Vec<[Option<(usize, usize)>; 4]>,
  pub task_first_exec_end: Vec<Option<usize>>,
  /// per resource: first_read, first_read_range, first_write, first_write_range
  pub res_firsts: Vec<[Option<(usize, usize)>; 4]>,
  /// per resource: first_read_end_index, first_write_end_index
  pub res_first_ends: Vec<[Option<usize>; 2]>,
}

fn observe_helpers(t: &EventTracker, n_tasks: usize, n_res: usize) -> HelperObs {
  let mut o = HelperObs::default();
  for e in t.slice() {
    o.flags.push([e.is_build_start(), e.is_build_end(), e.is_execute()]);
    let mut pt = Vec::new();
    for task in 0..n_tasks as Tid {
      let k = VTask(task);
      pt.push([e.match_require_start(&k).is_some(), e.match_require_end(&k).is_some(), e.is_execute_of(&k), e.match_execute_start(&k).is_some(), e.match_execute_end(&k).is_some()]);
    }
    o.per_task.push(pt);
    let mut pr = Vec::new();
    for r in 0..n_res as Rid {
      let k = VRes(r);
      pr.push([e.match_read_start(&k).is_some(), e.match_read_end(&k).is_some(), e.match_write_start(&k).is_some(), e.match_write_end(&k).is_some()]);
    }
    o.per_res.push(pr);
  }
  o.any_execute = t.any_execute();
  for task in 0..n_tasks as Tid {
    let k = VTask(task);
    o.exec_queries.push([t.any_execute_of(&k), t.one_execute_of(&k)]);
    o.task_firsts.push([
      t.first_require(&k).map(|(s, e)| (s.index, e.index)),
      t.first_require_range(&k).map(|r| (*r.start(), *r.end())),
      t.first_execute(&k).map(|(s, e)| (s.index, e.index)),
      t.first_execute_range(&k).map(|r| (*r.start(), *r.end())),
    ]);
    o.task_first_exec_end.push(t.first_execute_end_index(&k).copied());
  }
  for r in 0..n_res as Rid {
    let k = VRes(r);
    o.res_firsts.push([
      t.first_read(&k).map(|(s, e)| (s.index, e.index)),
      t.first_read_range(&k).map(|r| (*r.start(), *r.end())),
      t.first_write(&k).map(|(s, e)| (s.index, e.index)),
      t.first_write_range(&k).map(|r| (*r.start(), *r.end())),
    ]);
    o.res_first_ends.push([t.first_read_end_index(&k).copied(), t.first_write_end_index(&k).copied()]);
  }
  o
}
