//! C12 — "Built-in output checkers decide exactly their documented relation".
//!
//! Technique: bounded-exhaustive enumeration of a finite alphabet. For every built-in output checker `H`, every output
//! type `O` of the alphabet and every ORDERED pair `(o1, o2)` of values of `O`, the harness stamps `o1`, checks `o2`
//! against that stamp, and compares "consistent" (`check(o2, stamp(o1))` is `None`) with a tiny reference predicate
//! written from the documentation of the checker. Every case goes through three routes:
//!
//! 1. `trait`: `OutputChecker::stamp` / `OutputChecker::check` called directly;
//! 2. `topdown`: a real `Pie`; a source task returns the value of a harness-controlled cell (a key of the in-memory map
//!    resource, changed through `Pie::resource_state_mut` between sessions); a parent task requires the source with the
//!    checker under test. Session 1 builds with `o1`, the cell is changed to `o2`, session 2 requires the parent again:
//!    the parent must be re-executed iff the relation does NOT hold. A third session without any change must execute
//!    nothing (every output is consistent with its own stamp);
//! 3. `bottomup`: as 2, but sessions 2 and 3 use `create_bottom_up_build` + `schedule_tasks_affected_by(cell)` +
//!    `update_affected_tasks`, followed by `Session::require(parent)` in the same session (which must not execute
//!    anything more).
//!
//! In routes 2 and 3 a `Tracker` additionally records the stamp pie stored for the dependency and the verdict of the
//! dependency check pie performed (`check_task_end` resp. `check_task_require_task_end`); both are compared with the
//! direct route and the reference relation.
//!
//! The object-safe proxy `pie::trait_object::task::OutputCheckerObj` is NOT reachable from outside the crate (module
//! `trait_object::task` is `pub(crate)` and the trait is not re-exported; inside pie it is dead code). The object-safe
//! path pie really uses for output checkers is `TaskDependencyObj` (`dependency.rs`), which routes 2 and 3 exercise
//! (`TopDownCheckObj::is_consistent` and `TaskDependencyObj::is_consistent_bottom_up`).
//!
//! Besides plain payload types the alphabet contains two output types whose `Eq` relates values in DIFFERENT enum
//! variants (`Cow<'static, str>`: `Borrowed("a") == Owned("a")`; `Norm` with a hand-written normalising `PartialEq`:
//! `Short(1) == Full(1, 0)`), for `EqualsChecker` and `AlwaysConsistent`: the documented relation is the type's own
//! `==`, not structural identity.
//!
//! Parametricity argument (recorded in the evidence): the five checkers use nothing of the payload but `==`, `clone`,
//! `is_ok`/`is_err`/`ok()`/`err()`; three distinct payload values therefore exercise every branch (equal, different,
//! and "different from both"), for both `Ok` and `Err`.

use std::borrow::Cow;
use std::cell::Cell;
use std::collections::{BTreeMap, BTreeSet};
use std::fmt::Debug;
use std::hash::Hash;
use std::marker::PhantomData;
use std::panic::{catch_unwind, AssertUnwindSafe};

use serde_json::{json, Value};

use pie::resource::map::{GetGlobalMap, MapEqualsChecker, MapKey};
use pie::task::{AlwaysConsistent, EqualsChecker, ErrEqualsChecker, OkEqualsChecker, ResultChecker};
use pie::tracker::Tracker;
use pie::trait_object::{KeyObj, ValueObj};
use pie::{Context, OutputChecker, Pie, Task};

use crate::common::{engine_error, Args, Report, Tier, Violation};

// ---------------------------------------------------------------------------------------------------------------------
// Reference predicates (the oracle): "is `o2` consistent with the stamp of `o1`?" per the documentation in task.rs.
// ---------------------------------------------------------------------------------------------------------------------

/// `EqualsChecker`: "checks by equality".
pub fn rel_equals<O: PartialEq>(o1: &O, o2: &O) -> bool { o1 == o2 }

/// `OkEqualsChecker`: "checks Ok by equality, but Err only by existence" — all errors are equivalent.
pub fn rel_ok_equals<T: PartialEq, E>(o1: &Result<T, E>, o2: &Result<T, E>) -> bool {
  match (o1, o2) {
    (Ok(a), Ok(b)) => a == b,
    (Err(_), Err(_)) => true,
    _ => false,
  }
}

/// `ErrEqualsChecker`: "checks Err by equality, but Ok only by existence" — all successes are equivalent.
pub fn rel_err_equals<T, E: PartialEq>(o1: &Result<T, E>, o2: &Result<T, E>) -> bool {
  match (o1, o2) {
    (Err(a), Err(b)) => a == b,
    (Ok(_), Ok(_)) => true,
    _ => false,
  }
}

/// `ResultChecker`: "checks whether a Result changes from Ok to Err or vice versa".
pub fn rel_result<T, E>(o1: &Result<T, E>, o2: &Result<T, E>) -> bool {
  matches!((o1, o2), (Ok(_), Ok(_)) | (Err(_), Err(_)))
}

/// `AlwaysConsistent`: "marks task dependencies as always consistent".
pub fn rel_always<O>(_o1: &O, _o2: &O) -> bool { true }

// ---------------------------------------------------------------------------------------------------------------------
// Alphabet
// ---------------------------------------------------------------------------------------------------------------------

fn payloads(tier: Tier) -> Vec<u8> {
  match tier {
    Tier::Quick => vec![0, 1, 2],
    Tier::Thorough => vec![0, 1, 2, 3, 254, 255],
  }
}

/// An output type of the alphabet.
pub trait Alpha: Clone + Eq + Hash + Debug + 'static {
  const NAME: &'static str;
  fn alphabet(tier: Tier) -> Vec<Self>;
  /// Text that identifies the member of the alphabet, representation included (the `Debug` form unless that hides the
  /// representation, as for `Cow`).
  fn label(&self) -> String { format!("{:?}", self) }
}

impl Alpha for u8 {
  const NAME: &'static str = "u8";
  fn alphabet(tier: Tier) -> Vec<Self> { payloads(tier) }
}

impl Alpha for Option<u8> {
  const NAME: &'static str = "Option<u8>";
  fn alphabet(tier: Tier) -> Vec<Self> {
    let mut v = vec![None];
    v.extend(payloads(tier).into_iter().map(Some));
    v
  }
}

impl Alpha for () {
  const NAME: &'static str = "()";
  fn alphabet(_tier: Tier) -> Vec<Self> { vec![()] }
}

impl Alpha for String {
  const NAME: &'static str = "String";
  fn alphabet(tier: Tier) -> Vec<Self> {
    let words: &[&str] = match tier {
      Tier::Quick => &["", "a", "b", "ab"],
      Tier::Thorough => &["", "a", "b", "ab", "ba", "aa", "abc", "A"],
    };
    words.iter().map(|s| s.to_string()).collect()
  }
}

impl Alpha for Result<u8, u8> {
  const NAME: &'static str = "Result<u8,u8>";
  fn alphabet(tier: Tier) -> Vec<Self> {
    let p = payloads(tier);
    let mut v: Vec<Self> = p.iter().map(|x| Ok(*x)).collect();
    v.extend(p.iter().map(|x| Err(*x)));
    v
  }
}

/// An output type whose `Eq` relates values of DIFFERENT enum variants (`Borrowed("a") == Owned("a")`): the documented
/// relation of `EqualsChecker` is `==`, not identity of representation.
impl Alpha for Cow<'static, str> {
  const NAME: &'static str = "Cow<'static,str>";
  fn alphabet(tier: Tier) -> Vec<Self> {
    let mut v = vec![Cow::Borrowed(""), Cow::Owned(String::new()), Cow::Borrowed("a"), Cow::Owned("a".to_string()), Cow::Borrowed("b")];
    if tier == Tier::Thorough { v.extend([Cow::Owned("b".to_string()), Cow::Borrowed("ab"), Cow::Owned("ab".to_string())]); }
    v
  }
  fn label(&self) -> String {
    match self { Cow::Borrowed(s) => format!("Borrowed({:?})", s), Cow::Owned(s) => format!("Owned({:?})", s) }
  }
}

/// An enum with a hand-written normalising equality: `Short(a) == Full(a, 0)`. `Hash` agrees with `Eq`.
#[derive(Clone, Copy, Debug)]
pub enum Norm { Short(u8), Full(u8, u8) }

impl Norm {
  fn normal(&self) -> (u8, u8) { match *self { Norm::Short(a) => (a, 0), Norm::Full(a, b) => (a, b) } }
}
impl PartialEq for Norm {
  fn eq(&self, other: &Self) -> bool { self.normal() == other.normal() }
}
impl Eq for Norm {}
impl Hash for Norm {
  fn hash<S: std::hash::Hasher>(&self, state: &mut S) { self.normal().hash(state) }
}

impl Alpha for Norm {
  const NAME: &'static str = "Norm{Short(u8)|Full(u8,u8)}";
  fn alphabet(tier: Tier) -> Vec<Self> {
    let mut v = vec![Norm::Short(0), Norm::Short(1), Norm::Full(0, 0), Norm::Full(1, 0), Norm::Full(1, 1)];
    if tier == Tier::Thorough { v.extend([Norm::Short(2), Norm::Full(2, 0), Norm::Full(0, 1), Norm::Full(2, 1)]); }
    v
  }
}

// ---------------------------------------------------------------------------------------------------------------------
// End-to-end plumbing: cell key, source task, parent task, tracker.
// ---------------------------------------------------------------------------------------------------------------------

thread_local! {
  static SRC_EXECS: Cell<u32> = const { Cell::new(0) };
  static PARENT_EXECS: Cell<u32> = const { Cell::new(0) };
}

fn counts() -> (u32, u32) { (PARENT_EXECS.with(|c| c.get()), SRC_EXECS.with(|c| c.get())) }

/// Harness-controlled cell: a key of the in-memory map resource holding `(tick, output)`. The tick changes before
/// every session that follows a change, so the source task is re-executed even when `o1 == o2`.
#[derive(Clone, PartialEq, Eq, Hash, Debug)]
struct CellKey<O>(PhantomData<O>);

impl<O: Alpha> MapKey for CellKey<O> {
  type Value = (u32, O);
}

/// Source task: returns the output stored in the cell.
#[derive(Clone, PartialEq, Eq, Hash, Debug)]
struct Src<O>(PhantomData<O>);

impl<O: Alpha> Task for Src<O> {
  type Output = O;
  fn execute<C: Context>(&self, context: &mut C) -> O {
    SRC_EXECS.with(|c| c.set(c.get() + 1));
    let reader = context.read(&CellKey::<O>(PhantomData), MapEqualsChecker).unwrap();
    reader.expect("harness: cell not set").1.clone()
  }
}

/// Parent task: requires the source with the checker under test.
#[derive(Clone, PartialEq, Eq, Hash, Debug)]
struct Parent<O, H> {
  checker: H,
  _p: PhantomData<O>,
}

impl<O: Alpha, H: OutputChecker<O>> Task for Parent<O, H> {
  type Output = ();
  fn execute<C: Context>(&self, context: &mut C) {
    PARENT_EXECS.with(|c| c.set(c.get() + 1));
    let _ = context.require(&Src::<O>(PhantomData), self.checker.clone());
  }
}

/// Records the stamps pie created for the parent→source dependency and the verdicts of pie's own dependency checks.
#[derive(Default)]
struct Rec {
  /// Debug form of the stamp of every `require_end` of the source task.
  require_stamps: Vec<String>,
  /// (stamp, inconsistent?) of every top-down check of the parent→source dependency (`check_task_end`).
  checks_top_down: Vec<(String, bool)>,
  /// (stamp, inconsistent?) of every bottom-up check of that dependency (`check_task_require_task_end`).
  checks_bottom_up: Vec<(String, bool)>,
}

impl Tracker for Rec {
  fn require_end(&mut self, task: &dyn KeyObj, _checker: &dyn ValueObj, stamp: &dyn ValueObj, _output: &dyn ValueObj) {
    if format!("{:?}", task).starts_with("Src(") {
      self.require_stamps.push(format!("{:?}", stamp));
    }
  }
  fn check_task_end(&mut self, task: &dyn KeyObj, _checker: &dyn ValueObj, stamp: &dyn ValueObj, inconsistency: Option<&dyn Debug>) {
    if format!("{:?}", task).starts_with("Src(") {
      self.checks_top_down.push((format!("{:?}", stamp), inconsistency.is_some()));
    }
  }
  fn check_task_require_task_end(&mut self, requiring_task: &dyn KeyObj, _checker: &dyn ValueObj, stamp: &dyn ValueObj, inconsistency: Option<&dyn Debug>) {
    if format!("{:?}", requiring_task).starts_with("Parent") {
      self.checks_bottom_up.push((format!("{:?}", stamp), inconsistency.is_some()));
    }
  }
}

// ---------------------------------------------------------------------------------------------------------------------
// Observations
// ---------------------------------------------------------------------------------------------------------------------

/// Observation of the direct route.
#[derive(Clone, Debug, PartialEq, Eq)]
struct TraitObs {
  stamp: String,
  inconsistency: Option<String>,
}

/// Observation of one end-to-end route: (parent executions, source executions) per session, tracker data per session.
#[derive(Clone, Debug, PartialEq, Eq)]
struct E2eObs {
  execs: [(u32, u32); 3],
  /// Executions caused by the `Session::require(parent)` that follows a bottom-up update (sessions 2 and 3).
  post_require_execs: [(u32, u32); 2],
  /// Dependency checks performed by that `Session::require` (top-down checks inside a bottom-up session).
  post_require_checks: [Vec<(String, bool)>; 2],
  require_stamps: [Vec<String>; 3],
  checks: [Vec<(String, bool)>; 3],
  dependency_check_errors: usize,
}

impl E2eObs {
  fn to_json(&self) -> Value {
    json!({
      "parent_src_execs_per_session": self.execs.iter().map(|(p, s)| json!([p, s])).collect::<Vec<_>>(),
      "post_require_execs": self.post_require_execs.iter().map(|(p, s)| json!([p, s])).collect::<Vec<_>>(),
      "post_require_checks": self.post_require_checks.iter().map(|v| v.iter().map(|(s, i)| json!({"stamp": s, "inconsistent": i})).collect::<Vec<_>>()).collect::<Vec<_>>(),
      "require_stamps_per_session": self.require_stamps,
      "dependency_checks_per_session": self.checks.iter().map(|v| v.iter().map(|(s, i)| json!({"stamp": s, "inconsistent": i})).collect::<Vec<_>>()).collect::<Vec<_>>(),
      "dependency_check_errors": self.dependency_check_errors,
    })
  }
}

#[derive(Clone, Debug, PartialEq, Eq)]
enum Outcome<T> { Done(T), Panicked(String) }

#[derive(Clone, Debug, PartialEq, Eq)]
struct CaseObs {
  direct: Outcome<TraitObs>,
  topdown: Outcome<E2eObs>,
  bottomup: Outcome<E2eObs>,
}

fn panic_text(p: Box<dyn std::any::Any + Send>) -> String {
  if let Some(s) = p.downcast_ref::<&str>() { s.to_string() } else if let Some(s) = p.downcast_ref::<String>() { s.clone() } else { "<non-string panic>".into() }
}

fn guarded<T>(f: impl FnOnce() -> T) -> Outcome<T> {
  match catch_unwind(AssertUnwindSafe(f)) {
    Ok(v) => Outcome::Done(v),
    Err(p) => Outcome::Panicked(panic_text(p)),
  }
}

fn direct_route<O: Alpha, H: OutputChecker<O>>(h: &H, o1: &O, o2: &O) -> TraitObs {
  let stamp = h.stamp(o1);
  let inconsistency = h.check(o2, &stamp).map(|i| format!("{:?}", i));
  TraitObs { stamp: format!("{:?}", stamp), inconsistency }
}

fn set_cell<O: Alpha>(pie: &mut Pie<Rec>, tick: u32, o: &O) {
  pie.resource_state_mut::<CellKey<O>>().get_global_map_mut().insert(CellKey(PhantomData), (tick, o.clone()));
}

fn take_tracker(pie: &mut Pie<Rec>) -> Rec { std::mem::take(pie.tracker_mut()) }

fn e2e_route<O: Alpha, H: OutputChecker<O>>(h: &H, o1: &O, o2: &O, bottom_up: bool) -> E2eObs {
  let parent = Parent::<O, H> { checker: h.clone(), _p: PhantomData };
  let cell = CellKey::<O>(PhantomData);
  let mut pie = Pie::with_tracker(Rec::default());
  let mut obs = E2eObs {
    execs: [(0, 0); 3],
    post_require_execs: [(0, 0); 2],
    post_require_checks: Default::default(),
    require_stamps: Default::default(),
    checks: Default::default(),
    dependency_check_errors: 0,
  };
  let delta = |before: (u32, u32)| { let now = counts(); (now.0 - before.0, now.1 - before.1) };

  // Session 1: initial (always top-down: nothing exists yet).
  set_cell(&mut pie, 1, o1);
  let before = counts();
  {
    let mut session = pie.new_session();
    session.require(&parent);
    obs.dependency_check_errors += session.dependency_check_errors().len();
  }
  obs.execs[0] = delta(before);
  let t = take_tracker(&mut pie);
  obs.require_stamps[0] = t.require_stamps;
  obs.checks[0] = t.checks_top_down;

  // Session 2: the cell changes from o1 to o2 (the tick always changes). Session 3: nothing changes.
  for s in 1..3 {
    if s == 1 { set_cell(&mut pie, 2, o2); }
    let before = counts();
    {
      let mut session = pie.new_session();
      if bottom_up {
        let mut build = session.create_bottom_up_build();
        build.schedule_tasks_affected_by(&cell);
        build.update_affected_tasks();
        obs.execs[s] = delta(before);
        let before_post = counts();
        session.require(&parent);
        obs.post_require_execs[s - 1] = delta(before_post);
      } else {
        session.require(&parent);
        obs.execs[s] = delta(before);
      }
      obs.dependency_check_errors += session.dependency_check_errors().len();
    }
    // The session borrows the tracker, so the two phases of a bottom-up session are told apart by event kind:
    // `check_task_require_task_end` only occurs during the update, `check_task_end` only during `Session::require`.
    let t = take_tracker(&mut pie);
    obs.require_stamps[s] = t.require_stamps;
    if bottom_up {
      obs.checks[s] = t.checks_bottom_up;
      obs.post_require_checks[s - 1] = t.checks_top_down;
    } else {
      obs.checks[s] = t.checks_top_down;
      if !t.checks_bottom_up.is_empty() { obs.dependency_check_errors += 1000; }
    }
  }
  obs
}

fn observe_case<O: Alpha, H: OutputChecker<O>>(h: &H, o1: &O, o2: &O) -> CaseObs {
  CaseObs {
    direct: guarded(|| direct_route(h, o1, o2)),
    topdown: guarded(|| e2e_route(h, o1, o2, false)),
    bottomup: guarded(|| e2e_route(h, o1, o2, true)),
  }
}

/// A failed oracle: (oracle id, description). `anomaly` = the harness could not evaluate the case (not a verdict).
#[derive(Clone, Debug, PartialEq, Eq)]
struct Failure { oracle: &'static str, what: String, anomaly: bool }

struct Judgement { failures: Vec<Failure>, evaluations: u64 }

/// Judges one case. `expected` = the reference relation (consistent?). `stamp_o1`/`stamp_o2` = Debug form of the stamps
/// the direct route produced for o1 and o2 (used to bind the stamps pie stores to the checker's stamps).
fn judge(expected: bool, obs: &CaseObs, stamp_o2: Option<&str>) -> Judgement {
  let mut f = Vec::new();
  let mut n = 0u64;
  let mut anomalies = Vec::new();
  let mut fail = |oracle: &'static str, what: String| f.push(Failure { oracle, what, anomaly: false });
  let stamp_o1 = match &obs.direct {
    Outcome::Panicked(p) => { fail("C12/panic", format!("direct stamp/check panicked: {}", p)); None }
    Outcome::Done(d) => {
      n += 1;
      let consistent = d.inconsistency.is_none();
      if consistent != expected {
        fail("C12/relation", format!("direct route: check(o2, stamp(o1)) reported {} but the documented relation says {} (stamp {}, inconsistency {:?})",
          word(consistent), word(expected), d.stamp, d.inconsistency));
      }
      Some(d.stamp.clone())
    }
  };
  for (route, o) in [("topdown", &obs.topdown), ("bottomup", &obs.bottomup)] {
    let e = match o {
      Outcome::Panicked(p) => { fail("C12/panic", format!("{} route panicked: {}", route, p)); continue; }
      Outcome::Done(e) => e,
    };
    // Harness sanity: first build executes both tasks once; the source is re-executed exactly once in session 2 and
    // not at all in session 3; no dependency check errors. These are not C12 verdicts.
    if e.execs[0] != (1, 1) || e.execs[1].1 != 1 || e.execs[2].1 != 0 || e.dependency_check_errors != 0 {
      anomalies.push(Failure { oracle: "C12/harness", what: format!("{} route: unexpected execution counts outside the checker's control: {:?}", route, e), anomaly: true });
      continue;
    }
    // (1) Build behaviour: parent re-executed iff the relation says inconsistent.
    n += 1;
    let reexecuted = e.execs[1].0;
    if reexecuted != (if expected { 0 } else { 1 }) {
      fail("C12/relation", format!("{} route: parent executed {} time(s) after the output changed from o1 to o2, but the documented relation says {}",
        route, reexecuted, word(expected)));
    }
    // (2) Pie's own dependency check verdict, exactly one check of the parent->source dependency in session 2.
    n += 1;
    if e.checks[1].len() != 1 {
      fail("C12/relation", format!("{} route: expected exactly one check of the parent->source dependency in session 2, saw {:?}", route, e.checks[1]));
    } else {
      let (stamp, inconsistent) = &e.checks[1][0];
      if *inconsistent == expected {
        fail("C12/relation", format!("{} route: pie's dependency check reported {} but the documented relation says {}", route, word(!*inconsistent), word(expected)));
      }
      n += 1;
      if let Some(s1) = &stamp_o1 {
        if stamp != s1 {
          fail("C12/stamp", format!("{} route: the stamp checked by pie ({}) is not the checker's stamp of o1 ({})", route, stamp, s1));
        }
      }
    }
    // (3) Stamps pie stored at require time: session 1 stamps o1; session 2 stamps o2 iff the parent was re-executed.
    n += 1;
    if let Some(s1) = &stamp_o1 {
      if e.require_stamps[0] != vec![s1.clone()] {
        fail("C12/stamp", format!("{} route: stamp stored in session 1 is {:?}, direct stamp of o1 is {}", route, e.require_stamps[0], s1));
      }
    }
    if let Some(s2) = stamp_o2 {
      n += 1;
      let expect: Vec<String> = if reexecuted > 0 { vec![s2.to_string(); reexecuted as usize] } else { vec![] };
      if e.require_stamps[1] != expect {
        fail("C12/stamp", format!("{} route: stamps stored in session 2 are {:?}, expected {:?}", route, e.require_stamps[1], expect));
      }
    }
    // (4) Session 3 (no change): nothing executes, whatever was decided in session 2 (own-stamp consistency when the
    // parent was re-executed; the same pair again when it was not).
    n += 1;
    if e.execs[2] != (0, 0) {
      fail("C12/self-consistency", format!("{} route: a session without any change executed (parent, source) = {:?}", route, e.execs[2]));
    }
    n += 1;
    if e.checks[2].iter().any(|(_, inconsistent)| *inconsistent) {
      fail("C12/self-consistency", format!("{} route: a dependency check in a session without any change reported inconsistent: {:?}", route, e.checks[2]));
    }
    // (5) Bottom-up only: the `Session::require` after the update executes nothing.
    n += 1;
    if e.post_require_execs != [(0, 0); 2] {
      fail("C12/relation", format!("{} route: Session::require after update_affected_tasks executed (parent, source) = {:?}", route, e.post_require_execs));
    }
    n += 1;
    if e.post_require_checks.iter().flatten().any(|(_, inconsistent)| *inconsistent) {
      fail("C12/relation", format!("{} route: a top-down check after update_affected_tasks reported inconsistent: {:?}", route, e.post_require_checks));
    }
  }
  f.extend(anomalies);
  Judgement { failures: f, evaluations: n }
}

fn word(consistent: bool) -> &'static str { if consistent { "consistent" } else { "inconsistent" } }

// ---------------------------------------------------------------------------------------------------------------------
// Driver
// ---------------------------------------------------------------------------------------------------------------------

#[derive(Clone, Debug)]
struct Filter { checker: String, ty: String, o1: String, o2: String }

struct Ctx {
  tier: Tier,
  filter: Option<Filter>,
  /// Replay mode: observe twice and demand identical observations.
  twice: bool,
  stamp_states: BTreeSet<(String, String, String)>,
  transitions: u64,
  e2e_runs: u64,
  evaluations: u64,
  nontrivial: BTreeSet<(String, String, String, String)>,
  outcomes: BTreeMap<(String, String, bool), u64>,
  per_checker: BTreeMap<String, (u64, u64)>,
  combinations: u64,
  samples: Vec<Value>,
  sample_keys: BTreeSet<(String, bool)>,
  failures: Vec<(Failure, Value)>,
  matched: u64,
}

fn drive<O: Alpha, H: OutputChecker<O>>(ctx: &mut Ctx, h: H, checker: &'static str, rel: fn(&O, &O) -> bool) {
  let alphabet = O::alphabet(ctx.tier);
  ctx.combinations += 1;
  let labels: BTreeSet<String> = alphabet.iter().map(|o| o.label()).collect();
  if labels.len() != alphabet.len() { engine_error(&format!("C12: labels of the alphabet of {} are not unique", O::NAME)); }
  for (i1, o1) in alphabet.iter().enumerate() {
    let d1 = o1.label();
    for (i2, o2) in alphabet.iter().enumerate() {
      let d2 = o2.label();
      if let Some(flt) = &ctx.filter {
        if flt.checker != checker || flt.ty != O::NAME || flt.o1 != d1 || flt.o2 != d2 { continue; }
      }
      ctx.matched += 1;
      ctx.stamp_states.insert((checker.to_string(), O::NAME.to_string(), d1.clone()));
      ctx.transitions += 1;
      ctx.e2e_runs += 2;
      let expected = rel(o1, o2);
      let obs = observe_case(&h, o1, o2);
      if ctx.twice {
        let again = observe_case(&h, o1, o2);
        if again != obs {
          engine_error(&format!("C12 replay: two executions of the same case differ:\n{:?}\n{:?}", obs, again));
        }
      }
      let stamp_o2 = guarded(|| format!("{:?}", h.stamp(o2)));
      let stamp_o2 = match &stamp_o2 { Outcome::Done(s) => Some(s.as_str()), Outcome::Panicked(_) => None };
      let j = judge(expected, &obs, stamp_o2);
      ctx.evaluations += j.evaluations;
      if i1 != i2 { ctx.nontrivial.insert((checker.to_string(), O::NAME.to_string(), d1.clone(), d2.clone())); }
      if let Outcome::Done(d) = &obs.direct {
        *ctx.outcomes.entry((checker.to_string(), O::NAME.to_string(), d.inconsistency.is_none())).or_default() += 1;
        let e = ctx.per_checker.entry(checker.to_string()).or_default();
        if d.inconsistency.is_none() { e.0 += 1 } else { e.1 += 1 }
      }
      let case_json = |obs: &CaseObs| json!({
        "checker": checker, "type": O::NAME, "o1": d1, "o2": d2, "tier": ctx.tier.as_str(),
        "expected": word(expected),
        "observed": {
          "direct": match &obs.direct { Outcome::Done(d) => json!({"stamp_of_o1": d.stamp, "inconsistency": d.inconsistency}), Outcome::Panicked(p) => json!({"panic": p}) },
          "topdown": match &obs.topdown { Outcome::Done(e) => e.to_json(), Outcome::Panicked(p) => json!({"panic": p}) },
          "bottomup": match &obs.bottomup { Outcome::Done(e) => e.to_json(), Outcome::Panicked(p) => json!({"panic": p}) },
        },
      });
      // Samples: per checker the first off-diagonal consistent and the first inconsistent case (plus first diagonal).
      let class = (checker.to_string(), expected);
      let class = if i1 != i2 && o1 == o2 { (format!("{} (equal values in different representations)", class.0), expected) } else { class };
      if (i1 != i2 || !expected || checker == "EqualsChecker") && ctx.sample_keys.insert(class) && ctx.samples.len() < 16 {
        ctx.samples.push(case_json(&obs));
      }
      for f in j.failures {
        ctx.failures.push((f, case_json(&obs)));
      }
    }
  }
}

macro_rules! for_all_combos {
  ($ctx:expr) => {{
    drive::<u8, _>($ctx, EqualsChecker, "EqualsChecker", rel_equals);
    drive::<Option<u8>, _>($ctx, EqualsChecker, "EqualsChecker", rel_equals);
    drive::<(), _>($ctx, EqualsChecker, "EqualsChecker", rel_equals);
    drive::<String, _>($ctx, EqualsChecker, "EqualsChecker", rel_equals);
    drive::<Result<u8, u8>, _>($ctx, EqualsChecker, "EqualsChecker", rel_equals);
    drive::<Cow<'static, str>, _>($ctx, EqualsChecker, "EqualsChecker", rel_equals);
    drive::<Norm, _>($ctx, EqualsChecker, "EqualsChecker", rel_equals);
    drive::<Result<u8, u8>, _>($ctx, OkEqualsChecker, "OkEqualsChecker", rel_ok_equals);
    drive::<Result<u8, u8>, _>($ctx, ErrEqualsChecker, "ErrEqualsChecker", rel_err_equals);
    drive::<Result<u8, u8>, _>($ctx, ResultChecker, "ResultChecker", rel_result);
    drive::<u8, _>($ctx, AlwaysConsistent, "AlwaysConsistent", rel_always);
    drive::<Option<u8>, _>($ctx, AlwaysConsistent, "AlwaysConsistent", rel_always);
    drive::<(), _>($ctx, AlwaysConsistent, "AlwaysConsistent", rel_always);
    drive::<String, _>($ctx, AlwaysConsistent, "AlwaysConsistent", rel_always);
    drive::<Result<u8, u8>, _>($ctx, AlwaysConsistent, "AlwaysConsistent", rel_always);
    drive::<Cow<'static, str>, _>($ctx, AlwaysConsistent, "AlwaysConsistent", rel_always);
    drive::<Norm, _>($ctx, AlwaysConsistent, "AlwaysConsistent", rel_always);
  }};
}

fn new_ctx(tier: Tier, filter: Option<Filter>, twice: bool) -> Ctx {
  Ctx {
    tier, filter, twice,
    stamp_states: BTreeSet::new(), transitions: 0, e2e_runs: 0, evaluations: 0,
    nontrivial: BTreeSet::new(), outcomes: BTreeMap::new(), per_checker: BTreeMap::new(),
    combinations: 0, samples: Vec::new(), sample_keys: BTreeSet::new(), failures: Vec::new(), matched: 0,
  }
}

fn with_quiet_panics<T>(f: impl FnOnce() -> T) -> T {
  let old = std::panic::take_hook();
  std::panic::set_hook(Box::new(|_| {}));
  let r = f();
  std::panic::set_hook(old);
  r
}

fn to_violation(f: &Failure, case: &Value) -> Violation {
  Violation {
    property: "C12".into(),
    oracle: f.oracle.into(),
    key: String::new(),
    what: format!("{} on {} with o1 = {}, o2 = {}: {}", case["checker"].as_str().unwrap_or("?"), case["type"].as_str().unwrap_or("?"),
      case["o1"].as_str().unwrap_or("?"), case["o2"].as_str().unwrap_or("?"), f.what),
    replay: case.clone(),
  }
}

fn run_replay(args: &Args, path: &std::path::Path) -> i32 {
  let text = std::fs::read_to_string(path).unwrap_or_else(|e| engine_error(&format!("cannot read replay file {}: {}", path.display(), e)));
  let v: Value = serde_json::from_str(&text).unwrap_or_else(|e| engine_error(&format!("replay file does not parse: {}", e)));
  let r = v.get("replay").unwrap_or(&v);
  let s = |k: &str| r.get(k).and_then(|x| x.as_str()).map(|x| x.to_string())
    .unwrap_or_else(|| engine_error(&format!("replay object lacks string field '{}'", k)));
  let filter = Filter { checker: s("checker"), ty: s("type"), o1: s("o1"), o2: s("o2") };
  // The thorough alphabet is a superset of the quick one: replay looks the case up there.
  let mut ctx = new_ctx(Tier::Thorough, Some(filter.clone()), true);
  with_quiet_panics(|| for_all_combos!(&mut ctx));
  if ctx.matched != 1 {
    engine_error(&format!("replay case {:?} matched {} cases of the alphabet (expected 1)", filter, ctx.matched));
  }
  // Replay never touches the evidence file of the property; it only prints its verdict.
  let _ = args;
  let verdicts: Vec<&(Failure, Value)> = ctx.failures.iter().filter(|(f, _)| !f.anomaly).collect();
  if verdicts.is_empty() {
    if let Some((f, _)) = ctx.failures.iter().find(|(f, _)| f.anomaly) {
      engine_error(&format!("C12 replay: {}", f.what));
    }
    println!("replay: no violation");
    return 0;
  }
  for (f, _) in &verdicts {
    println!("replay: still failing: {} {}", f.oracle, f.what);
  }
  println!("VIOLATION property=C12 replay={}", path.display());
  println!("  oracle={} key= what={}", verdicts[0].0.oracle, to_violation(&verdicts[0].0, &verdicts[0].1).what);
  1
}

pub fn run(args: &Args) -> i32 {
  if let Some(path) = &args.replay {
    return run_replay(args, path);
  }
  let mut rep = Report::new(args);
  let mut ctx = new_ctx(args.tier, None, false);
  with_quiet_panics(|| for_all_combos!(&mut ctx));

  let payload = payloads(args.tier);
  rep.set("states", json!(ctx.stamp_states.len()));
  rep.set("transitions", json!(ctx.transitions));
  rep.set("traces_validated_against_impl", json!(ctx.transitions + ctx.e2e_runs));
  rep.set("end_to_end_pie_runs", json!(ctx.e2e_runs));
  rep.set("evaluations", json!(ctx.evaluations));
  rep.set("distinct_nontrivial", json!(ctx.nontrivial.len()));
  rep.set("distinct_nontrivial_rule", json!("distinct (checker, output type, o1, o2) where o1 and o2 are different members of the alphabet (including members that are equal by Eq but differ in representation), i.e. every case whose verdict does not follow from checking a value against its very own stamp"));
  rep.set("distinct_outcomes", json!(ctx.outcomes.len()));
  rep.set("distinct_outcomes_detail", Value::Array(ctx.outcomes.iter().map(|((c, t, cons), n)| json!({"checker": c, "type": t, "verdict": word(*cons), "cases": n})).collect()));
  rep.set("per_checker_consistent_inconsistent", Value::Object(ctx.per_checker.iter().map(|(c, (a, b))| (c.clone(), json!({"consistent": a, "inconsistent": b}))).collect()));
  rep.set("samples", Value::Array(ctx.samples.clone()));
  rep.set("exhaustive", json!(true));
  rep.set("rule", json!("every ordered pair (o1 stamped, o2 checked) of the finite alphabet, for every (checker, output type) combination, through three routes: OutputChecker trait directly; real Pie top-down (parent re-executed iff relation fails); real Pie bottom-up; 'states' = distinct (checker, type, o1) stamp states, 'transitions' = (stamp state, o2) checks"));
  rep.set("bounds", json!({
    "payload_values": payload,
    "Result<u8,u8>_values": Result::<u8, u8>::alphabet(args.tier).len(),
    "Option<u8>_values": Option::<u8>::alphabet(args.tier).len(),
    "String_values": String::alphabet(args.tier),
    "checker_type_combinations": ctx.combinations,
    "Cow<'static,str>_values": Cow::<'static, str>::alphabet(args.tier).iter().map(|o| o.label()).collect::<Vec<_>>(),
    "Norm_values": Norm::alphabet(args.tier).iter().map(|o| o.label()).collect::<Vec<_>>(),
    "routes": ["trait", "topdown", "bottomup"],
    "object_safe_proxy": "pie::trait_object::task::OutputCheckerObj is pub(crate)-unreachable (and dead code inside pie); the object-safe path pie actually uses (TaskDependencyObj: TopDownCheckObj::is_consistent, is_consistent_bottom_up) is covered by the topdown/bottomup routes",
    "parametricity": "the checkers may use only ==, clone, is_ok/is_err/ok()/err() of the payload, so three distinct payload values exercise every branch; the unbounded claim rests on this argument. '==' means the output type's own Eq, NOT structural identity (enum variant, representation): this is exercised by two output types whose Eq relates different variants, Cow<'static,str> (Borrowed(\"a\") == Owned(\"a\")) and Norm with a hand-written normalising PartialEq (Short(1) == Full(1,0))",
  }));
  rep.assume("Output types other than u8, Option<u8>, (), String, Result<u8,u8>, Cow<'static,str>, Norm behave alike because the checkers are parametric in the payload (only the type's own ==, clone, is_ok/is_err may be used; never structural identity such as the enum variant).");
  rep.assume("OutputCheckerObj (object-safe proxy) is not nameable from an external crate; covered indirectly through TaskDependencyObj in real builds.");

  let mut anomalies = Vec::new();
  for (f, case) in &ctx.failures {
    if f.anomaly { anomalies.push(f.what.clone()); } else { rep.violation(to_violation(f, case)); }
  }
  if rep.violation_count() == 0 {
    if let Some(a) = anomalies.first() {
      engine_error(&format!("C12: {} end-to-end run(s) could not be evaluated, first: {}", anomalies.len(), a));
    }
  }
  rep.finish()
}

#[cfg(test)]
mod tests {
  use super::*;

  fn results() -> Vec<Result<u8, u8>> { Result::<u8, u8>::alphabet(Tier::Quick) }

  #[test]
  fn alphabet_sizes() {
    assert_eq!(results().len(), 6);
    assert_eq!(Option::<u8>::alphabet(Tier::Quick).len(), 4);
    assert_eq!(String::alphabet(Tier::Quick).len(), 4);
    assert_eq!(<()>::alphabet(Tier::Quick).len(), 1);
  }

  #[test]
  fn reference_predicates_match_their_algebraic_form() {
    for a in results() {
      for b in results() {
        assert_eq!(rel_equals(&a, &b), a == b);
        assert_eq!(rel_ok_equals(&a, &b), a.ok() == b.ok());
        assert_eq!(rel_err_equals(&a, &b), a.err() == b.err());
        assert_eq!(rel_result(&a, &b), a.is_ok() == b.is_ok());
        assert!(rel_always(&a, &b));
      }
    }
  }

  #[test]
  fn reference_predicates_are_equivalences_and_ordered_by_coarseness() {
    let rels: [fn(&Result<u8, u8>, &Result<u8, u8>) -> bool; 5] = [rel_equals, rel_ok_equals, rel_err_equals, rel_result, rel_always];
    for r in rels {
      for a in results() {
        assert!(r(&a, &a));
        for b in results() {
          assert_eq!(r(&a, &b), r(&b, &a));
          for c in results() {
            if r(&a, &b) && r(&b, &c) { assert!(r(&a, &c)); }
          }
        }
      }
    }
    for a in results() {
      for b in results() {
        if rel_equals(&a, &b) { assert!(rel_ok_equals(&a, &b) && rel_err_equals(&a, &b)); }
        if rel_ok_equals(&a, &b) || rel_err_equals(&a, &b) { assert!(rel_result(&a, &b)); }
      }
    }
  }

  #[test]
  fn representation_insensitive_types() {
    use std::collections::hash_map::DefaultHasher;
    use std::hash::Hasher;
    let h = |n: &Norm| { let mut s = DefaultHasher::new(); n.hash(&mut s); s.finish() };
    assert!(rel_equals(&Norm::Short(1), &Norm::Full(1, 0)));
    assert!(!rel_equals(&Norm::Short(1), &Norm::Full(1, 1)));
    assert!(!rel_equals(&Norm::Short(0), &Norm::Short(1)));
    for a in Norm::alphabet(Tier::Thorough) {
      for b in Norm::alphabet(Tier::Thorough) {
        assert_eq!(a == b, a.normal() == b.normal());
        if a == b { assert_eq!(h(&a), h(&b)); }
      }
    }
    let b: Cow<'static, str> = Cow::Borrowed("a");
    let o: Cow<'static, str> = Cow::Owned("a".to_string());
    assert!(rel_equals(&b, &o));
    assert_ne!(b.label(), o.label());
    assert_ne!(std::mem::discriminant(&b), std::mem::discriminant(&o));
    // cloning keeps the representation (so the variants survive the trip through pie's store)
    assert_eq!(b.clone().label(), b.label());
    assert_eq!(o.clone().label(), o.label());
    for tier in [Tier::Quick, Tier::Thorough] {
      let l: BTreeSet<String> = Cow::<'static, str>::alphabet(tier).iter().map(|o| o.label()).collect();
      assert_eq!(l.len(), Cow::<'static, str>::alphabet(tier).len());
    }
  }

  #[test]
  fn reference_predicate_spot_values() {
    assert!(rel_ok_equals::<u8, u8>(&Err(0), &Err(2)));
    assert!(!rel_ok_equals::<u8, u8>(&Ok(0), &Ok(2)));
    assert!(!rel_ok_equals::<u8, u8>(&Ok(0), &Err(0)));
    assert!(rel_err_equals::<u8, u8>(&Ok(0), &Ok(2)));
    assert!(!rel_err_equals::<u8, u8>(&Err(0), &Err(2)));
    assert!(rel_result::<u8, u8>(&Err(0), &Err(2)));
    assert!(!rel_result::<u8, u8>(&Err(0), &Ok(0)));
  }

  #[test]
  fn judge_flags_a_wrong_direct_verdict() {
    let e = E2eObs { execs: [(1, 1), (1, 1), (0, 0)], post_require_execs: [(0, 0); 2], post_require_checks: Default::default(),
      require_stamps: [vec!["S1".into()], vec!["S2".into()], vec![]], checks: [vec![], vec![("S1".into(), true)], vec![]], dependency_check_errors: 0 };
    let good = CaseObs { direct: Outcome::Done(TraitObs { stamp: "S1".into(), inconsistency: Some("x".into()) }), topdown: Outcome::Done(e.clone()), bottomup: Outcome::Done(e.clone()) };
    assert!(judge(false, &good, Some("S2")).failures.is_empty());
    assert!(!judge(true, &good, Some("S2")).failures.is_empty());
    let mut bad = good.clone();
    bad.direct = Outcome::Done(TraitObs { stamp: "S1".into(), inconsistency: None });
    let fs = judge(false, &bad, Some("S2")).failures;
    assert_eq!(fs.len(), 1);
    assert_eq!(fs[0].oracle, "C12/relation");
  }
}
