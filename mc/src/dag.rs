//! Engine `dag`: explicit-state model checking of the REAL `pie_graph::DAG` (properties C10 and C11).
//!
//! Breadth-first search over operation sequences applied to a real `DAG<u8, u16>` in lock-step with a deliberately
//! naive reference model (plain `Vec`s, reachability by naive DFS). Node data = creation index of the node, edge
//! data = a marker unique to the `add_edge` call (position of the call in the operation path + 1), so an edge's data
//! says WHICH insertion it stems from.
//!
//! * A search state is identified by the COMPLETE observable state of the real DAG through its public API (see
//!   [`Obs`]): for every handle ever created (dead ones included): `contains_node`, rank from `iter_unsorted`,
//!   outgoing and incoming adjacency in iteration order with edge data, plus `len()` and every `get_edge_data` entry
//!   that is not explained by the adjacency lists. The `DAG` is not `Clone`: a state is stored as its operation path
//!   (parent pointer + operation) and re-derived by replaying that path on a fresh `DAG` for EVERY transition; each
//!   replay must reproduce the recorded state bytes, otherwise the run ends with an engine error.
//! * Alphabet per state: `add_node` (while fewer than A nodes were ever created) and, for all handles `i`, `j` ever
//!   created INCLUDING dead ones: `add_edge(i,j,marker)`, `remove_edge(i,j)`, `remove_outgoing_edges_of_node(i)`,
//!   `remove_node(i)`.
//! * `C10` and `C11` share the search; each run evaluates only the oracles of its own property.
//! * Two further phases reach what the full alphabet cannot reach at an affordable cost: `Mode::EdgesOnly` (all
//!   `add_edge` sequences over 5 or 6 nodes created first, states merged modulo renaming of the nodes to their
//!   ranks, complete query battery after every transition) and the rank-distance sweep (`sweep`: for every distance
//!   d up to 160 / 600 an insertion whose affected region spans exactly d + 1 ranks, in twelve shapes).
//!
//! ## Why merging states on the canonical bytes is exact
//!
//! 1. *Handles are canonicalised by creation index.* The slotmap key (slot, version) of a handle depends on the
//!    order of earlier removals (free list), but `DAG` uses keys only through `Eq`/`Hash`/slotmap lookup (the one
//!    `Ord` use, the binary heap in `Descendants`, breaks ties between entries of EQUAL rank, i.e. of the same
//!    node). A removed key never becomes valid again (slot versions only grow), whichever slot a later `add_node`
//!    takes. Hence two DAGs whose dumps agree by creation index behave identically by creation index under every
//!    future operation. (`iter_unsorted` order is slot order; it is read as a map node -> rank only.)
//!    The search does NOT lean on this argument: the slot assignment (slot of every handle and the freed slots in
//!    the order they were freed, i.e. everything that decides which key the next `add_node` returns) is appended
//!    to the key, so states that differ only in it are explored separately, and operations on a dead handle whose
//!    slot is occupied by a younger node are executed as such. `states_modulo_slot_assignment` counts the states
//!    by observable dump alone and is compared with a closed-form count of all observable states.
//! 2. *Edge-data markers are renumbered in order of first appearance in the dump.* `DAG<N, E, H>` is generic in `E`
//!    without any bound: it can only move, store, drop and hand back `E` values (parametricity), never inspect
//!    them. Its behaviour is therefore equivariant under every injective renaming of the markers. The oracles only
//!    compare markers for equality against the model, whose markers are renamed by the same bijection, and every
//!    future `add_edge` brings a marker that is fresh w.r.t. all markers present in either state. So two
//!    (real, model) pairs whose dumps agree up to an injective marker renaming have identical futures up to that
//!    renaming, and the renumbering (which picks one representative per renaming class) loses nothing.
//! 3. *The model state is part of the key whenever it is not determined by the real dump.* The oracles of a
//!    property read a projection of the model (C10: alive set and unordered edge set with data; C11: everything).
//!    If that projection coincides with the same projection of the real dump, a flag byte 0 is appended; otherwise
//!    flag 1 and the projection itself. Two paths are merged only if BOTH the real observable state and the
//!    oracle-relevant model state agree.
//! 4. State NOT in the dump: hash seeds (every replay builds a `DAG` with fresh `RandomState`s, so a dependence on
//!    them would show as a non-reproducible replay = engine error), `last_topo_order` (shows as the rank of the
//!    next `add_node`; ranks are in the dump and checked for gap-freeness by C10), and the DFS scratch space of
//!    `contains_transitive_edge` (its irrelevance is part of C11 and is probed by repeated queries, not assumed).
//! 5. *One-step taint: hidden state left behind by operations that change nothing observable.* If the last operation
//!    of a path left the key unchanged (a rejected `add_edge`, `add_edge` returning `Ok(false)`, a `remove_*` returning
//!    `None` / `false`), the key additionally carries that operation (kind + handles by creation index); after an
//!    operation that changes the key the taint is empty. So the state reached by `path ++ [no-op]` is NOT merged with
//!    the state reached by `path`: it is a state of its own, expanded with the full alphabet, i.e. every operation is
//!    also executed right after every observable no-op. (Without this, a breadth-first search never extends a path
//!    through a no-op, and scratch data that e.g. an aborted cycle search leaves behind is never exercised.)
//!    *Exactness.* Let an implementation's complete state after a path be a function of (observable state, last
//!    operation if that operation was an observable no-op, else nothing). Then the key determines the complete state,
//!    hence all futures, and merging on the key is exact; the old key (no taint) was exact only for implementations
//!    whose complete state is a function of the observable state alone. For implementations outside this class
//!    (hidden state that survives several operations) the taint is a strict refinement: the old key is a projection of
//!    the new one, so two paths merged now were merged before, never the other way round, and every transition the
//!    untainted search executed is still executed (the untainted states and their shortest paths are the same).
//! 6. *Queries.* The C10 run issues no query that touches the scratch space of `contains_transitive_edge`, it runs
//!    pure operation sequences. The C11 run issues, before EVERY operation (in replays too, so that every execution
//!    of a path is the same sequence of calls), one `contains_transitive_edge(i, j)` for the first pair that the
//!    model says is reachable - a query that returns early and leaves the scratch space as full as it gets - and
//!    after the last operation the whole query battery in several orders. This covers query -> operation and
//!    operation -> query interference for that fixed choice of query; a taint "last query issued" for every query
//!    would multiply the states by the number of handle pairs and is not done.

use std::collections::{BTreeMap, HashMap};
use std::panic::{catch_unwind, AssertUnwindSafe};
use std::sync::atomic::{AtomicUsize, Ordering as AtomicOrdering};
use std::time::Instant;

use pie_graph::{Error as DagError, Node, DAG};
use serde_json::{json, Value};

use crate::common::{engine_error, Args, Report, Tier, Violation};

// ---------------------------------------------------------------------------------------------------------------
// Operations
// ---------------------------------------------------------------------------------------------------------------

#[derive(Clone, Copy, PartialEq, Eq, Debug)]
pub enum Prop { C10, C11 }

impl Prop {
  fn id(self) -> &'static str { match self { Prop::C10 => "C10", Prop::C11 => "C11" } }
}

/// One operation of the alphabet; node arguments are creation indices of handles.
#[derive(Clone, Copy, PartialEq, Eq, Debug)]
pub enum Op {
  AddNode,
  AddEdge(u8, u8),
  RemoveEdge(u8, u8),
  RemoveOut(u8),
  RemoveNode(u8),
}

impl Op {
  fn render(&self) -> String {
    match *self {
      Op::AddNode => "add_node".to_string(),
      Op::AddEdge(i, j) => format!("add_edge({},{})", i, j),
      Op::RemoveEdge(i, j) => format!("remove_edge({},{})", i, j),
      Op::RemoveOut(i) => format!("remove_outgoing_edges_of_node({})", i),
      Op::RemoveNode(i) => format!("remove_node({})", i),
    }
  }

  fn parse(s: &str) -> Option<Op> {
    let s = s.trim();
    if s == "add_node" { return Some(Op::AddNode); }
    let open = s.find('(')?;
    if !s.ends_with(')') { return None; }
    let name = &s[..open];
    let args: Vec<u8> = s[open + 1..s.len() - 1]
      .split(',')
      .map(|a| a.trim().parse::<u8>())
      .collect::<Result<Vec<_>, _>>()
      .ok()?;
    match (name, args.as_slice()) {
      ("add_edge", [i, j]) => Some(Op::AddEdge(*i, *j)),
      ("remove_edge", [i, j]) => Some(Op::RemoveEdge(*i, *j)),
      ("remove_outgoing_edges_of_node", [i]) => Some(Op::RemoveOut(*i)),
      ("remove_node", [i]) => Some(Op::RemoveNode(*i)),
      _ => None,
    }
  }

  /// Largest handle index the operation mentions.
  fn max_handle(&self) -> Option<u8> {
    match *self {
      Op::AddNode => None,
      Op::AddEdge(i, j) | Op::RemoveEdge(i, j) => Some(i.max(j)),
      Op::RemoveOut(i) | Op::RemoveNode(i) => Some(i),
    }
  }
}

fn render_path(path: &[Op]) -> Vec<String> { path.iter().map(|o| o.render()).collect() }

/// The edge-data marker of the operation at position `pos` of a path (unique per `add_edge` call, never 0).
fn marker_for(pos: usize) -> u16 { (pos + 1) as u16 }

/// The alphabet of a state in which `k` handles were ever created, bound `a` on nodes ever created.
fn alphabet(k: usize, a: usize) -> Vec<Op> {
  let mut ops = Vec::with_capacity(1 + 2 * k * k + 2 * k);
  if k < a { ops.push(Op::AddNode); }
  for i in 0..k as u8 {
    for j in 0..k as u8 {
      ops.push(Op::AddEdge(i, j));
      ops.push(Op::RemoveEdge(i, j));
    }
  }
  for i in 0..k as u8 {
    ops.push(Op::RemoveOut(i));
    ops.push(Op::RemoveNode(i));
  }
  ops
}

/// The alphabet of a state under the search mode.
fn alphabet_for(bounds: &Bounds, model: &Model) -> Vec<Op> {
  let (k, a) = (model.k(), bounds.nodes_ever_created);
  match bounds.mode {
    Mode::Full => alphabet(k, a),
    Mode::EdgesOnly { max_edges } => {
      if k < a { return vec![Op::AddNode]; }
      let mut ops = Vec::with_capacity(k * k);
      for i in 0..k as u8 {
        for j in 0..k as u8 {
          let adds = i != j && model.edge_data(i, j).is_none() && !model.reaches(j, i);
          if model.edges.len() < max_edges || !adds { ops.push(Op::AddEdge(i, j)); }
        }
      }
      ops
    }
  }
}

#[derive(Clone, Copy, PartialEq, Eq, Debug)]
pub enum ErrKind { NodeMissing, CycleDetected }

/// Result of an operation, in canonical (creation index) terms.
#[derive(Clone, PartialEq, Eq, Debug)]
pub enum Res {
  Added(u8),
  Edge(Result<bool, ErrKind>),
  RemovedEdge(Option<u16>),
  /// Removed (child, data) pairs, sorted (the property does not claim an order of the returned vector).
  RemovedOut(Option<Vec<(u8, u16)>>),
  RemovedNode(bool),
}

impl Res {
  /// The result with edge data blanked: C10 says nothing about edge data, only C11 does.
  fn without_data(&self) -> Res {
    match self {
      Res::RemovedEdge(Some(_)) => Res::RemovedEdge(Some(0)),
      Res::RemovedOut(Some(v)) => Res::RemovedOut(Some(v.iter().map(|x| (x.0, 0)).collect())),
      other => other.clone(),
    }
  }
}

fn res_json(r: &Res) -> Value {
  match r {
    Res::Added(i) => json!(format!("node {}", i)),
    Res::Edge(Ok(b)) => json!(format!("Ok({})", b)),
    Res::Edge(Err(e)) => json!(format!("Err({:?})", e)),
    Res::RemovedEdge(None) => json!("None"),
    Res::RemovedEdge(Some(d)) => json!(format!("Some(data {})", d)),
    Res::RemovedOut(None) => json!("None"),
    Res::RemovedOut(Some(v)) => json!({"Some (child,data), sorted": v}),
    Res::RemovedNode(b) => json!(b),
  }
}

// ---------------------------------------------------------------------------------------------------------------
// The naive reference model
// ---------------------------------------------------------------------------------------------------------------

/// Deliberately naive model of the DAG's edge set. It has no notion of rank: the property fixes ranks only up to
/// the constraints checked by the C10 oracles.
#[derive(Clone, PartialEq, Eq, Debug, Default)]
pub struct Model {
  /// Per creation index.
  pub alive: Vec<bool>,
  /// All present edges (src, dst, data) in order of insertion.
  pub edges: Vec<(u8, u8, u16)>,
  /// Per node: (child, data) in order of first insertion of the currently present edge.
  pub out: Vec<Vec<(u8, u16)>>,
  /// Per node: (parent, data) in order of first insertion of the currently present edge.
  pub inc: Vec<Vec<(u8, u16)>>,
}

impl Model {
  pub fn new() -> Self { Self::default() }

  fn k(&self) -> usize { self.alive.len() }

  fn n_alive(&self) -> usize { self.alive.iter().filter(|a| **a).count() }

  fn is_alive(&self, i: u8) -> bool { self.alive.get(i as usize).copied().unwrap_or(false) }

  fn edge_data(&self, s: u8, d: u8) -> Option<u16> {
    self.edges.iter().find(|e| e.0 == s && e.1 == d).map(|e| e.2)
  }

  /// Nodes reachable from `from` through at least one edge (naive DFS over the edge list).
  fn reachable(&self, from: u8) -> Vec<bool> {
    let mut seen = vec![false; self.k()];
    let mut stack = vec![from];
    while let Some(x) = stack.pop() {
      for (c, _) in &self.out[x as usize] {
        if !seen[*c as usize] {
          seen[*c as usize] = true;
          stack.push(*c);
        }
      }
    }
    seen
  }

  fn reaches(&self, from: u8, to: u8) -> bool {
    if !self.is_alive(from) || !self.is_alive(to) { return false; }
    self.reachable(from)[to as usize]
  }

  pub fn apply(&mut self, op: Op, marker: u16) -> Res {
    match op {
      Op::AddNode => {
        self.alive.push(true);
        self.out.push(Vec::new());
        self.inc.push(Vec::new());
        Res::Added((self.k() - 1) as u8)
      }
      Op::AddEdge(s, d) => {
        if !self.is_alive(s) || !self.is_alive(d) { return Res::Edge(Err(ErrKind::NodeMissing)); }
        if s == d || self.reaches(d, s) { return Res::Edge(Err(ErrKind::CycleDetected)); }
        if self.edge_data(s, d).is_some() { return Res::Edge(Ok(false)); }
        self.edges.push((s, d, marker));
        self.out[s as usize].push((d, marker));
        self.inc[d as usize].push((s, marker));
        Res::Edge(Ok(true))
      }
      Op::RemoveEdge(s, d) => {
        if !self.is_alive(s) || !self.is_alive(d) { return Res::RemovedEdge(None); }
        match self.edge_data(s, d) {
          None => Res::RemovedEdge(None),
          Some(data) => {
            self.drop_edges(|e| e.0 == s && e.1 == d);
            Res::RemovedEdge(Some(data))
          }
        }
      }
      Op::RemoveOut(s) => {
        if !self.is_alive(s) || self.out[s as usize].is_empty() { return Res::RemovedOut(None); }
        let mut removed = self.out[s as usize].clone();
        removed.sort();
        self.drop_edges(|e| e.0 == s);
        Res::RemovedOut(Some(removed))
      }
      Op::RemoveNode(x) => {
        if !self.is_alive(x) { return Res::RemovedNode(false); }
        self.drop_edges(|e| e.0 == x || e.1 == x);
        self.alive[x as usize] = false;
        Res::RemovedNode(true)
      }
    }
  }

  fn drop_edges(&mut self, which: impl Fn(&(u8, u8, u16)) -> bool) {
    let gone: Vec<(u8, u8, u16)> = self.edges.iter().filter(|e| which(e)).cloned().collect();
    self.edges.retain(|e| !which(e));
    for (s, d, _) in gone {
      self.out[s as usize].retain(|c| c.0 != d);
      self.inc[d as usize].retain(|p| p.0 != s);
    }
  }

  fn to_json(&self) -> Value {
    let nodes: Vec<Value> = (0..self.k())
      .map(|i| json!({"handle": i, "alive": self.alive[i], "out (child,data)": self.out[i], "in (parent,data)": self.inc[i]}))
      .collect();
    json!({"nodes": nodes})
  }
}

// ---------------------------------------------------------------------------------------------------------------
// The real DAG and its observation
// ---------------------------------------------------------------------------------------------------------------

/// Index reported for a `Node` that is none of the handles ever created (cannot happen on a sane DAG).
const UNKNOWN: u8 = 255;

struct Real {
  dag: DAG<u8, u16>,
  /// Every handle ever created, by creation index (dead ones stay).
  handles: Vec<Node>,
  /// `add_node` returned a handle equal to an earlier one (would revive a dead handle).
  handle_collision: bool,
  /// Slot index of every handle (parsed from its `Debug` form, `None` if that form is not understood).
  slots: Vec<Option<u32>>,
  /// Slots of removed nodes that no younger handle occupies, in the order in which they were freed.
  freed: Vec<u32>,
  /// Slots of the first handles as learnt from an earlier execution of the same path (saves formatting the handles
  /// again in every replay; which slot a handle gets is decided by the slotmap from the sequence of `add_node` /
  /// `remove_node` calls alone, and the first replay of every state parses them for real).
  known_slots: Option<Vec<Option<u32>>>,
}

impl Real {
  fn new() -> Self { Real { dag: DAG::new(), handles: Vec::new(), handle_collision: false, slots: Vec::new(), freed: Vec::new(), known_slots: None } }

  fn idx(&self, n: &Node) -> u8 { self.handles.iter().position(|h| h == n).map(|p| p as u8).unwrap_or(UNKNOWN) }

  /// Slot index of a handle, parsed from its `Debug` form (`Node(DefaultKey(3v1))` = slot 3, version 1).
  fn parse_slot(n: &Node) -> Option<u32> {
    // Formatted into a stack buffer: this runs for every `add_node` of every replay.
    struct Buf([u8; 64], usize);
    impl std::fmt::Write for Buf {
      fn write_str(&mut self, s: &str) -> std::fmt::Result {
        let b = s.as_bytes();
        if self.1 + b.len() > self.0.len() { return Err(std::fmt::Error); }
        self.0[self.1..self.1 + b.len()].copy_from_slice(b);
        self.1 += b.len();
        Ok(())
      }
    }
    let mut buf = Buf([0; 64], 0);
    std::fmt::Write::write_fmt(&mut buf, format_args!("{:?}", n)).ok()?;
    let s = std::str::from_utf8(&buf.0[..buf.1]).ok()?;
    let open = s.rfind('(')?;
    let v = s[open + 1..].find('v')?;
    s[open + 1..open + 1 + v].parse().ok()
  }

  fn slot(&self, i: usize) -> Option<u32> { self.slots[i] }

  /// The slot assignment: slot of every handle, then the freed and not yet reused slots in the order they were
  /// freed. This is the part of the slotmap's state that decides which key a future `add_node` returns. It is
  /// hidden from the public API of `DAG` and irrelevant for its behaviour (module documentation, point 1); it is
  /// nevertheless made part of the state key, so that states that differ only in it are NOT merged and every
  /// operation on a dead handle is also executed in the situations where the dead handle's slot is occupied by a
  /// younger node. Empty if the `Debug` form of `Node` is not understood (then those states are merged).
  fn slot_signature(&self) -> Vec<u8> {
    if self.slots.iter().any(|s| s.is_none()) { return Vec::new(); }
    let mut sig: Vec<u8> = self.slots.iter().map(|s| s.unwrap().min(255) as u8).collect();
    sig.push(self.freed.len() as u8);
    sig.extend(self.freed.iter().map(|s| (*s).min(255) as u8));
    sig
  }

  fn apply(&mut self, op: Op, marker: u16) -> Res {
    match op {
      Op::AddNode => {
        let idx = self.handles.len() as u8;
        let n = self.dag.add_node(idx);
        if self.handles.contains(&n) { self.handle_collision = true; }
        let slot = match self.known_slots.as_ref().and_then(|k| k.get(idx as usize)) {
          Some(s) => *s,
          None => Self::parse_slot(&n),
        };
        if let Some(s) = slot { self.freed.retain(|f| *f != s); }
        self.slots.push(slot);
        self.handles.push(n);
        Res::Added(idx)
      }
      Op::AddEdge(s, d) => {
        let (s, d) = (self.handles[s as usize], self.handles[d as usize]);
        Res::Edge(match self.dag.add_edge(s, d, marker) {
          Ok(b) => Ok(b),
          Err(DagError::NodeMissing) => Err(ErrKind::NodeMissing),
          Err(DagError::CycleDetected) => Err(ErrKind::CycleDetected),
        })
      }
      Op::RemoveEdge(s, d) => {
        let (s, d) = (self.handles[s as usize], self.handles[d as usize]);
        Res::RemovedEdge(self.dag.remove_edge(s, d))
      }
      Op::RemoveOut(s) => {
        let s = self.handles[s as usize];
        Res::RemovedOut(self.dag.remove_outgoing_edges_of_node(s).map(|v| {
          let mut v: Vec<(u8, u16)> = v.into_iter().map(|(n, d)| (self.idx(&n), d)).collect();
          v.sort();
          v
        }))
      }
      Op::RemoveNode(x) => {
        let removed = self.dag.remove_node(self.handles[x as usize]);
        if removed {
          if let Some(s) = self.slots[x as usize] { self.freed.push(s); }
        }
        Res::RemovedNode(removed)
      }
    }
  }
}

/// Complete observable state of the real DAG, in creation-index terms. Edge data 0 = "no data stored".
#[derive(Clone, PartialEq, Eq, Debug)]
pub struct Obs {
  pub len: usize,
  /// `contains_node` per handle.
  pub alive: Vec<bool>,
  /// Rank reported by `iter_unsorted` per handle (`None` = not listed).
  pub rank: Vec<Option<u32>>,
  /// Nodes listed by `iter_unsorted` that are no known handle / handles listed more than once.
  pub unknown_listed: u32,
  pub listed_twice: u32,
  /// `get_outgoing_edge_nodes` in iteration order, each with `get_edge_data`.
  pub out: Vec<Vec<(u8, u16)>>,
  /// `get_incoming_edge_nodes` in iteration order, each with `get_edge_data`.
  pub inc: Vec<Vec<(u8, u16)>>,
  /// `get_edge_data(i, j)` entries for which `j` is not in the outgoing list of `i`.
  pub stray: Vec<(u8, u8, u16)>,
  pub handle_collision: bool,
}

fn observe(real: &Real) -> Obs {
  let k = real.handles.len();
  let dag = &real.dag;
  let alive: Vec<bool> = real.handles.iter().map(|h| dag.contains_node(h)).collect();
  let mut rank = vec![None; k];
  let (mut unknown_listed, mut listed_twice) = (0, 0);
  for (r, n) in dag.iter_unsorted() {
    match real.idx(&n) {
      UNKNOWN => unknown_listed += 1,
      i => {
        if rank[i as usize].is_some() { listed_twice += 1; }
        rank[i as usize] = Some(r);
      }
    }
  }
  let mut out = Vec::with_capacity(k);
  let mut inc = Vec::with_capacity(k);
  for h in &real.handles {
    out.push(dag.get_outgoing_edge_nodes(h).map(|c| (real.idx(c), dag.get_edge_data(h, c).copied().unwrap_or(0))).collect::<Vec<_>>());
    inc.push(dag.get_incoming_edge_nodes(h).map(|p| (real.idx(p), dag.get_edge_data(p, h).copied().unwrap_or(0))).collect::<Vec<_>>());
  }
  let mut stray = Vec::new();
  for i in 0..k {
    for j in 0..k {
      if let Some(d) = dag.get_edge_data(real.handles[i], real.handles[j]) {
        if !out[i].iter().any(|c| c.0 as usize == j) { stray.push((i as u8, j as u8, *d)); }
      }
    }
  }
  Obs { len: dag.len(), alive, rank, unknown_listed, listed_twice, out, inc, stray, handle_collision: real.handle_collision }
}

impl Obs {
  fn k(&self) -> usize { self.alive.len() }

  fn to_json(&self) -> Value {
    let nodes: Vec<Value> = (0..self.k())
      .map(|i| json!({"handle": i, "alive": self.alive[i], "rank": self.rank[i], "out (child,data)": self.out[i], "in (parent,data)": self.inc[i]}))
      .collect();
    json!({"len": self.len, "nodes": nodes, "stray_edge_data": self.stray,
           "unknown_nodes_listed": self.unknown_listed, "nodes_listed_twice": self.listed_twice})
  }

  /// First field in which `self` (before) and `other` (after) differ.
  fn first_difference(&self, other: &Obs) -> Option<String> {
    if self.k() != other.k() { return Some(format!("number of handles {} -> {}", self.k(), other.k())); }
    if self.len != other.len { return Some(format!("len() {} -> {}", self.len, other.len)); }
    for i in 0..self.k() {
      if self.alive[i] != other.alive[i] { return Some(format!("contains_node({}) {} -> {}", i, self.alive[i], other.alive[i])); }
      if self.rank[i] != other.rank[i] { return Some(format!("rank of node {} {:?} -> {:?}", i, self.rank[i], other.rank[i])); }
      if self.out[i] != other.out[i] { return Some(format!("outgoing (child,data) list of node {} {:?} -> {:?}", i, self.out[i], other.out[i])); }
      if self.inc[i] != other.inc[i] { return Some(format!("incoming (parent,data) list of node {} {:?} -> {:?}", i, self.inc[i], other.inc[i])); }
    }
    if self.stray != other.stray { return Some(format!("edge data without adjacency {:?} -> {:?}", self.stray, other.stray)); }
    if self.unknown_listed != other.unknown_listed || self.listed_twice != other.listed_twice || self.handle_collision != other.handle_collision {
      return Some("node listing anomalies changed".to_string());
    }
    None
  }
}

// ---------------------------------------------------------------------------------------------------------------
// Canonical state bytes
// ---------------------------------------------------------------------------------------------------------------

/// Renumbers edge-data markers in order of first appearance (0 stays 0 = "no data").
struct Renumber { seen: Vec<u16> }

impl Renumber {
  fn get(&mut self, m: u16) -> u8 {
    if m == 0 { return 0; }
    let pos = match self.seen.iter().position(|x| *x == m) {
      Some(p) => p,
      None => { self.seen.push(m); self.seen.len() - 1 }
    };
    if pos >= 254 { engine_error("more than 254 distinct edge markers in one state"); }
    (pos + 1) as u8
  }
}

fn push_rank(b: &mut Vec<u8>, r: Option<u32>) {
  match r {
    None => b.push(0),
    Some(r) if r < 254 => b.push((r + 1) as u8),
    Some(r) => { b.push(255); b.extend_from_slice(&r.to_le_bytes()); }
  }
}

fn sorted_edges_of_obs(obs: &Obs) -> Vec<(u8, u8, u16)> {
  let mut v = Vec::new();
  for i in 0..obs.k() { for (c, d) in &obs.out[i] { v.push((i as u8, *c, *d)); } }
  v.sort();
  v
}

/// Does the oracle-relevant projection of the model coincide with that projection of the real dump?
fn model_determined_by_obs(prop: Prop, obs: &Obs, model: &Model) -> bool {
  if obs.alive != model.alive { return false; }
  match prop {
    Prop::C10 => {
      let mut m = model.edges.clone();
      m.sort();
      m == sorted_edges_of_obs(obs)
    }
    Prop::C11 => obs.out == model.out && obs.inc == model.inc && obs.stray.is_empty(),
  }
}

/// Canonical bytes of a (real, model) state pair; see the module documentation for why this is exact.
fn encode_key(prop: Prop, obs: &Obs, model: &Model, slot_sig: &[u8], taint: Option<Op>) -> Box<[u8]> {
  let k = obs.k();
  let mut b: Vec<u8> = Vec::with_capacity(24 + 8 * k);
  let mut ren = Renumber { seen: Vec::new() };
  b.push(k as u8);
  b.push(obs.len.min(255) as u8);
  b.push(obs.unknown_listed.min(255) as u8);
  b.push(obs.listed_twice.min(255) as u8);
  b.push(obs.handle_collision as u8);
  for i in 0..k {
    b.push(obs.alive[i] as u8);
    push_rank(&mut b, obs.rank[i]);
    b.push(obs.out[i].len() as u8);
    for (c, d) in &obs.out[i] { b.push(*c); b.push(ren.get(*d)); }
    b.push(obs.inc[i].len() as u8);
    for (p, d) in &obs.inc[i] { b.push(*p); b.push(ren.get(*d)); }
  }
  b.push(obs.stray.len() as u8);
  for (s, d, m) in &obs.stray { b.push(*s); b.push(*d); b.push(ren.get(*m)); }
  if model_determined_by_obs(prop, obs, model) {
    b.push(0);
  } else {
    b.push(1);
    b.push(model.k() as u8);
    for a in &model.alive { b.push(*a as u8); }
    match prop {
      Prop::C10 => {
        let mut m = model.edges.clone();
        m.sort();
        b.push(m.len() as u8);
        for (s, d, x) in m { b.push(s); b.push(d); b.push(ren.get(x)); }
      }
      Prop::C11 => {
        for i in 0..model.k() {
          b.push(model.out[i].len() as u8);
          for (c, d) in &model.out[i] { b.push(*c); b.push(ren.get(*d)); }
          b.push(model.inc[i].len() as u8);
          for (p, d) in &model.inc[i] { b.push(*p); b.push(ren.get(*d)); }
        }
      }
    }
  }
  // Taint (3 bytes), then the slot assignment followed by its length, so that both can be located from the end.
  b.extend_from_slice(&taint_bytes(taint));
  b.extend_from_slice(slot_sig);
  b.push(slot_sig.len() as u8);
  b.into_boxed_slice()
}

/// Observation and model with every node renamed to its rank - 1 (`Mode::EdgesOnly`); `None` if the ranks are not a
/// bijection onto 1..n over alive nodes (then no renaming is done, which only costs some merging).
fn renamed_by_rank(obs: &Obs, model: &Model) -> Option<(Obs, Model)> {
  let k = obs.k();
  if model.k() != k || obs.len != k { return None; }
  let mut perm = vec![0u8; k];
  let mut used = vec![false; k];
  for i in 0..k {
    let r = obs.rank[i]? as usize;
    if !obs.alive[i] || r < 1 || r > k || used[r - 1] { return None; }
    used[r - 1] = true;
    perm[i] = (r - 1) as u8;
  }
  let map = |x: u8| if (x as usize) < k { perm[x as usize] } else { x };
  let map_list = |l: &Vec<(u8, u16)>| l.iter().map(|(x, d)| (map(*x), *d)).collect::<Vec<_>>();
  let mut o = Obs {
    len: obs.len, alive: vec![true; k], rank: (1..=k as u32).map(Some).collect(), unknown_listed: obs.unknown_listed, listed_twice: obs.listed_twice,
    out: vec![Vec::new(); k], inc: vec![Vec::new(); k], stray: obs.stray.iter().map(|(s, d, m)| (map(*s), map(*d), *m)).collect(), handle_collision: obs.handle_collision,
  };
  o.stray.sort();
  let mut m = Model { alive: vec![false; k], edges: model.edges.iter().map(|(s, d, x)| (map(*s), map(*d), *x)).collect(), out: vec![Vec::new(); k], inc: vec![Vec::new(); k] };
  for i in 0..k {
    let p = perm[i] as usize;
    o.out[p] = map_list(&obs.out[i]);
    o.inc[p] = map_list(&obs.inc[i]);
    m.alive[p] = model.alive[i];
    m.out[p] = map_list(&model.out[i]);
    m.inc[p] = map_list(&model.inc[i]);
  }
  Some((o, m))
}

/// The key of a state under the search mode.
fn state_key(prop: Prop, mode: Mode, obs: &Obs, model: &Model, real: &Real, taint: Option<Op>) -> Box<[u8]> {
  match mode {
    Mode::Full => encode_key(prop, obs, model, &real.slot_signature(), taint),
    Mode::EdgesOnly { .. } => match renamed_by_rank(obs, model) {
      Some((o, m)) => encode_key(prop, &o, &m, &[], None),
      None => encode_key(prop, obs, model, &[], None),
    },
  }
}

/// The operation that left the state unchanged, as key bytes (`None` = 0,0,0).
fn taint_bytes(taint: Option<Op>) -> [u8; 3] {
  match taint {
    None | Some(Op::AddNode) => [0, 0, 0],
    Some(Op::AddEdge(i, j)) => [1, i, j],
    Some(Op::RemoveEdge(i, j)) => [2, i, j],
    Some(Op::RemoveOut(i)) => [3, i, 0],
    Some(Op::RemoveNode(i)) => [4, i, 0],
  }
}

fn taint_offset(key: &[u8]) -> usize {
  let n = *key.last().unwrap() as usize;
  key.len() - 1 - n - 3
}

/// The same key with another taint.
fn with_taint(key: &[u8], taint: Option<Op>) -> Box<[u8]> {
  let mut k = key.to_vec();
  let o = taint_offset(key);
  k[o..o + 3].copy_from_slice(&taint_bytes(taint));
  k.into_boxed_slice()
}

/// The key without taint and slot assignment: the observable state (and model part) proper.
fn strip_slot_signature(key: &[u8]) -> &[u8] { &key[..taint_offset(key)] }

/// The query issued before every operation of a C11 run (module documentation, point 6): the first pair the model
/// says is transitively connected.
fn dirty_query(model: &Model) -> Option<(u8, u8)> {
  for i in 0..model.k() as u8 {
    if !model.is_alive(i) { continue; }
    let r = model.reachable(i);
    if let Some(j) = (0..model.k()).find(|j| r[*j] && model.alive[*j]) { return Some((i, j as u8)); }
  }
  None
}

/// Closed-form count of the observable states with at most `a` handles, for cross-checking the state count of a
/// search that reached its fixed point. A state with k handles picks its alive subset freely; m alive nodes have m!
/// rank assignments, each admitting every subset of the m(m-1)/2 rank-increasing edges; what remains is the number
/// of possible orders of the adjacency lists of such an edge set:
/// * `independent == false`: all outgoing and incoming lists are induced by ONE insertion sequence of the present
///   edges (what a DAG that appends an edge to both lists at its insertion, and never reorders, can reach);
/// * `independent == true`: every list is ordered independently, prod(outdeg!) * prod(indeg!) (reachable only if
///   lists can be reordered separately, as the re-insertion defect of `add_edge` allows for the outgoing lists).
/// `None` if the enumeration would be too large (more than 4 alive nodes in the first form).
fn closed_form_states(a: usize, independent: bool) -> Option<u64> {
  fn fact(n: u64) -> u64 { (1..=n).product() }
  fn choose(n: u64, k: u64) -> u64 { fact(n) / (fact(k) * fact(n - k)) }
  fn permute(rest: &mut Vec<(usize, usize)>, taken: &mut Vec<(usize, usize)>, m: usize, seen: &mut std::collections::HashSet<Vec<u8>>) {
    if rest.is_empty() {
      // Projection of the insertion sequence `taken` onto the per-node lists.
      let mut proj = Vec::new();
      for x in 0..m {
        proj.extend(taken.iter().filter(|e| e.0 == x).map(|e| e.1 as u8));
        proj.push(255);
        proj.extend(taken.iter().filter(|e| e.1 == x).map(|e| e.0 as u8));
        proj.push(255);
      }
      seen.insert(proj);
      return;
    }
    for i in 0..rest.len() {
      let e = rest.remove(i);
      taken.push(e);
      permute(rest, taken, m, seen);
      taken.pop();
      rest.insert(i, e);
    }
  }
  if !independent && a > 4 { return None; }
  let f = |m: usize| -> u64 {
    let edges: Vec<(usize, usize)> = (0..m).flat_map(|i| (i + 1..m).map(move |j| (i, j))).collect();
    let mut total = 0u64;
    for mask in 0u32..(1u32 << edges.len()) {
      let mut present: Vec<(usize, usize)> = edges.iter().enumerate().filter(|(b, _)| mask >> b & 1 == 1).map(|(_, e)| *e).collect();
      if independent {
        let (mut o, mut i) = (vec![0u64; m], vec![0u64; m]);
        for (s, d) in &present { o[*s] += 1; i[*d] += 1; }
        total += o.iter().chain(i.iter()).map(|x| fact(*x)).product::<u64>();
      } else {
        let mut seen = std::collections::HashSet::new();
        permute(&mut present, &mut Vec::new(), m, &mut seen);
        total += seen.len() as u64;
      }
    }
    total * fact(m as u64)
  };
  Some((0..=a).map(|k| (0..=k).map(|m| choose(k as u64, m as u64) * f(m)).sum::<u64>()).sum())
}

// ---------------------------------------------------------------------------------------------------------------
// Oracles
// ---------------------------------------------------------------------------------------------------------------

/// A failed oracle.
#[derive(Clone, Debug)]
pub struct Fail {
  pub oracle: String,
  pub what: String,
  pub expected: Value,
  pub observed: Value,
}

fn fail(oracle: &str, what: String, expected: Value, observed: Value) -> Fail {
  Fail { oracle: oracle.to_string(), what, expected, observed }
}

fn panic_text(p: Box<dyn std::any::Any + Send>) -> String {
  if let Some(s) = p.downcast_ref::<&str>() { s.to_string() }
  else if let Some(s) = p.downcast_ref::<String>() { s.clone() }
  else { "non-string panic payload".to_string() }
}

/// Counters of one expansion worker / one search.
#[derive(Clone, Debug, Default)]
pub struct Stats {
  pub transitions: u64,
  pub queries: u64,
  pub replayed_ops: u64,
  pub slot_reuse: u64,
  /// Transitions executed right after an operation that changed nothing observable (from a tainted state).
  pub after_noop: u64,
  /// Number of times the complete C11 query battery was run.
  pub batteries: u64,
  pub outcomes: BTreeMap<&'static str, u64>,
}

impl Stats {
  fn absorb(&mut self, o: &Stats) {
    self.transitions += o.transitions;
    self.queries += o.queries;
    self.replayed_ops += o.replayed_ops;
    self.slot_reuse += o.slot_reuse;
    self.after_noop += o.after_noop;
    self.batteries += o.batteries;
    for (k, v) in &o.outcomes { *self.outcomes.entry(k).or_insert(0) += v; }
  }
}

/// (operation kind, result kind) label of an executed transition; `pre` is the model state before the operation.
fn outcome_label(op: Op, res: &Res, pre: &Model) -> &'static str {
  match (op, res) {
    (Op::AddNode, _) => "add_node -> handle",
    (Op::AddEdge(_, _), Res::Edge(Ok(true))) => "add_edge -> Ok(true)",
    (Op::AddEdge(_, _), Res::Edge(Ok(false))) => "add_edge -> Ok(false) [re-insertion]",
    (Op::AddEdge(_, _), Res::Edge(Err(ErrKind::NodeMissing))) => "add_edge -> Err(NodeMissing)",
    (Op::AddEdge(s, d), Res::Edge(Err(ErrKind::CycleDetected))) if s == d => "add_edge -> Err(CycleDetected) [self loop]",
    (Op::AddEdge(_, _), Res::Edge(Err(ErrKind::CycleDetected))) => "add_edge -> Err(CycleDetected) [path back]",
    (Op::RemoveEdge(_, _), Res::RemovedEdge(Some(_))) => "remove_edge -> Some(data)",
    (Op::RemoveEdge(s, d), Res::RemovedEdge(None)) if !pre.is_alive(s) || !pre.is_alive(d) => "remove_edge -> None [dead handle]",
    (Op::RemoveEdge(_, _), Res::RemovedEdge(None)) => "remove_edge -> None [no such edge]",
    (Op::RemoveOut(_), Res::RemovedOut(Some(_))) => "remove_outgoing_edges_of_node -> Some(pairs)",
    (Op::RemoveOut(s), Res::RemovedOut(None)) if !pre.is_alive(s) => "remove_outgoing_edges_of_node -> None [dead handle]",
    (Op::RemoveOut(_), Res::RemovedOut(None)) => "remove_outgoing_edges_of_node -> None [no outgoing edges]",
    (Op::RemoveNode(_), Res::RemovedNode(true)) => "remove_node -> true",
    (Op::RemoveNode(_), Res::RemovedNode(false)) => "remove_node -> false [dead handle]",
    _ => "operation/result kind mismatch",
  }
}

/// C10: ranks are a bijection onto 1..n, every edge goes up in rank, the graph is acyclic.
fn c10_invariants(model: &Model, obs: &Obs, q: &mut u64) -> Result<(), Fail> {
  let k = obs.k();
  *q += 1;
  if obs.handle_collision {
    return Err(fail("C10/dead-handle-revived", "add_node returned a handle equal to an earlier handle".into(), json!("fresh handle"), obs.to_json()));
  }
  for i in 0..k {
    *q += 1;
    if obs.alive[i] != model.alive[i] {
      return Err(fail("C10/alive", format!("contains_node({}) is {} but the node is {}", i, obs.alive[i], if model.alive[i] { "alive" } else { "removed" }),
        model.to_json(), obs.to_json()));
    }
  }
  let n = model.n_alive();
  *q += 1;
  if obs.len != n {
    return Err(fail("C10/len", format!("len() is {} but {} nodes are alive", obs.len, n), json!(n), json!(obs.len)));
  }
  *q += 1;
  if obs.unknown_listed > 0 || obs.listed_twice > 0 {
    return Err(fail("C10/rank-bijection", "iter_unsorted lists an unknown node or a node twice".into(), json!("each alive node once"), obs.to_json()));
  }
  let mut taken = vec![false; n + 1];
  for i in 0..k {
    *q += 1;
    match (obs.alive[i], obs.rank[i]) {
      (false, None) => {}
      (false, Some(r)) => return Err(fail("C10/rank-bijection", format!("removed node {} is listed by iter_unsorted with rank {}", i, r), json!(null), obs.to_json())),
      (true, None) => return Err(fail("C10/rank-bijection", format!("alive node {} is not listed by iter_unsorted", i), json!("a rank"), obs.to_json())),
      (true, Some(r)) => {
        if r < 1 || r as usize > n {
          return Err(fail("C10/rank-bijection", format!("rank {} of node {} is outside 1..={}", r, i, n), json!(format!("ranks are a bijection onto 1..={}", n)), obs.to_json()));
        }
        if taken[r as usize] {
          return Err(fail("C10/rank-bijection", format!("rank {} is held by two nodes", r), json!(format!("ranks are a bijection onto 1..={}", n)), obs.to_json()));
        }
        taken[r as usize] = true;
      }
    }
  }
  for (s, d, _) in &model.edges {
    *q += 1;
    let (rs, rd) = (obs.rank[*s as usize], obs.rank[*d as usize]);
    if !(rs.is_some() && rd.is_some() && rs < rd) {
      return Err(fail("C10/edge-order", format!("edge {}->{} has rank(src)={:?}, rank(dst)={:?}", s, d, rs, rd), json!("rank(src) < rank(dst)"), obs.to_json()));
    }
  }
  // The same through the adjacency reported by the API, plus an explicit cycle search on it.
  for i in 0..k {
    for (c, _) in &obs.out[i] {
      *q += 1;
      let rc = if *c == UNKNOWN { None } else { obs.rank[*c as usize] };
      if !(obs.rank[i].is_some() && rc.is_some() && obs.rank[i] < rc) {
        return Err(fail("C10/edge-order", format!("API edge {}->{} has rank(src)={:?}, rank(dst)={:?}", i, c, obs.rank[i], rc), json!("rank(src) < rank(dst)"), obs.to_json()));
      }
    }
  }
  *q += 1;
  let mut colour = vec![0u8; k];
  fn visit(x: usize, obs: &Obs, colour: &mut Vec<u8>) -> bool {
    colour[x] = 1;
    for (c, _) in &obs.out[x] {
      if *c == UNKNOWN { continue; }
      let c = *c as usize;
      if colour[c] == 1 { return true; }
      if colour[c] == 0 && visit(c, obs, colour) { return true; }
    }
    colour[x] = 2;
    false
  }
  for i in 0..k {
    if colour[i] == 0 && visit(i, obs, &mut colour) {
      return Err(fail("C10/acyclic", "the outgoing adjacency reported by the API contains a cycle".into(), json!("acyclic"), obs.to_json()));
    }
  }
  Ok(())
}

/// C11, general form: the complete real state equals the complete model state (edges, order, data, alive set).
fn c11_state(model: &Model, obs: &Obs, q: &mut u64) -> Result<(), Fail> {
  let k = obs.k();
  *q += 1;
  if obs.handle_collision {
    return Err(fail("C11/contains_node", "add_node returned a handle equal to an earlier handle".into(), json!("fresh handle"), obs.to_json()));
  }
  for i in 0..k {
    *q += 1;
    if obs.alive[i] != model.alive[i] {
      return Err(fail("C11/contains_node", format!("contains_node({}) is {} but the node is {}", i, obs.alive[i], if model.alive[i] { "alive" } else { "removed" }),
        model.to_json(), obs.to_json()));
    }
  }
  *q += 1;
  if obs.len != model.n_alive() {
    return Err(fail("C11/len", format!("len() is {} but {} nodes are alive", obs.len, model.n_alive()), json!(model.n_alive()), json!(obs.len)));
  }
  *q += 1;
  if obs.unknown_listed > 0 || obs.listed_twice > 0 {
    return Err(fail("C11/node-set", "iter_unsorted lists an unknown node or a node twice".into(), model.to_json(), obs.to_json()));
  }
  for (dir, real_lists, model_lists) in [("outgoing", &obs.out, &model.out), ("incoming", &obs.inc, &model.inc)] {
    for i in 0..k {
      *q += 1;
      let (r, m) = (&real_lists[i], &model_lists[i]);
      if r == m { continue; }
      let rn: Vec<u8> = r.iter().map(|x| x.0).collect();
      let mn: Vec<u8> = m.iter().map(|x| x.0).collect();
      let (mut rs, mut ms) = (rn.clone(), mn.clone());
      rs.sort();
      ms.sort();
      let (kind, text) = if rs != ms {
        ("edges", format!("{} edges of node {} are {:?} but the true edge set gives {:?}", dir, i, rn, mn))
      } else if rn != mn {
        ("order", format!("{} adjacency of node {} iterates as {:?} but the order of first insertion is {:?}", dir, i, rn, mn))
      } else {
        ("data", format!("{} edges of node {} carry (node,data) {:?} but the data given at insertion is {:?}", dir, i, r, m))
      };
      return Err(fail(&format!("C11/{}-{}", dir, kind), text, model.to_json(), obs.to_json()));
    }
  }
  *q += 1;
  if !obs.stray.is_empty() {
    return Err(fail("C11/edge-data", format!("get_edge_data answers for absent edges (src,dst,data): {:?}", obs.stray), model.to_json(), obs.to_json()));
  }
  Ok(())
}

/// C11: every query of the public API, for all handles and all ordered pairs of handles ever created.
fn c11_queries(real: &Real, model: &Model, obs: &Obs, q: &mut u64) -> Result<(), Fail> {
  let dag = &real.dag;
  let h = &real.handles;
  let k = h.len();
  let n = model.n_alive();
  let idxs = |v: Vec<&Node>| -> Vec<u8> { v.into_iter().map(|x| real.idx(x)).collect() };

  *q += 2;
  if dag.len() != n { return Err(fail("C11/len", format!("len() = {}", dag.len()), json!(n), json!(dag.len()))); }
  if dag.is_empty() != (n == 0) { return Err(fail("C11/is_empty", format!("is_empty() = {} with {} alive nodes", dag.is_empty(), n), json!(n == 0), json!(dag.is_empty()))); }
  for i in 0..k {
    *q += 2;
    if dag.contains_node(h[i]) != model.alive[i] {
      return Err(fail("C11/contains_node", format!("contains_node({}) = {}", i, !model.alive[i]), json!(model.alive[i]), json!(!model.alive[i])));
    }
    let exp = if model.alive[i] { Some(i as u8) } else { None };
    let got = dag.get_node_data(h[i]).copied();
    if got != exp { return Err(fail("C11/get_node_data", format!("get_node_data({}) = {:?}", i, got), json!(exp), json!(got))); }
  }

  let reach: Vec<Vec<bool>> = (0..k).map(|i| if model.alive[i] { model.reachable(i as u8) } else { vec![false; k] }).collect();
  let reaches = |i: usize, j: usize| model.alive[i] && model.alive[j] && reach[i][j];

  for i in 0..k {
    for j in 0..k {
      *q += 2;
      let exp_data = model.edge_data(i as u8, j as u8);
      let got = dag.contains_edge(h[i], h[j]);
      if got != exp_data.is_some() {
        return Err(fail("C11/contains_edge", format!("contains_edge({},{}) = {}", i, j, got), json!(exp_data.is_some()), json!(got)));
      }
      let got = dag.get_edge_data(h[i], h[j]).copied();
      if got != exp_data {
        return Err(fail("C11/get_edge_data", format!("get_edge_data({},{}) = {:?}", i, j, got), json!(exp_data), json!(got)));
      }
      // Transitive reachability: twice in a row, then an unrelated query with a different source, then again.
      let exp = reaches(i, j);
      let r1 = dag.contains_transitive_edge(h[i], h[j]);
      let r2 = dag.contains_transitive_edge(h[i], h[j]);
      *q += 2;
      if r1 != exp || r2 != exp {
        return Err(fail("C11/contains_transitive_edge", format!("contains_transitive_edge({},{}) answered {} then {} (called twice in a row)", i, j, r1, r2), json!(exp), json!([r1, r2])));
      }
      if k > 1 {
        let i2 = (i + 1) % k;
        let exp2 = reaches(i2, j);
        let u = dag.contains_transitive_edge(h[i2], h[j]);
        let r3 = dag.contains_transitive_edge(h[i], h[j]);
        *q += 2;
        if u != exp2 {
          return Err(fail("C11/contains_transitive_edge", format!("contains_transitive_edge({},{}) = {} (asked right after the query for ({},{}))", i2, j, u, i, j), json!(exp2), json!(u)));
        }
        if r3 != exp {
          return Err(fail("C11/contains_transitive_edge", format!("contains_transitive_edge({},{}) = {} when asked again after the query for ({},{})", i, j, r3, i2, j), json!(exp), json!(r3)));
        }
      }
    }
  }

  let mut solo_sorted: Vec<Vec<u8>> = vec![Vec::new(); k]; // what `descendants(i)` yields when used alone
  for i in 0..k {
    // The four outgoing and four incoming accessors against the model lists, in order.
    let m_out = &model.out[i];
    let m_inc = &model.inc[i];
    let m_out_nodes: Vec<u8> = m_out.iter().map(|x| x.0).collect();
    let m_out_data: Vec<u16> = m_out.iter().map(|x| x.1).collect();
    let m_inc_nodes: Vec<u8> = m_inc.iter().map(|x| x.0).collect();
    let m_inc_data: Vec<u16> = m_inc.iter().map(|x| x.1).collect();

    *q += 8;
    let got: Vec<(u8, u16)> = dag.get_outgoing_edges(h[i]).map(|(c, d)| (real.idx(c), *d)).collect();
    if &got != m_out { return Err(fail("C11/get_outgoing_edges", format!("get_outgoing_edges({}) = {:?}", i, got), json!(m_out), json!(got))); }
    let got = idxs(dag.get_outgoing_edge_nodes(h[i]).collect());
    if got != m_out_nodes { return Err(fail("C11/get_outgoing_edge_nodes", format!("get_outgoing_edge_nodes({}) = {:?}", i, got), json!(m_out_nodes), json!(got))); }
    let got: Vec<u16> = dag.get_outgoing_edge_data(h[i]).copied().collect();
    if got != m_out_data { return Err(fail("C11/get_outgoing_edge_data", format!("get_outgoing_edge_data({}) = {:?}", i, got), json!(m_out_data), json!(got))); }
    let got: Vec<u8> = dag.get_outgoing_edge_node_data(h[i]).copied().collect();
    if got != m_out_nodes { return Err(fail("C11/get_outgoing_edge_node_data", format!("get_outgoing_edge_node_data({}) = {:?}", i, got), json!(m_out_nodes), json!(got))); }

    let got: Vec<(u8, u16)> = dag.get_incoming_edges(h[i]).map(|(p, d)| (real.idx(p), *d)).collect();
    if &got != m_inc { return Err(fail("C11/get_incoming_edges", format!("get_incoming_edges({}) = {:?}", i, got), json!(m_inc), json!(got))); }
    let got = idxs(dag.get_incoming_edge_nodes(h[i]).collect());
    if got != m_inc_nodes { return Err(fail("C11/get_incoming_edge_nodes", format!("get_incoming_edge_nodes({}) = {:?}", i, got), json!(m_inc_nodes), json!(got))); }
    let got: Vec<u16> = dag.get_incoming_edge_data(h[i]).copied().collect();
    if got != m_inc_data { return Err(fail("C11/get_incoming_edge_data", format!("get_incoming_edge_data({}) = {:?}", i, got), json!(m_inc_data), json!(got))); }
    let got: Vec<u8> = dag.get_incoming_edge_node_data(h[i]).copied().collect();
    if got != m_inc_nodes { return Err(fail("C11/get_incoming_edge_node_data", format!("get_incoming_edge_node_data({}) = {:?}", i, got), json!(m_inc_nodes), json!(got))); }

    // Mutual symmetry of the real lists (with data).
    for (c, d) in dag.get_outgoing_edges(h[i]) {
      *q += 1;
      if !dag.get_incoming_edges(c).any(|(p, pd)| *p == h[i] && pd == d) {
        return Err(fail("C11/adjacency-symmetry", format!("{} lists child {} but that child does not list {} as parent with the same data", i, real.idx(c), i), json!("symmetric"), obs.to_json()));
      }
    }
    for (p, d) in dag.get_incoming_edges(h[i]) {
      *q += 1;
      if !dag.get_outgoing_edges(p).any(|(c, cd)| *c == h[i] && cd == d) {
        return Err(fail("C11/adjacency-symmetry", format!("{} lists parent {} but that parent does not list {} as child with the same data", i, real.idx(p), i), json!("symmetric"), obs.to_json()));
      }
    }

    // Descendant iterators (one at a time; two at a time further below).
    let mut exp_desc: Vec<u8> = (0..k).filter(|j| reaches(i, *j)).map(|j| j as u8).collect();
    exp_desc.sort();
    *q += 1;
    match dag.descendants_unsorted(h[i]) {
      Err(e) => {
        if model.alive[i] || e != DagError::NodeMissing {
          return Err(fail("C11/descendants_unsorted", format!("descendants_unsorted({}) = Err({:?})", i, e), json!(if model.alive[i] { "Ok" } else { "Err(NodeMissing)" }), json!(format!("Err({:?})", e))));
        }
      }
      Ok(it) => {
        let items: Vec<(u32, u8)> = it.map(|(r, n)| (r, real.idx(&n))).collect();
        if !model.alive[i] {
          return Err(fail("C11/descendants_unsorted", format!("descendants_unsorted({}) = Ok on a removed node", i), json!("Err(NodeMissing)"), json!(items)));
        }
        let mut got: Vec<u8> = items.iter().map(|x| x.1).collect();
        got.sort();
        *q += 1;
        if got != exp_desc {
          return Err(fail("C11/descendants_unsorted", format!("descendants_unsorted({}) yields nodes {:?} (sorted; each must occur once)", i, got), json!(exp_desc), json!(items)));
        }
        for (r, x) in &items {
          *q += 1;
          if obs.rank[*x as usize] != Some(*r) {
            return Err(fail("C11/descendants_unsorted", format!("descendants_unsorted({}) reports rank {} for node {} whose rank is {:?}", i, r, x, obs.rank[*x as usize]), json!(obs.rank[*x as usize]), json!(r)));
          }
        }
      }
    }
    *q += 1;
    match dag.descendants(h[i]) {
      Err(e) => {
        if model.alive[i] || e != DagError::NodeMissing {
          return Err(fail("C11/descendants", format!("descendants({}) = Err({:?})", i, e), json!(if model.alive[i] { "Ok" } else { "Err(NodeMissing)" }), json!(format!("Err({:?})", e))));
        }
      }
      Ok(it) => {
        let items: Vec<u8> = it.map(|n| real.idx(&n)).collect();
        if !model.alive[i] {
          return Err(fail("C11/descendants", format!("descendants({}) = Ok on a removed node", i), json!("Err(NodeMissing)"), json!(items)));
        }
        let mut got = items.clone();
        got.sort();
        *q += 2;
        if got != exp_desc {
          return Err(fail("C11/descendants", format!("descendants({}) yields nodes {:?} (sorted; each must occur once)", i, got), json!(exp_desc), json!(items)));
        }
        let ranks: Vec<Option<u32>> = items.iter().map(|x| obs.rank[*x as usize]).collect();
        if !ranks.windows(2).all(|w| w[0].is_some() && w[0] < w[1]) {
          return Err(fail("C11/descendants", format!("descendants({}) yields {:?} with ranks {:?}, not strictly ascending", i, items, ranks), json!("strictly ascending rank"), json!(ranks)));
        }
        solo_sorted[i] = items;
      }
    }
  }

  // Two descendant iterators alive at the same time: each must yield exactly what it yields alone (checked above:
  // the reachable set, each node once, the sorted variant in ascending rank). For every ordered pair (x, y) where x
  // has at least two descendants (fewer cannot be disturbed into a repetition) and y at least one: both advanced
  // alternately (sorted/sorted, unsorted/unsorted, sorted zipped with unsorted), and nested (for every item of the
  // outer iterator over x, an iterator over y run to completion), for the sorted and the unsorted variant.
  for x in 0..k {
    if !model.alive[x] || solo_sorted[x].len() < 2 { continue; }
    for y in 0..k {
      if !model.alive[y] || solo_sorted[y].is_empty() { continue; }
      let sorted_set = |v: &[u8]| { let mut s = v.to_vec(); s.sort(); s };
      let (want_x, want_y) = (&solo_sorted[x], &solo_sorted[y]);
      let (set_x, set_y) = (sorted_set(want_x), sorted_set(want_y));
      let bad = |how: &str, which: &str, node: usize, got: &[u8], want: &[u8]| {
        fail("C11/descendants-interleaved", format!("{}: the {} iterator over the descendants of {} yields {:?} while another iterator over the descendants of {} is in use; alone it yields {:?}", how, which, node, got, if node == x { y } else { x }, want), json!(want), json!(got))
      };
      let idx = |n: Node| real.idx(&n);
      // (a) alternately, sorted / sorted
      *q += 2;
      {
        let (mut a, mut b) = (dag.descendants(h[x]).ok(), dag.descendants(h[y]).ok());
        let (mut ga, mut gb) = (Vec::new(), Vec::new());
        loop {
          let na = a.as_mut().and_then(|i| i.next());
          let nb = b.as_mut().and_then(|i| i.next());
          if let Some(n) = na { ga.push(idx(n)); }
          if let Some(n) = nb { gb.push(idx(n)); }
          if na.is_none() && nb.is_none() || ga.len() > 4 * k + 4 { break; }
        }
        if &ga != want_x { return Err(bad("advanced alternately", "sorted", x, &ga, want_x)); }
        if &gb != want_y { return Err(bad("advanced alternately", "sorted", y, &gb, want_y)); }
      }
      // (b) alternately, unsorted / unsorted
      *q += 2;
      {
        let (mut a, mut b) = (dag.descendants_unsorted(h[x]).ok(), dag.descendants_unsorted(h[y]).ok());
        let (mut ga, mut gb) = (Vec::new(), Vec::new());
        loop {
          let na = a.as_mut().and_then(|i| i.next());
          let nb = b.as_mut().and_then(|i| i.next());
          if let Some((_, n)) = na { ga.push(idx(n)); }
          if let Some((_, n)) = nb { gb.push(idx(n)); }
          if na.is_none() && nb.is_none() || ga.len() > 4 * k + 4 { break; }
        }
        if sorted_set(&ga) != set_x { return Err(bad("advanced alternately", "unsorted", x, &ga, &set_x)); }
        if sorted_set(&gb) != set_y { return Err(bad("advanced alternately", "unsorted", y, &gb, &set_y)); }
      }
      // (c) sorted over x zipped with unsorted over y (zip stops with the shorter one; the rest of each is drained)
      *q += 2;
      {
        let (mut a, mut b) = (dag.descendants(h[x]).ok(), dag.descendants_unsorted(h[y]).ok());
        let (mut ga, mut gb) = (Vec::new(), Vec::new());
        if let (Some(a), Some(b)) = (a.as_mut(), b.as_mut()) {
          for (n, (_, m)) in a.zip(b) { ga.push(idx(n)); gb.push(idx(m)); }
        }
        if let Some(a) = a.as_mut() { ga.extend(a.map(idx)); }
        if let Some(b) = b.as_mut() { gb.extend(b.map(|(_, m)| idx(m))); }
        // `zip` may have taken one more item from the first iterator than it reported: then exactly one is missing.
        let complete = |got: &[u8], want: &[u8]| got == want || (got.len() + 1 == want.len() && got.iter().all(|g| want.contains(g)) && sorted_set(got).windows(2).all(|w| w[0] != w[1]));
        if !complete(&ga, want_x) { return Err(bad("sorted zipped with unsorted", "sorted", x, &ga, want_x)); }
        if sorted_set(&gb) != set_y { return Err(bad("sorted zipped with unsorted", "unsorted", y, &gb, &set_y)); }
      }
      // (d) nested: for every item of the outer iterator over x, an iterator over y run to completion
      *q += 2;
      {
        let mut ga = Vec::new();
        if let Ok(a) = dag.descendants(h[x]) {
          for n in a {
            ga.push(idx(n));
            let gb: Vec<u8> = dag.descendants(h[y]).map(|b| b.map(idx).collect()).unwrap_or_default();
            if &gb != want_y { return Err(bad("nested (inner, run to completion for every item of the outer)", "sorted", y, &gb, want_y)); }
            if ga.len() > 4 * k + 4 { break; }
          }
        }
        if &ga != want_x { return Err(bad("nested (outer)", "sorted", x, &ga, want_x)); }
        let mut ga = Vec::new();
        if let Ok(a) = dag.descendants_unsorted(h[x]) {
          for (_, n) in a {
            ga.push(idx(n));
            let gb: Vec<u8> = dag.descendants_unsorted(h[y]).map(|b| b.map(|(_, m)| idx(m)).collect()).unwrap_or_default();
            if sorted_set(&gb) != set_y { return Err(bad("nested (inner, run to completion for every item of the outer)", "unsorted", y, &gb, &set_y)); }
            if ga.len() > 4 * k + 4 { break; }
          }
        }
        if sorted_set(&ga) != set_x { return Err(bad("nested (outer)", "unsorted", x, &ga, &set_x)); }
      }
    }
  }

  // Topological comparison, only among alive handles (`topo_cmp` is not defined on removed nodes).
  for i in 0..k {
    for j in 0..k {
      if !(model.alive[i] && model.alive[j] && obs.alive[i] && obs.alive[j]) { continue; }
      *q += 1;
      let got = dag.topo_cmp(h[i], h[j]);
      let (ri, rj) = (obs.rank[i], obs.rank[j]);
      if ri.is_none() || rj.is_none() || got != ri.cmp(&rj) {
        return Err(fail("C11/topo_cmp", format!("topo_cmp({},{}) = {:?} with ranks {:?}, {:?}", i, j, got, ri, rj), json!(format!("{:?}", ri.cmp(&rj))), json!(format!("{:?}", got))));
      }
      if model.edge_data(i as u8, j as u8).is_some() {
        *q += 1;
        if got != std::cmp::Ordering::Less {
          return Err(fail("C11/topo_cmp", format!("topo_cmp({},{}) = {:?} although {}->{} is an edge", i, j, got, i, j), json!("Less"), json!(format!("{:?}", got))));
        }
      }
    }
  }
  Ok(())
}

/// Executes one operation on the real DAG and on (a copy of) the model and evaluates the oracles of `prop`.
/// Returns the observation and model after the operation, or the first failed oracle.
fn step(prop: Prop, real: &mut Real, model: &Model, obs_pre: &Obs, op: Op, marker: u16, stats: &mut Stats) -> Result<(Obs, Model), Fail> {
  let (obs, m2) = step_core(prop, real, model, obs_pre, op, marker, stats)?;
  query_battery(prop, real, &m2, &obs, op, stats)?;
  Ok((obs, m2))
}

/// The operation itself with all oracles that need no further query: results, state comparison, invariants.
fn step_core(prop: Prop, real: &mut Real, model: &Model, obs_pre: &Obs, op: Op, marker: u16, stats: &mut Stats) -> Result<(Obs, Model), Fail> {
  let pre_query = if prop == Prop::C11 { dirty_query(model) } else { None };
  let pid = prop.id();
  let mut m2 = model.clone();
  let m_res = m2.apply(op, marker);
  stats.transitions += 1;

  if let Some((i, j)) = pre_query {
    stats.queries += 1;
    match catch_unwind(AssertUnwindSafe(|| real.dag.contains_transitive_edge(real.handles[i as usize], real.handles[j as usize]))) {
      Ok(true) => {}
      Ok(false) => return Err(fail("C11/contains_transitive_edge", format!("contains_transitive_edge({},{}) = false when asked before {}", i, j, op.render()), json!(true), json!(false))),
      Err(p) => return Err(fail("C11/panic", format!("contains_transitive_edge({},{}) before {} panicked: {}", i, j, op.render(), panic_text(p)), json!(true), json!("panic"))),
    }
  }

  let r_res = match catch_unwind(AssertUnwindSafe(|| real.apply(op, marker))) {
    Ok(r) => r,
    Err(p) => return Err(fail(&format!("{}/panic", pid), format!("{} panicked: {}", op.render(), panic_text(p)), res_json(&m_res), json!("panic"))),
  };
  *stats.outcomes.entry(outcome_label(op, &r_res, model)).or_insert(0) += 1;
  if op == Op::AddNode {
    let k = real.handles.len();
    if let Some(s) = real.slot(k - 1) {
      if (0..k - 1).any(|i| real.slot(i) == Some(s)) {
        stats.slot_reuse += 1;
        *stats.outcomes.entry("add_node -> handle [slot of a removed node reused]").or_insert(0) += 1;
      }
    }
  }
  if let (Op::AddEdge(s, d), Res::Edge(Err(ErrKind::NodeMissing))) = (op, &r_res) {
    // Vacuity marker: a dead handle whose slot is occupied by a younger, alive node was rejected.
    let reused = |x: u8| !model.is_alive(x) && (0..real.handles.len()).any(|o| o != x as usize && model.is_alive(o as u8) && real.slot(o).is_some() && real.slot(o) == real.slot(x as usize));
    if reused(s) || reused(d) {
      *stats.outcomes.entry("add_edge -> Err(NodeMissing) [dead handle whose slot was reused]").or_insert(0) += 1;
    }
  }

  let obs = match catch_unwind(AssertUnwindSafe(|| observe(real))) {
    Ok(o) => o,
    Err(p) => return Err(fail(&format!("{}/panic", pid), format!("observing the graph after {} panicked: {}", op.render(), panic_text(p)), json!("no panic"), json!("panic"))),
  };

  match prop {
    Prop::C10 => {
      stats.queries += 1;
      if r_res.without_data() != m_res.without_data() {
        let name = match op {
          Op::AddNode => "C10/add_node-result",
          Op::AddEdge(_, _) => "C10/add_edge-result",
          Op::RemoveEdge(_, _) => "C10/remove_edge-result",
          Op::RemoveOut(_) => "C10/remove_outgoing_edges_of_node-result",
          Op::RemoveNode(_) => "C10/remove_node-result",
        };
        return Err(fail(name, format!("{} returned {} but the edge set demands {}", op.render(), res_json(&r_res), res_json(&m_res)), res_json(&m_res), res_json(&r_res)));
      }
      if let Res::Edge(Err(_)) = m_res {
        stats.queries += 1;
        if let Some(d) = obs_pre.first_difference(&obs) {
          return Err(fail("C10/rejected-insertion-changed-graph", format!("{} was rejected ({}) but changed the graph: {}", op.render(), res_json(&r_res), d), obs_pre.to_json(), obs.to_json()));
        }
      }
      c10_invariants(&m2, &obs, &mut stats.queries)?;
    }
    Prop::C11 => {
      c11_state(&m2, &obs, &mut stats.queries).map_err(|mut f| {
        f.what = format!("after {}: {}", op.render(), f.what);
        f
      })?;
      if matches!(op, Op::RemoveEdge(_, _) | Op::RemoveOut(_) | Op::RemoveNode(_)) {
        // "Removes exactly those edges and their data": the returned data / (child, data) pairs / flag.
        stats.queries += 1;
        if r_res != m_res {
          return Err(fail("C11/removal-result", format!("{} returned {} but removed is {}", op.render(), res_json(&r_res), res_json(&m_res)), res_json(&m_res), res_json(&r_res)));
        }
      }
      if let Res::Edge(Ok(false)) = m_res {
        stats.queries += 1;
        if let Some(d) = obs_pre.first_difference(&obs) {
          return Err(fail("C11/reinsertion-changed-state", format!("{} re-inserted an existing edge but changed the observable state: {}", op.render(), d), obs_pre.to_json(), obs.to_json()));
        }
      }
    }
  }
  Ok((obs, m2))
}

/// C11: the battery of queries on the state after `op` (nothing for C10).
fn query_battery(prop: Prop, real: &Real, m2: &Model, obs: &Obs, op: Op, stats: &mut Stats) -> Result<(), Fail> {
  if prop != Prop::C11 { return Ok(()); }
  let mut q = 0u64;
  let res = catch_unwind(AssertUnwindSafe(|| c11_queries(real, m2, obs, &mut q)));
  stats.queries += q;
  stats.batteries += 1;
  match res {
    Ok(r) => r.map_err(|mut f| {
      f.what = format!("after {}: {}", op.render(), f.what);
      f
    }),
    Err(p) => Err(fail("C11/panic", format!("a query after {} panicked: {}", op.render(), panic_text(p)), json!("no panic"), json!("panic"))),
  }
}

// ---------------------------------------------------------------------------------------------------------------
// Breadth-first search
// ---------------------------------------------------------------------------------------------------------------

/// What a search enumerates.
#[derive(Clone, Copy, PartialEq, Eq, Debug)]
pub enum Mode {
  /// The full alphabet over all handles ever created, one-step taint, slot assignment in the key.
  Full,
  /// Larger graphs at lower cost: first `nodes_ever_created` times `add_node`, then only `add_edge(i, j)` for all
  /// ordered pairs (self loops, re-insertions and cycle-closing insertions included) while fewer than `max_edges`
  /// edges are present; with `max_edges` edges present only the insertions that must not add an edge. No removals,
  /// hence no dead handles and no slot reuse; no taint. States are merged MODULO RENAMING OF THE NODES: every node is
  /// renamed to its rank (ranks are a bijection onto 1..n, otherwise no renaming is done), which is a canonical form
  /// under all n! permutations of the handles. This symmetry reduction is exact for implementations that treat node
  /// keys opaquely (module documentation, point 1: equal / hash / slotmap lookup only; the order in which hash sets
  /// are iterated never reaches an observable because change sets are sorted by rank before use); the `Full` search
  /// does not use it.
  EdgesOnly { max_edges: usize },
}

#[derive(Clone, Debug)]
pub struct Bounds {
  pub mode: Mode,
  pub nodes_ever_created: usize,
  pub state_cap: usize,
  pub wall_cap_s: f64,
  pub threads: usize,
  /// C11: run the query battery after EVERY transition (true), or only after transitions into a state that was not
  /// yet known when the current level started (false). The battery's answers are part of a state's future, so the
  /// second form leans on the same argument as merging states at all; the state comparison against the model and
  /// all other oracles run after every transition in both forms.
  pub battery_after_every_transition: bool,
}

#[derive(Debug)]
pub struct SearchOut {
  pub bounds: Bounds,
  pub states: usize,
  pub stats: Stats,
  /// Number of states first discovered at each depth (index = depth = length of the shortest path).
  pub level_sizes: Vec<usize>,
  pub fixed_point: bool,
  pub cap_hit: Option<&'static str>,
  /// All operation sequences of length <= this were executed and checked (modulo exact state merging).
  pub depth_completely_covered: usize,
  pub max_depth: usize,
  /// Kept violations, shortest first: (operation path including the failing operation, failed oracle).
  pub fails: Vec<(Vec<Op>, Fail)>,
  pub violating_transitions: u64,
  pub samples: Vec<Vec<String>>,
  pub wall_s: f64,
  /// Distinct states when the (hidden) slot assignment is ignored; computed at a fixed point only.
  pub states_modulo_slots: Option<usize>,
  /// States whose last operation changed nothing observable (observable state + that operation as taint).
  pub tainted_states: usize,
  /// Is the slot assignment known (the `Debug` form of `Node` understood) and therefore part of the key?
  pub slot_signature_in_key: bool,
}

/// FNV-1a for the state table (keys are compared byte by byte as ever; only the bucket choice is cheaper than SipHash).
#[derive(Default, Clone, Copy)]
struct Fnv(u64);

impl std::hash::Hasher for Fnv {
  fn finish(&self) -> u64 { self.0 ^ (self.0 >> 29) }
  fn write(&mut self, bytes: &[u8]) {
    let mut h = if self.0 == 0 { 0xcbf29ce484222325 } else { self.0 };
    for b in bytes { h = (h ^ *b as u64).wrapping_mul(0x100000001b3); }
    self.0 = h;
  }
}

type FnvBuild = std::hash::BuildHasherDefault<Fnv>;

struct Store {
  keys: HashMap<Box<[u8]>, u32, FnvBuild>,
  parent: Vec<u32>,
  via: Vec<Op>,
  /// Did `via` leave the key of `parent` unchanged (then this state is `parent` tainted with `via`)?
  tainted: Vec<bool>,
}

impl Store {
  fn path_of(&self, mut id: u32) -> Vec<Op> {
    let mut p = Vec::new();
    while id != 0 {
      p.push(self.via[id as usize]);
      id = self.parent[id as usize];
    }
    p.reverse();
    p
  }
}

struct ChunkOut {
  succ: Vec<(u32, Op, Box<[u8]>, bool)>,
  fails: Vec<(u32, Op, Fail)>,
  n_fails: u64,
  stats: Stats,
}

/// Replays `path` on a fresh real DAG. A panic here is an engine error: the path was executed without panic before.
fn replay_real(path: &[Op], pre_queries: &[Option<(u8, u8)>], known_slots: Option<&Vec<Option<u32>>>, stats: &mut Stats) -> Real {
  let mut real = Real::new();
  real.known_slots = known_slots.cloned();
  let r = catch_unwind(AssertUnwindSafe(|| {
    for (p, op) in path.iter().enumerate() {
      if let Some((i, j)) = pre_queries[p] { real.dag.contains_transitive_edge(real.handles[i as usize], real.handles[j as usize]); }
      real.apply(*op, marker_for(p));
    }
  }));
  if r.is_err() { engine_error(&format!("replaying the recorded path {:?} panicked", render_path(path))); }
  stats.replayed_ops += path.len() as u64;
  real
}

/// Expands one state: every operation of its alphabet, each on a freshly replayed DAG. The first replay is observed
/// and must reproduce the recorded key (engine error otherwise); the later replays of the same path are not observed
/// again before the operation, but every failed oracle is confirmed by `confirm_failure` before it is reported.
fn expand(prop: Prop, bounds: &Bounds, store: &Store, id: u32, out: &mut ChunkOut) {
  const KEEP_PER_CHUNK: usize = 6;
  let path = store.path_of(id);
  let mut model = Model::new();
  let mut pre_queries = Vec::with_capacity(path.len());
  for (p, op) in path.iter().enumerate() {
    pre_queries.push(if prop == Prop::C11 { dirty_query(&model) } else { None });
    model.apply(*op, marker_for(p));
  }
  let marker = marker_for(path.len());
  let taint_pre = if store.tainted[id as usize] { Some(store.via[id as usize]) } else { None };
  let mut pre: Option<(Obs, Box<[u8]>)> = None; // observation and untainted key of this state
  let mut slots: Option<Vec<Option<u32>>> = None; // slots of this state's handles, parsed in the first replay
  let mode = bounds.mode;
  for op in alphabet_for(bounds, &model) {
    let mut real = replay_real(&path, &pre_queries, slots.as_ref(), &mut out.stats);
    if slots.is_none() { slots = Some(real.slots.clone()); }
    if pre.is_none() {
      let obs_pre = match catch_unwind(AssertUnwindSafe(|| observe(&real))) {
        Ok(o) => o,
        Err(_) => engine_error(&format!("observing the replayed path {:?} panicked", render_path(&path))),
      };
      let key_pre = state_key(prop, mode, &obs_pre, &model, &real, taint_pre);
      if store.keys.get(&key_pre) != Some(&id) {
        engine_error(&format!("replaying {:?} does not reproduce the recorded state {}", render_path(&path), id));
      }
      pre = Some((obs_pre, with_taint(&key_pre, None)));
    }
    let (obs_pre, key_pre_clean) = pre.as_ref().unwrap();
    if taint_pre.is_some() { out.stats.after_noop += 1; }
    let outcome = step_core(prop, &mut real, &model, obs_pre, op, marker, &mut out.stats).and_then(|(obs, m2)| {
      // Nothing observable changed: the successor is this state (without its own taint) tainted with `op`.
      // (Shortcut: identical observation and model give identical bytes, no need to encode them again.)
      let taint = |k: &[u8]| if mode == Mode::Full { with_taint(k, Some(op)) } else { k.to_vec().into_boxed_slice() };
      let (noop, key) = if op != Op::AddNode && obs == *obs_pre && m2 == model {
        (true, taint(key_pre_clean))
      } else {
        let clean = state_key(prop, mode, &obs, &m2, &real, None);
        let noop = clean[..] == key_pre_clean[..];
        (noop, if noop { taint(&clean) } else { clean })
      };
      let noop = noop && mode == Mode::Full; // only the full search keeps no-op successors as (tainted) states
      let known = store.keys.contains_key(&key);
      if bounds.battery_after_every_transition || !known { query_battery(prop, &real, &m2, &obs, op, &mut out.stats)?; }
      Ok((key, noop, known))
    });
    match outcome {
      Ok((key, noop, known)) => {
        if !known { out.succ.push((id, op, key, noop)); }
      }
      Err(_) => {
        let f = confirm_failure(prop, bounds, store, id, &path, &pre_queries, &model, taint_pre, op);
        out.n_fails += 1;
        if out.fails.len() < KEEP_PER_CHUNK { out.fails.push((id, op, f)); }
      }
    }
  }
}

/// Re-executes a failed transition from scratch: fresh replay, the pre-state observed and required to be the recorded
/// one, all oracles of the property. Only a failure that shows again is reported; anything else is an engine error
/// (non-reproducible execution), never a verdict.
fn confirm_failure(prop: Prop, bounds: &Bounds, store: &Store, id: u32, path: &[Op], pre_queries: &[Option<(u8, u8)>], model: &Model, taint_pre: Option<Op>, op: Op) -> Fail {
  let mut scratch = Stats::default();
  let mut real = replay_real(path, pre_queries, None, &mut scratch);
  let obs_pre = match catch_unwind(AssertUnwindSafe(|| observe(&real))) {
    Ok(o) => o,
    Err(_) => engine_error(&format!("observing the replayed path {:?} panicked", render_path(path))),
  };
  if store.keys.get(&state_key(prop, bounds.mode, &obs_pre, model, &real, taint_pre)) != Some(&id) {
    engine_error(&format!("replaying {:?} does not reproduce the recorded state {}", render_path(path), id));
  }
  match step(prop, &mut real, model, &obs_pre, op, marker_for(path.len()), &mut scratch) {
    Err(f) => f,
    Ok(_) => engine_error(&format!("an oracle failed after {:?} followed by {}, but not when the same sequence was executed again", render_path(path), op.render())),
  }
}

/// Level-synchronous parallel BFS. Results do not depend on thread scheduling: the frontier is cut into chunks of
/// fixed size, chunk results are merged in chunk order, and new states get their ids in that order.
pub fn search(prop: Prop, bounds: &Bounds) -> SearchOut {
  const CHUNK: usize = 32;
  const BLOCK: usize = 1 << 16;
  const KEEP_PER_ORACLE: usize = 2;
  const KEEP_TOTAL: usize = 5;
  // Once a violation is known the verdict is fixed; the search goes on for this many further levels (to let
  // violations of other oracles surface, shortest first) and then stops instead of wading through the possibly huge
  // state space of a defective implementation.
  const EXTRA_LEVELS_AFTER_VIOLATION: usize = 2;
  let mut first_violation_depth: Option<usize> = None;
  let mut readd_sample: Option<u32> = None; // latest state reached by an add_node that follows a remove_node
  let mut tainted_sample: Option<u32> = None; // latest state whose last operation changed nothing observable
  let start = Instant::now();
  let mut store = Store { keys: HashMap::default(), parent: vec![0], via: vec![Op::AddNode], tainted: vec![false] };
  {
    let real = Real::new();
    let key = state_key(prop, bounds.mode, &observe(&real), &Model::new(), &real, None);
    store.keys.insert(key, 0);
  }
  let mut stats = Stats::default();
  let mut level_sizes = vec![1usize];
  let mut frontier: Vec<u32> = vec![0];
  let mut fails: Vec<(Vec<Op>, Fail)> = Vec::new();
  let mut violating_transitions = 0u64;
  let mut cap_hit = None;
  let mut depth = 0usize; // depth of the states in `frontier`
  let mut fixed_point = false;
  let mut depth_completely_covered = 0usize;

  'levels: loop {
    if frontier.is_empty() { fixed_point = true; break; }
    if let Some(v) = first_violation_depth {
      if depth > v + EXTRA_LEVELS_AFTER_VIOLATION { cap_hit = Some("stopped_after_violation"); break; }
    }
    let mut next: Vec<u32> = Vec::new();
    let n_blocks = (frontier.len() + BLOCK - 1) / BLOCK;
    for (block_no, block) in frontier.chunks(BLOCK).enumerate() {
      let chunks: Vec<&[u32]> = block.chunks(CHUNK).collect();
      let cursor = AtomicUsize::new(0);
      let n_threads = bounds.threads.max(1).min(chunks.len().max(1));
      let store_ref = &store;
      let chunks_ref = &chunks;
      let cursor_ref = &cursor;
      let mut results: Vec<(usize, ChunkOut)> = std::thread::scope(|s| {
        let workers: Vec<_> = (0..n_threads)
          .map(|_| {
            s.spawn(move || {
              let mut mine = Vec::new();
              loop {
                let c = cursor_ref.fetch_add(1, AtomicOrdering::Relaxed);
                if c >= chunks_ref.len() { break; }
                let mut out = ChunkOut { succ: Vec::new(), fails: Vec::new(), n_fails: 0, stats: Stats::default() };
                for id in chunks_ref[c] { expand(prop, bounds, store_ref, *id, &mut out); }
                mine.push((c, out));
              }
              mine
            })
          })
          .collect();
        let mut all = Vec::new();
        for w in workers {
          match w.join() {
            Ok(v) => all.extend(v),
            Err(p) => engine_error(&format!("search worker panicked: {}", panic_text(p))),
          }
        }
        all
      });
      results.sort_by_key(|r| r.0);
      for (_, out) in results {
        stats.absorb(&out.stats);
        violating_transitions += out.n_fails;
        for (id, op, f) in out.fails {
          if fails.len() < KEEP_TOTAL && fails.iter().filter(|x| x.1.oracle == f.oracle).count() < KEEP_PER_ORACLE {
            let mut path = store.path_of(id);
            path.push(op);
            fails.push((path, f));
          }
        }
        for (parent, op, key, noop) in out.succ {
          if store.keys.contains_key(&key) { continue; }
          let id = store.parent.len() as u32;
          if op == Op::AddNode && store.path_of(parent).iter().any(|o| matches!(o, Op::RemoveNode(_))) { readd_sample = Some(id); }
          store.keys.insert(key, id);
          store.parent.push(parent);
          store.via.push(op);
          store.tainted.push(noop);
          if noop { tainted_sample = Some(id); }
          next.push(id);
        }
      }
      if store.parent.len() >= bounds.state_cap { cap_hit = Some("state_cap"); }
      else if start.elapsed().as_secs_f64() > bounds.wall_cap_s { cap_hit = Some("wall_cap"); }
      if cap_hit.is_some() {
        // Was this the last block of the level, with nothing new? Then the fixed point was reached after all.
        let last_block = block_no + 1 == n_blocks;
        if !next.is_empty() { level_sizes.push(next.len()); }
        if last_block {
          depth_completely_covered = depth + 1;
          if next.is_empty() { fixed_point = true; cap_hit = None; }
        }
        break 'levels;
      }
    }
    depth_completely_covered = depth + 1;
    if violating_transitions > 0 && first_violation_depth.is_none() { first_violation_depth = Some(depth); }
    if next.is_empty() { fixed_point = true; break; }
    level_sizes.push(next.len());
    depth += 1;
    frontier = next;
  }

  let states = store.parent.len();
  let max_depth = level_sizes.len() - 1;
  // A few of the explored paths, at fixed positions of the (deterministic) discovery order.
  let mut sample_ids: Vec<u32> = vec![states as u32 - 1, (states / 2) as u32, (states / 4) as u32, (3 * (states / 4)) as u32, (states / 10) as u32];
  sample_ids.extend(readd_sample);
  sample_ids.extend(tainted_sample);
  sample_ids.dedup();
  let samples = sample_ids.into_iter().map(|id| render_path(&store.path_of(id))).filter(|p| !p.is_empty()).collect();
  let states_modulo_slots = if fixed_point {
    Some(store.keys.keys().map(|k| strip_slot_signature(k)).collect::<std::collections::HashSet<&[u8]>>().len())
  } else {
    None
  };
  let slot_signature_in_key = bounds.mode == Mode::Full && store.keys.keys().all(|k| *k.last().unwrap() != 0);
  SearchOut {
    bounds: bounds.clone(), states, stats, level_sizes, fixed_point, cap_hit, depth_completely_covered, max_depth,
    fails, violating_transitions, samples, wall_s: start.elapsed().as_secs_f64(), states_modulo_slots, slot_signature_in_key,
    tainted_states: store.tainted.iter().filter(|t| **t).count(),
  }
}

// ---------------------------------------------------------------------------------------------------------------
// Rank-distance sweep: size thresholds that no small-graph search can reach
// ---------------------------------------------------------------------------------------------------------------
//
// For every distance d in 1..=D and every shape below: create the nodes (node i gets rank i + 1), insert the shape's
// pre-existing edges (all along the order, so no reordering happens), then insert the edge from the node ranked d
// positions AFTER `lo` to `lo`: the affected region of that insertion spans exactly d + 1 ranks. Then the same
// insertion once more and the reverse edge. After every operation the invariants of the property are checked
// (C10: result, no panic, ranks a permutation of 1..n, every edge upwards in rank, a rejection changes nothing;
// C11: all adjacency lists with order and data against the reference, a re-insertion changes nothing), and at three
// checkpoints (before the insertion under test, after it, at the end) the C11 query battery over all ordered pairs of
// a set of up to ~16 interesting nodes (end points of the region and of the shape's edges, neighbours, first, last,
// middle). Exhaustive over d in the stated range for these shapes; indices are `usize`, the machinery of the
// state-space search (u8 handles) is not used.

#[derive(Clone, Debug)]
struct SweepCase {
  d: usize,
  shape: &'static str,
  nodes: usize,
  /// Pre-existing edges, then the insertion under test, then its repetition, then the reverse edge.
  ops: Vec<(usize, usize)>,
  /// Index in `ops` of the insertion under test.
  test_at: usize,
}

const SWEEP_SHAPES: [&str; 12] = [
  "plain", "plain-offset", "forward-chain", "backward-chain", "both-chains", "both-chains-offset", "spread", "fan",
  "cycle-direct", "cycle-mid", "cycle-pending", "cycle-chain",
];

/// The case of `shape` at distance `d`, if the shape fits into a region of that size.
fn sweep_case(d: usize, shape: &'static str) -> Option<SweepCase> {
  let offset = if shape.ends_with("-offset") { 3 } else { 0 };
  let (lo, hi) = (offset, offset + d);
  let nodes = hi + 1 + if offset > 0 { 2 } else { 0 };
  let mid = lo + d / 2;
  let setup: Vec<(usize, usize)> = match shape {
    "plain" | "plain-offset" => vec![],
    "forward-chain" if d >= 3 => vec![(lo, lo + 1), (lo + 1, lo + 2)],
    "backward-chain" if d >= 3 => vec![(hi - 2, hi - 1), (hi - 1, hi)],
    "both-chains" | "both-chains-offset" if d >= 5 => {
      let mut v = vec![(lo, lo + 1), (lo + 1, lo + 2), (hi - 2, hi - 1), (hi - 1, hi)];
      if d >= 9 { v.push((mid, mid + 1)); } // a bystander inside the region
      v
    }
    "spread" if d >= 3 => vec![(lo, mid), (mid + 1, hi)],
    "fan" if d >= 5 => vec![(lo, lo + 1), (lo, lo + 2), (hi - 2, hi), (hi - 1, hi)],
    "cycle-direct" => vec![(lo, hi)],
    "cycle-mid" if d >= 2 => vec![(lo, mid), (mid, hi)],
    "cycle-pending" if d >= 4 => vec![(lo, lo + 1), (lo, mid), (mid, hi)],
    "cycle-chain" if d >= 2 => (lo..hi).map(|i| (i, i + 1)).collect(),
    _ => return None,
  };
  let test_at = setup.len();
  let mut ops = setup;
  ops.extend([(hi, lo), (hi, lo), (lo, hi)]);
  Some(SweepCase { d, shape, nodes, ops, test_at })
}

/// Reference for the sweep: adjacency lists in insertion order with data.
struct SweepRef {
  out: Vec<Vec<(usize, u32)>>,
  inc: Vec<Vec<(usize, u32)>>,
  edges: Vec<(usize, usize)>,
}

impl SweepRef {
  fn reach(&self, from: usize) -> Vec<bool> {
    let mut seen = vec![false; self.out.len()];
    let mut stack = vec![from];
    while let Some(x) = stack.pop() {
      for (c, _) in &self.out[x] {
        if !seen[*c] { seen[*c] = true; stack.push(*c); }
      }
    }
    seen
  }
  fn has(&self, s: usize, d: usize) -> Option<u32> { self.out[s].iter().find(|c| c.0 == d).map(|c| c.1) }
}

/// Ranks and adjacency of the real DAG as reported by its API.
#[derive(PartialEq, Eq, Clone, Debug)]
struct SweepSnap {
  len: usize,
  rank: Vec<Option<u32>>,
  unknown: usize,
  out: Vec<Vec<(usize, u32)>>,
  inc: Vec<Vec<(usize, u32)>>,
}

#[derive(Debug, Default, Clone)]
struct SweepOut {
  cases: u64,
  operations: u64,
  queries: u64,
  cycles_rejected: u64,
  reorderings: u64,
  fails: Vec<(SweepCase, usize, Fail)>,
}

fn sweep_ops_text(case: &SweepCase, upto: usize) -> Vec<String> {
  let mut v = vec![format!("add_node x {}", case.nodes)];
  v.extend(case.ops[..=upto].iter().map(|(s, d)| format!("add_edge({},{})", s, d)));
  v
}

/// Runs one case with the oracles of `prop`; returns the first failure (index of the failing operation, oracle).
fn run_sweep_case(prop: Prop, case: &SweepCase, out: &mut SweepOut) -> Option<(usize, Fail)> {
  let pid = prop.id();
  let n = case.nodes;
  let mut dag: DAG<u32, u32> = DAG::new();
  let handles: Vec<Node> = (0..n).map(|i| dag.add_node(i as u32)).collect();
  let index: HashMap<Node, usize> = handles.iter().enumerate().map(|(i, h)| (*h, i)).collect();
  let mut reference = SweepRef { out: vec![Vec::new(); n], inc: vec![Vec::new(); n], edges: Vec::new() };
  out.cases += 1;

  let snapshot = |dag: &DAG<u32, u32>| -> SweepSnap {
    let mut rank = vec![None; n];
    let mut unknown = 0;
    for (r, node) in dag.iter_unsorted() {
      match index.get(&node) { Some(i) => rank[*i] = Some(r), None => unknown += 1 }
    }
    let ix = |x: &Node| index.get(x).copied().unwrap_or(usize::MAX);
    SweepSnap {
      len: dag.len(), rank, unknown,
      out: handles.iter().map(|h| dag.get_outgoing_edge_nodes(h).map(|c| (ix(c), dag.get_edge_data(h, c).copied().unwrap_or(0))).collect()).collect(),
      inc: handles.iter().map(|h| dag.get_incoming_edge_nodes(h).map(|p| (ix(p), dag.get_edge_data(p, h).copied().unwrap_or(0))).collect()).collect(),
    }
  };
  let brief = |snap: &SweepSnap, around: &[usize]| -> Value {
    json!(around.iter().map(|i| json!({"node": i, "rank": snap.rank[*i], "out (child,data)": snap.out[*i], "in (parent,data)": snap.inc[*i]})).collect::<Vec<_>>())
  };

  // The interesting nodes for the query battery.
  let mut interesting: Vec<usize> = vec![0, n - 1, n / 2];
  let (hi, lo) = case.ops[case.test_at];
  for x in [lo, hi, lo + 1, hi.saturating_sub(1), (lo + hi) / 2] { if x < n { interesting.push(x); } }
  for (s, d) in case.ops.iter().take(case.test_at).take(3).chain(case.ops.iter().take(case.test_at).rev().take(3)) { interesting.push(*s); interesting.push(*d); }
  interesting.sort();
  interesting.dedup();

  let mut before = match catch_unwind(AssertUnwindSafe(|| snapshot(&dag))) {
    Ok(s) => s,
    Err(p) => return Some((0, fail(&format!("{}/panic", pid), format!("reading the graph of {} fresh nodes panicked: {}", n, panic_text(p)), json!("no panic"), json!("panic")))),
  };
  for (at, (s, d)) in case.ops.iter().copied().enumerate() {
    let marker = (at + 1) as u32;
    let what = format!("add_edge({},{}) [shape {}, region of {} ranks, {} nodes]", s, d, case.shape, case.d + 1, n);
    // Checkpoint before the insertion under test: the queries must not be disturbed by, nor disturb, the insertion.
    if prop == Prop::C11 && at == case.test_at {
      if let Some(f) = sweep_battery(&dag, &handles, &index, &reference, &before, &interesting, &mut out.queries, &what, "before") { return Some((at.saturating_sub(1), f)); }
    }
    let existing = reference.has(s, d);
    let expected: Result<bool, ErrKind> = if s == d || reference.reach(d)[s] { Err(ErrKind::CycleDetected) } else if existing.is_some() { Ok(false) } else { Ok(true) };
    if expected == Ok(true) {
      reference.out[s].push((d, marker));
      reference.inc[d].push((s, marker));
      reference.edges.push((s, d));
    }
    out.operations += 1;
    let got = match catch_unwind(AssertUnwindSafe(|| dag.add_edge(handles[s], handles[d], marker))) {
      Ok(Ok(b)) => Ok(b),
      Ok(Err(DagError::CycleDetected)) => Err(ErrKind::CycleDetected),
      Ok(Err(DagError::NodeMissing)) => Err(ErrKind::NodeMissing),
      Err(p) => return Some((at, fail(&format!("{}/panic", pid), format!("{} panicked: {}", what, panic_text(p)), json!(format!("{:?}", expected)), json!("panic")))),
    };
    if expected == Err(ErrKind::CycleDetected) { out.cycles_rejected += 1; }
    let after = match catch_unwind(AssertUnwindSafe(|| snapshot(&dag))) {
      Ok(s) => s,
      Err(p) => return Some((at, fail(&format!("{}/panic", pid), format!("reading the graph after {} panicked: {}", what, panic_text(p)), json!("no panic"), json!("panic")))),
    };
    if after.rank != before.rank { out.reorderings += 1; }
    let around = [s, d];
    match prop {
      Prop::C10 => {
        out.queries += 3;
        if got != expected {
          return Some((at, fail("C10/add_edge-result", format!("{} returned {:?} but the edge set demands {:?}", what, got, expected), json!(format!("{:?}", expected)), json!(format!("{:?}", got)))));
        }
        if expected.is_err() && after != before {
          return Some((at, fail("C10/rejected-insertion-changed-graph", format!("{} was rejected but changed ranks or adjacency", what), brief(&before, &around), brief(&after, &around))));
        }
        if after.len != n || after.unknown > 0 {
          return Some((at, fail("C10/len", format!("after {}: len() = {}, {} unknown nodes listed", what, after.len, after.unknown), json!(n), json!(after.len))));
        }
        let mut taken = vec![false; n + 1];
        for i in 0..n {
          out.queries += 1;
          match after.rank[i] {
            Some(r) if r >= 1 && r as usize <= n && !taken[r as usize] => taken[r as usize] = true,
            r => return Some((at, fail("C10/rank-bijection", format!("after {}: rank {:?} of node {} is missing, outside 1..={} or held twice", what, r, i, n), json!(format!("a permutation of 1..={}", n)), brief(&after, &[i])))),
          }
        }
        for (es, ed) in reference.edges.iter().copied().chain((0..n).flat_map(|i| after.out[i].iter().map(move |c| (i, c.0)))) {
          out.queries += 1;
          if ed >= n || !(after.rank[es] < after.rank[ed]) {
            return Some((at, fail("C10/edge-order", format!("after {}: edge {}->{} has rank(src)={:?}, rank(dst)={:?}", what, es, ed, after.rank[es], after.rank.get(ed)), json!("rank(src) < rank(dst)"), brief(&after, &[es]))));
          }
        }
      }
      Prop::C11 => {
        for i in 0..n {
          out.queries += 2;
          if after.out[i] != reference.out[i] {
            return Some((at, fail("C11/outgoing-edges", format!("after {}: outgoing (child,data) list of node {} is {:?}, the true edge set in insertion order gives {:?}", what, i, after.out[i], reference.out[i]), json!(reference.out[i]), json!(after.out[i]))));
          }
          if after.inc[i] != reference.inc[i] {
            return Some((at, fail("C11/incoming-edges", format!("after {}: incoming (parent,data) list of node {} is {:?}, the true edge set in insertion order gives {:?}", what, i, after.inc[i], reference.inc[i]), json!(reference.inc[i]), json!(after.inc[i]))));
          }
        }
        out.queries += 1;
        if expected == Ok(false) && after != before {
          return Some((at, fail("C11/reinsertion-changed-state", format!("{} re-inserted an existing edge but changed ranks or adjacency", what), brief(&before, &around), brief(&after, &around))));
        }
        if at == case.test_at || at + 1 == case.ops.len() {
          if let Some(f) = sweep_battery(&dag, &handles, &index, &reference, &after, &interesting, &mut out.queries, &what, "after") { return Some((at, f)); }
        }
      }
    }
    before = after;
  }
  None
}

/// The C11 queries over all ordered pairs of the interesting nodes, against the reference.
fn sweep_battery(dag: &DAG<u32, u32>, handles: &[Node], index: &HashMap<Node, usize>, reference: &SweepRef, snap: &SweepSnap, interesting: &[usize], q: &mut u64, what: &str, when: &str) -> Option<Fail> {
  let res = catch_unwind(AssertUnwindSafe(|| -> Option<Fail> {
    let mut count = 0u64;
    let r = (|| {
      let ix = |x: &Node| index.get(x).copied().unwrap_or(usize::MAX);
      for &i in interesting {
        let h = handles[i];
        let reach = reference.reach(i);
        count += 2;
        if !dag.contains_node(h) || dag.get_node_data(h).copied() != Some(i as u32) {
          return Some(fail("C11/contains_node", format!("{} {}: node {} is not contained or carries wrong data", when, what, i), json!(i), json!(dag.get_node_data(h))));
        }
        count += 4;
        let got: Vec<(usize, u32)> = dag.get_outgoing_edges(h).map(|(c, d)| (ix(c), *d)).collect();
        if got != reference.out[i] { return Some(fail("C11/get_outgoing_edges", format!("{} {}: get_outgoing_edges({}) = {:?}", when, what, i, got), json!(reference.out[i]), json!(got))); }
        let got: Vec<u32> = dag.get_outgoing_edge_node_data(h).copied().collect();
        if got != reference.out[i].iter().map(|c| c.0 as u32).collect::<Vec<_>>() { return Some(fail("C11/get_outgoing_edge_node_data", format!("{} {}: get_outgoing_edge_node_data({}) = {:?}", when, what, i, got), json!(reference.out[i]), json!(got))); }
        let got: Vec<(usize, u32)> = dag.get_incoming_edges(h).map(|(p, d)| (ix(p), *d)).collect();
        if got != reference.inc[i] { return Some(fail("C11/get_incoming_edges", format!("{} {}: get_incoming_edges({}) = {:?}", when, what, i, got), json!(reference.inc[i]), json!(got))); }
        let got: Vec<u32> = dag.get_incoming_edge_data(h).copied().collect();
        if got != reference.inc[i].iter().map(|c| c.1).collect::<Vec<_>>() { return Some(fail("C11/get_incoming_edge_data", format!("{} {}: get_incoming_edge_data({}) = {:?}", when, what, i, got), json!(reference.inc[i]), json!(got))); }

        let mut expected: Vec<usize> = (0..reach.len()).filter(|j| reach[*j]).collect();
        expected.sort();
        count += 2;
        match dag.descendants_unsorted(h) {
          Err(e) => return Some(fail("C11/descendants_unsorted", format!("{} {}: descendants_unsorted({}) = Err({:?})", when, what, i, e), json!("Ok"), json!(format!("{:?}", e)))),
          Ok(it) => {
            let items: Vec<(u32, usize)> = it.map(|(r, x)| (r, ix(&x))).collect();
            let mut got: Vec<usize> = items.iter().map(|x| x.1).collect();
            got.sort();
            if got != expected || items.iter().any(|(r, x)| snap.rank.get(*x).copied().flatten() != Some(*r)) {
              return Some(fail("C11/descendants_unsorted", format!("{} {}: descendants_unsorted({}) yields (rank,node) {:?}", when, what, i, items), json!(expected), json!(items)));
            }
          }
        }
        match dag.descendants(h) {
          Err(e) => return Some(fail("C11/descendants", format!("{} {}: descendants({}) = Err({:?})", when, what, i, e), json!("Ok"), json!(format!("{:?}", e)))),
          Ok(it) => {
            let items: Vec<usize> = it.map(|x| ix(&x)).collect();
            let mut got = items.clone();
            got.sort();
            let ranks: Vec<Option<u32>> = items.iter().map(|x| snap.rank.get(*x).copied().flatten()).collect();
            if got != expected || !ranks.windows(2).all(|w| w[0].is_some() && w[0] < w[1]) {
              return Some(fail("C11/descendants", format!("{} {}: descendants({}) yields {:?} with ranks {:?}", when, what, i, items, ranks), json!(expected), json!(items)));
            }
          }
        }
        for (pos, &j) in interesting.iter().enumerate() {
          let g = handles[j];
          let data = reference.has(i, j);
          count += 5;
          if dag.contains_edge(h, g) != data.is_some() || dag.get_edge_data(h, g).copied() != data {
            return Some(fail("C11/contains_edge", format!("{} {}: contains_edge / get_edge_data({},{}) = {} / {:?}", when, what, i, j, dag.contains_edge(h, g), dag.get_edge_data(h, g)), json!(data), json!(dag.get_edge_data(h, g))));
          }
          let want = i != j && reach[j];
          let (r1, r2) = (dag.contains_transitive_edge(h, g), dag.contains_transitive_edge(h, g));
          let other = handles[interesting[(pos + 1) % interesting.len()]];
          dag.contains_transitive_edge(other, g);
          let r3 = dag.contains_transitive_edge(h, g);
          if r1 != want || r2 != want || r3 != want {
            return Some(fail("C11/contains_transitive_edge", format!("{} {}: contains_transitive_edge({},{}) answered {}, {} and, after another query, {}", when, what, i, j, r1, r2, r3), json!(want), json!([r1, r2, r3])));
          }
          let cmp = dag.topo_cmp(h, g);
          if cmp != snap.rank[i].cmp(&snap.rank[j]) || (data.is_some() && cmp != std::cmp::Ordering::Less) {
            return Some(fail("C11/topo_cmp", format!("{} {}: topo_cmp({},{}) = {:?} with ranks {:?}, {:?}", when, what, i, j, cmp, snap.rank[i], snap.rank[j]), json!("by rank; Less along an edge"), json!(format!("{:?}", cmp))));
          }
        }
      }
      None
    })();
    *q += count;
    r
  }));
  match res {
    Ok(r) => r,
    Err(p) => Some(fail("C11/panic", format!("a query {} {} panicked: {}", when, what, panic_text(p)), json!("no panic"), json!("panic"))),
  }
}

/// All shapes for all d in 1..=max_d, distances spread over the threads; deterministic (results merged by d, shape).
fn sweep(prop: Prop, max_d: usize, threads: usize) -> SweepOut {
  let cursor = AtomicUsize::new(1);
  let mut parts: Vec<(usize, SweepOut)> = std::thread::scope(|s| {
    let workers: Vec<_> = (0..threads.max(1)).map(|_| {
      let cursor = &cursor;
      s.spawn(move || {
        let mut mine = Vec::new();
        loop {
          // Large distances first would balance better, but order does not matter for the result.
          let d = cursor.fetch_add(1, AtomicOrdering::Relaxed);
          if d > max_d { break; }
          let mut out = SweepOut::default();
          for shape in SWEEP_SHAPES {
            if let Some(case) = sweep_case(d, shape) {
              if let Some((at, f)) = run_sweep_case(prop, &case, &mut out) {
                // Confirm on a second fresh execution; anything else is a non-reproducible execution.
                let again = run_sweep_case(prop, &case, &mut SweepOut::default());
                match again {
                  Some((at2, f2)) if at2 == at && f2.oracle == f.oracle => out.fails.push((case, at, f)),
                  _ => engine_error(&format!("sweep case d={} shape={} failed ({}) but not when executed again", d, shape, f.oracle)),
                }
              }
            }
          }
          mine.push((d, out));
        }
        mine
      })
    }).collect();
    let mut all = Vec::new();
    for w in workers {
      match w.join() {
        Ok(v) => all.extend(v),
        Err(p) => engine_error(&format!("sweep worker panicked: {}", panic_text(p))),
      }
    }
    all
  });
  parts.sort_by_key(|p| p.0);
  let mut total = SweepOut::default();
  for (_, o) in parts {
    total.cases += o.cases;
    total.operations += o.operations;
    total.queries += o.queries;
    total.cycles_rejected += o.cycles_rejected;
    total.reorderings += o.reorderings;
    total.fails.extend(o.fails);
  }
  total
}

fn sweep_violation(prop: Prop, case: &SweepCase, at: usize, f: &Fail) -> Violation {
  Violation {
    property: prop.id().to_string(),
    oracle: f.oracle.clone(),
    key: String::new(),
    what: format!("{} [rank-distance sweep, d={}, shape {}: {}]", f.what, case.d, case.shape, sweep_ops_text(case, at).join("; ")),
    replay: json!({
      "ops": sweep_ops_text(case, at),
      "sweep_case": {"d": case.d, "shape": case.shape},
      "expected": f.expected,
      "observed": f.observed,
      "marker_rule": "the add_edge at 0-based position p of the case carries edge data p+1; node data = creation index",
    }),
  }
}

// ---------------------------------------------------------------------------------------------------------------
// Entry points
// ---------------------------------------------------------------------------------------------------------------

const RULE: &str = "breadth-first over operation sequences on the real pie_graph::DAG<u8,u16> in lock-step with a naive Vec model; \
alphabet per state: add_node (while fewer than `nodes_ever_created` handles exist), and for all handles i,j ever created including removed ones: \
add_edge(i,j,fresh marker), remove_edge(i,j), remove_outgoing_edges_of_node(i), remove_node(i); every transition replays the state's shortest \
operation path on a fresh DAG, executes the operation, and evaluates the property's oracles; states = complete observable API state \
(alive, rank, ordered outgoing/incoming adjacency with data, len, stray edge data) by creation index with edge markers renumbered by first \
appearance, plus the oracle-relevant model state where the dump does not determine it, plus the slotmap slot assignment (slot per handle, freed slots in order) so that dead handles whose slot was reused are exercised as such, plus a one-step taint: if the last operation changed nothing observable (rejected or repeated add_edge, remove_* returning None / false) the state also carries that operation, so every operation is also executed right after every observable no-op and hidden scratch state left behind by no-ops is exercised; merged on exact equality of these bytes; level-synchronous over 16 threads with deterministic merge, to fixed point or cap; after the first level with a violation the search runs two more levels and stops. Further phases: (i) add_edge-only sequences over N nodes all created first, up to E edges, states merged modulo renaming of the nodes to their ranks, complete query battery after every transition; (ii) rank-distance sweep: for every d in 1..=D and a fixed list of shapes, an insertion whose affected region spans exactly d+1 ranks (plain, with chains on either side, spread, fan, at an offset, and closing a cycle in four ways), then its repetition and the reverse edge, invariants after every operation";

fn make_violation(prop: Prop, path: &[Op], f: &Fail, a: Option<usize>) -> Violation {
  Violation {
    property: prop.id().to_string(),
    oracle: f.oracle.clone(),
    key: String::new(),
    what: format!("{} [after {} operations: {}]", f.what, path.len(), render_path(path).join("; ")),
    replay: json!({
      "ops": render_path(path),
      "expected": f.expected,
      "observed": f.observed,
      "marker_rule": "the add_edge at 0-based position p of `ops` carries edge data p+1; node data = creation index",
      "nodes_ever_created_bound": a,
    }),
  }
}

fn quiet_panics<T>(f: impl FnOnce() -> T) -> T {
  let old = std::panic::take_hook();
  std::panic::set_hook(Box::new(|_| {}));
  let r = f();
  std::panic::set_hook(old);
  r
}

/// Quick tier: `add_edge`-only sequences over this many nodes with at most this many edges.
const QUICK_EDGES_ONLY: (usize, usize) = (5, 6);

fn phase_label(o: &SearchOut) -> String {
  match o.bounds.mode {
    Mode::Full => format!("A={}", o.bounds.nodes_ever_created),
    Mode::EdgesOnly { max_edges } => format!("add_edge-only N={} E<={}", o.bounds.nodes_ever_created, max_edges),
  }
}

fn phase_json(o: &SearchOut) -> Value {
  if let Mode::EdgesOnly { max_edges } = o.bounds.mode {
    return json!({
      "phase": phase_label(o),
      "rule": "add_node x N first, then add_edge(i,j) for all ordered pairs (self loops, re-insertions, cycle-closing insertions included) while fewer than E edges are present, afterwards only the insertions that must not add an edge; all oracles of the property incl. the complete C11 query battery after every transition; states merged modulo renaming of the nodes (every node renamed to its rank), no taint",
      "nodes": o.bounds.nodes_ever_created,
      "max_edges": max_edges,
      "states_modulo_node_renaming": o.states,
      "transitions": o.stats.transitions,
      "queries_checked": o.stats.queries,
      "query_batteries_run": o.stats.batteries,
      "fixed_point_reached": o.fixed_point,
      "cap_hit": o.cap_hit,
      "max_depth": o.max_depth,
      "states_first_seen_per_depth": o.level_sizes,
      "violating_transitions": o.violating_transitions,
      "wall_s": (o.wall_s * 10.0).round() / 10.0,
    });
  }
  json!({
    "phase": phase_label(o),
    "nodes_ever_created": o.bounds.nodes_ever_created,
    "states": o.states,
    "states_of_which_tainted_by_a_preceding_noop": o.tainted_states,
    "transitions_executed_right_after_a_noop": o.stats.after_noop,
    "states_modulo_slot_assignment_and_taint": o.states_modulo_slots,
    "closed_form_states_lists_from_one_insertion_sequence": closed_form_states(o.bounds.nodes_ever_created, false),
    "closed_form_states_lists_ordered_independently": closed_form_states(o.bounds.nodes_ever_created, true),
    "states_match_closed_form": match o.states_modulo_slots.map(|n| n as u64) {
      None => json!(null),
      Some(n) if Some(n) == closed_form_states(o.bounds.nodes_ever_created, false) => json!("lists_from_one_insertion_sequence (every observable state of a correct DAG was reached)"),
      Some(n) if Some(n) == closed_form_states(o.bounds.nodes_ever_created, true) => json!("lists_ordered_independently (adjacency lists can be reordered separately)"),
      Some(_) => json!("neither"),
    },
    "slot_assignment_in_state_key": o.slot_signature_in_key,
    "transitions": o.stats.transitions,
    "queries_checked": o.stats.queries,
    "fixed_point_reached": o.fixed_point,
    "cap_hit": o.cap_hit,
    "max_depth": o.max_depth,
    "depth_completely_covered": if o.fixed_point { json!("all (fixed point)") } else { json!(o.depth_completely_covered) },
    "states_first_seen_per_depth": o.level_sizes,
    "violating_transitions": o.violating_transitions,
    "wall_s": (o.wall_s * 10.0).round() / 10.0,
  })
}

pub fn run(args: &Args) -> i32 {
  let prop = match args.property.as_str() {
    "C10" => Prop::C10,
    "C11" => Prop::C11,
    other => engine_error(&format!("engine dag does not serve property {}", other)),
  };
  if let Some(file) = &args.replay { return run_replay(args, prop, file); }

  let mut rep = Report::new(args);
  let threads = std::thread::available_parallelism().map(|n| n.get()).unwrap_or(16);
  let (state_cap, wall_cap_s) = match args.tier { Tier::Quick => (1_000_000usize, 120.0f64), Tier::Thorough => (3_000_000usize, 600.0f64) };
  // Quick: full alphabet with A = 4 to fixed point; add_edge-only sequences over 5 nodes; rank-distance sweep to 160.
  // Thorough: full alphabet A = 4, then A = 5 under the state / wall cap; add_edge-only over 5 nodes (all edge
  // counts) and over 6 nodes (up to 6 edges); rank-distance sweep to 600.
  let thorough = args.tier == Tier::Thorough;
  let mut plan: Vec<(Mode, usize, bool)> = match args.tier {
    Tier::Quick => vec![(Mode::Full, 4, false), (Mode::EdgesOnly { max_edges: QUICK_EDGES_ONLY.1 }, QUICK_EDGES_ONLY.0, true)],
    // (the phase that is meant to run into its cap comes last)
    Tier::Thorough => vec![(Mode::Full, 4, true), (Mode::EdgesOnly { max_edges: 10 }, 5, true), (Mode::EdgesOnly { max_edges: 6 }, 6, true), (Mode::Full, 5, true)],
  };
  let mut sweep_max_d = if thorough { 600 } else { 160 };
  // Experiment overrides (recorded in the evidence through `bounds` / `phases`): nodes=N edges=N,E sweep=D cap=N wall=S
  let (mut state_cap, mut wall_cap_s) = (state_cap, wall_cap_s);
  for x in &args.extra {
    if let Some(v) = x.strip_prefix("nodes=").and_then(|v| v.parse().ok()) { plan = vec![(Mode::Full, v, thorough)]; sweep_max_d = 0; }
    else if let Some((n, e)) = x.strip_prefix("edges=").and_then(|v| v.split_once(',')).and_then(|(n, e)| Some((n.parse().ok()?, e.parse().ok()?))) { plan = vec![(Mode::EdgesOnly { max_edges: e }, n, true)]; sweep_max_d = 0; }
    else if let Some(v) = x.strip_prefix("sweep=").and_then(|v| v.parse().ok()) { plan = vec![]; sweep_max_d = v; }
    else if let Some(v) = x.strip_prefix("cap=").and_then(|v| v.parse().ok()) { state_cap = v; }
    else if let Some(v) = x.strip_prefix("wall=").and_then(|v| v.parse().ok()) { wall_cap_s = v; }
    else { eprintln!("unknown argument {}", x); return 2; }
  }
  let mut outs: Vec<SearchOut> = Vec::new();
  for (mode, a, battery) in plan {
    let b = Bounds { mode, nodes_ever_created: a, state_cap, wall_cap_s: (wall_cap_s - rep.elapsed()).max(1.0), threads, battery_after_every_transition: battery };
    outs.push(quiet_panics(|| search(prop, &b)));
  }
  let sweep_start = Instant::now();
  let swept = quiet_panics(|| sweep(prop, sweep_max_d, threads));
  let sweep_wall = sweep_start.elapsed().as_secs_f64();

  let mut total = Stats::default();
  for o in &outs { total.absorb(&o.stats); }
  let states: usize = outs.iter().map(|o| o.states).sum();
  let all_fixed = outs.iter().all(|o| o.fixed_point);
  let exhaustive_a = outs.iter().filter(|o| o.fixed_point && o.bounds.mode == Mode::Full).map(|o| o.bounds.nodes_ever_created).max();
  total.transitions += swept.operations;
  total.queries += swept.queries;
  rep.set("states", json!(states));
  rep.set("transitions", json!(total.transitions));
  rep.set("traces_validated_against_impl", json!(total.transitions));
  rep.set("rank_distance_sweep", json!({
    "distances": if sweep_max_d > 0 { json!(format!("every d in 1..={}", sweep_max_d)) } else { json!("none") },
    "shapes": SWEEP_SHAPES,
    "rule": "d+1 (+5 with offset) nodes in creation order, the shape's edges along the order, then add_edge(node ranked d after lo, lo): the affected region spans exactly d+1 ranks; then the same insertion again and the reverse edge; property invariants after every operation, C11 query battery over all ordered pairs of up to ~16 interesting nodes before and after the insertion and at the end",
    "cases": swept.cases,
    "operations": swept.operations,
    "query_comparisons": swept.queries,
    "insertions_that_reordered_ranks": swept.reorderings,
    "cyclic_insertions_rejected": swept.cycles_rejected,
    "violating_cases": swept.fails.len(),
    "wall_s": (sweep_wall * 10.0).round() / 10.0,
  }));
  rep.set("impl_operations_executed_in_replays", json!(total.replayed_ops));
  rep.set("queries_checked", json!(total.queries));
  rep.set("exhaustive", json!(all_fixed));
  rep.set("fixed_point_reached", json!(all_fixed));
  rep.set("exhaustive_for_nodes_ever_created", json!(exhaustive_a));
  rep.set("max_depth", json!(outs.iter().map(|o| o.max_depth).max().unwrap_or(0)));
  let capped = outs.iter().find(|o| !o.fixed_point);
  rep.set("depth_completely_covered", match capped { None => json!("all (fixed point in every phase)"), Some(o) => json!(format!("{} in phase {}", o.depth_completely_covered, phase_label(o))) });
  rep.set("cap_hit", json!(capped.and_then(|o| o.cap_hit)));
  rep.set("bounds", json!({
    "nodes_ever_created": outs.iter().filter(|o| o.bounds.mode == Mode::Full).map(|o| o.bounds.nodes_ever_created).max(),
    "add_edge_only_phases (nodes, max edges)": outs.iter().filter_map(|o| match o.bounds.mode { Mode::EdgesOnly { max_edges } => Some((o.bounds.nodes_ever_created, max_edges)), _ => None }).collect::<Vec<_>>(),
    "rank_distance_sweep_max_d": sweep_max_d,
    "state_cap": state_cap, "wall_cap_s": wall_cap_s, "threads": threads}));
  rep.set("phases", Value::Array(outs.iter().map(phase_json).collect()));
  let outcomes: serde_json::Map<String, Value> = total.outcomes.iter().map(|(k, v)| (k.to_string(), json!(v))).collect();
  rep.set("distinct_outcomes", json!({"count": outcomes.len(), "observed (operation -> result: transitions)": outcomes}));
  rep.set("slot_reuse_transitions", json!(total.slot_reuse));
  rep.set("taint", json!({
    "rule": "state identity = observable state + (last operation, if it changed nothing observable); exact for implementations whose hidden state is a function of (observable state, last no-op), a strict refinement of the untainted search otherwise",
    "tainted_states": outs.iter().map(|o| o.tainted_states).sum::<usize>(),
    "transitions_executed_right_after_a_noop": total.after_noop,
    "c11_query_before_every_operation": "contains_transitive_edge for the first reachable pair of the model (C11 runs only, also in replays)",
    "c11_query_battery": if args.tier == Tier::Thorough { "after every transition" } else { "after every transition into a state that was not known when the level started; all other oracles after every transition" },
    "c11_query_batteries_run": total.batteries,
  }));
  rep.set("samples", json!(outs.iter().flat_map(|o| o.samples.clone()).collect::<Vec<_>>()));
  rep.set("violating_transitions", json!(outs.iter().map(|o| o.violating_transitions).sum::<u64>()));
  rep.set("rule", json!(RULE));
  rep.set("oracles", json!(match prop {
    Prop::C10 => "C10: result of every operation vs the edge-set model (NodeMissing / CycleDetected / Ok(true|false), remove_* results without regard to edge data); \
a rejected insertion leaves the complete observable state unchanged; ranks bijective onto 1..n = len(); rank(src) < rank(dst) for every model edge \
and every API edge; API adjacency acyclic",
    Prop::C11 => "C11: complete real state == complete model state after every operation (alive set, ordered outgoing/incoming lists with data, \
no stray edge data); removals return exactly the removed data; a re-insertion changes nothing observable; contains_node, get_node_data, len, is_empty, contains_edge, get_edge_data, \
contains_transitive_edge (twice, and again after an unrelated query), the eight adjacency accessors, symmetry, descendants_unsorted, descendants \
(each alone, and two iterators alive at the same time: advanced alternately, zipped, nested), \
topo_cmp for all handles / ordered pairs ever created",
  }));
  rep.assume("DAG treats slotmap keys and edge data opaquely (argued in mc/src/dag.rs); hash seeds differ on every replay, and every replay is required to reproduce the recorded state bytes");
  if outs.iter().any(|o| o.violating_transitions > 0) {
    rep.assume("branches are not explored beyond their first violating transition");
  }

  let mut reported: Vec<Vec<Op>> = Vec::new();
  for o in &outs {
    println!(
      "{} {}: {} states, {} transitions, {} query comparisons, max depth {}, {} ({:.1}s)",
      prop.id(), phase_label(o), o.states, o.stats.transitions, o.stats.queries, o.max_depth,
      if o.fixed_point { "fixed point reached".to_string() } else { format!("{} hit, sequences up to length {} completely covered", o.cap_hit.unwrap_or("cap"), o.depth_completely_covered) },
      o.wall_s
    );
    for (path, f) in &o.fails {
      if reported.contains(path) { continue; } // the larger phase re-finds what the smaller one found
      reported.push(path.clone());
      rep.violation(make_violation(prop, path, f, Some(o.bounds.nodes_ever_created)));
    }
  }
  if sweep_max_d > 0 {
    println!("{} rank-distance sweep d=1..={}: {} cases, {} operations, {} query comparisons, {} violating case(s) ({:.1}s)",
      prop.id(), sweep_max_d, swept.cases, swept.operations, swept.queries, swept.fails.len(), sweep_wall);
  }
  // Smallest distance first; at most two per oracle.
  let mut per_oracle: BTreeMap<String, usize> = BTreeMap::new();
  for (case, at, f) in &swept.fails {
    let n = per_oracle.entry(f.oracle.clone()).or_insert(0);
    if *n < 2 { rep.violation(sweep_violation(prop, case, *at, f)); }
    *n += 1;
  }
  rep.finish()
}

/// Runs `ops` on a fresh DAG with the oracles of `prop` after every operation. Returns the observation log and
/// the first failure (position of the failing operation, oracle).
fn run_ops_once(prop: Prop, ops: &[Op], stats: &mut Stats) -> (Vec<String>, usize, Option<(usize, Fail)>) {
  let mut real = Real::new();
  let mut model = Model::new();
  let mut log = Vec::new();
  let mut keys = std::collections::BTreeSet::new();
  let mut obs = observe(&real);
  keys.insert(encode_key(prop, &obs, &model, &real.slot_signature(), None));
  for (p, op) in ops.iter().enumerate() {
    if let Some(m) = op.max_handle() {
      if m as usize >= real.handles.len() { engine_error(&format!("replay operation {} ({}) names a handle that was never created", p, op.render())); }
    }
    match step(prop, &mut real, &model, &obs, *op, marker_for(p), stats) {
      Ok((o, m)) => {
        log.push(format!("{} => {}", op.render(), o.to_json()));
        keys.insert(encode_key(prop, &o, &m, &real.slot_signature(), None));
        obs = o;
        model = m;
      }
      Err(f) => {
        log.push(format!("{} => FAIL {} observed {}", op.render(), f.oracle, f.observed));
        return (log, keys.len(), Some((p, f)));
      }
    }
  }
  (log, keys.len(), None)
}

fn run_replay(args: &Args, prop: Prop, file: &std::path::Path) -> i32 {
  let text = match std::fs::read_to_string(file) {
    Ok(t) => t,
    Err(e) => engine_error(&format!("cannot read replay file {}: {}", file.display(), e)),
  };
  let v: Value = match serde_json::from_str(&text) {
    Ok(v) => v,
    Err(e) => engine_error(&format!("replay file {} does not parse: {}", file.display(), e)),
  };
  if let Some(sc) = v.get("replay").and_then(|r| r.get("sweep_case")) {
    return run_sweep_replay(args, prop, sc);
  }
  let Some(list) = v.get("replay").and_then(|r| r.get("ops")).and_then(|o| o.as_array()) else {
    engine_error("replay file has no replay.ops array");
  };
  let ops: Vec<Op> = list
    .iter()
    .map(|s| s.as_str().and_then(Op::parse).unwrap_or_else(|| engine_error(&format!("cannot parse replay operation {}", s))))
    .collect();
  if let Some(p) = v.get("property").and_then(|p| p.as_str()) {
    if p != prop.id() { eprintln!("note: replay file was written for {}, evaluating the oracles of {}", p, prop.id()); }
  }

  let mut rep = Report::new(args);
  let mut stats = Stats::default();
  let (log1, n_states, fail1) = quiet_panics(|| run_ops_once(prop, &ops, &mut stats));
  let (log2, _, fail2) = quiet_panics(|| run_ops_once(prop, &ops, &mut Stats::default()));
  if log1 != log2 || fail1.as_ref().map(|f| (f.0, f.1.oracle.clone())) != fail2.as_ref().map(|f| (f.0, f.1.oracle.clone())) {
    engine_error("two executions of the replay on fresh DAGs gave different observations");
  }
  rep.set("mode", json!("replay"));
  rep.set("states", json!(n_states));
  rep.set("transitions", json!(stats.transitions));
  rep.set("traces_validated_against_impl", json!(stats.transitions));
  rep.set("queries_checked", json!(stats.queries));
  rep.set("samples", json!([render_path(&ops)]));
  rep.set("exhaustive", json!(false));
  rep.set("fixed_point_reached", json!(false));
  rep.set("max_depth", json!(ops.len()));
  rep.set("bounds", json!({"nodes_ever_created": ops.iter().filter(|o| **o == Op::AddNode).count(), "state_cap": null, "wall_cap_s": null}));
  let outcomes: serde_json::Map<String, Value> = stats.outcomes.iter().map(|(k, v)| (k.to_string(), json!(v))).collect();
  rep.set("distinct_outcomes", json!({"count": outcomes.len(), "observed (operation -> result: transitions)": outcomes}));
  rep.set("rule", json!("replay of one recorded operation sequence, executed twice on fresh DAGs with the property's oracles after every operation"));
  rep.set("observation_log", json!(log1));
  match fail1 {
    Some((p, f)) => {
      let a = v.get("replay").and_then(|r| r.get("nodes_ever_created_bound")).and_then(|a| a.as_u64()).map(|a| a as usize);
      rep.violation(make_violation(prop, &ops[..=p], &f, a))
    }
    None => println!("replay: no violation"),
  }
  rep.finish()
}

/// Replay of one case of the rank-distance sweep (`replay.sweep_case` = {d, shape}): executed twice on fresh DAGs.
fn run_sweep_replay(args: &Args, prop: Prop, sc: &Value) -> i32 {
  let d = sc.get("d").and_then(|d| d.as_u64()).unwrap_or_else(|| engine_error("replay.sweep_case has no d")) as usize;
  let name = sc.get("shape").and_then(|s| s.as_str()).unwrap_or_else(|| engine_error("replay.sweep_case has no shape"));
  let Some(shape) = SWEEP_SHAPES.iter().copied().find(|s| *s == name) else { engine_error(&format!("unknown sweep shape {}", name)) };
  let Some(case) = sweep_case(d, shape) else { engine_error(&format!("sweep shape {} does not exist at distance {}", shape, d)) };
  let mut rep = Report::new(args);
  let mut out = SweepOut::default();
  let first = quiet_panics(|| run_sweep_case(prop, &case, &mut out));
  let second = quiet_panics(|| run_sweep_case(prop, &case, &mut SweepOut::default()));
  if first.as_ref().map(|f| (f.0, f.1.oracle.clone())) != second.as_ref().map(|f| (f.0, f.1.oracle.clone())) {
    engine_error("two executions of the sweep case on fresh DAGs gave different outcomes");
  }
  rep.set("mode", json!("replay of a rank-distance sweep case"));
  rep.set("states", json!(out.operations + 1));
  rep.set("transitions", json!(out.operations));
  rep.set("traces_validated_against_impl", json!(out.operations));
  rep.set("queries_checked", json!(out.queries));
  rep.set("samples", json!([sweep_ops_text(&case, case.ops.len() - 1)]));
  rep.set("exhaustive", json!(false));
  rep.set("fixed_point_reached", json!(false));
  rep.set("max_depth", json!(case.nodes + case.ops.len()));
  rep.set("bounds", json!({"nodes_ever_created": case.nodes, "state_cap": null, "wall_cap_s": null}));
  rep.set("distinct_outcomes", json!({"count": 1, "observed": {"cyclic insertions rejected": out.cycles_rejected, "insertions that reordered ranks": out.reorderings}}));
  rep.set("rule", json!("replay of one case of the rank-distance sweep, executed twice on fresh DAGs with the property's oracles after every operation"));
  match first {
    Some((at, f)) => rep.violation(sweep_violation(prop, &case, at, &f)),
    None => println!("replay: no violation"),
  }
  rep.finish()
}

// ---------------------------------------------------------------------------------------------------------------
// Tests
// ---------------------------------------------------------------------------------------------------------------

#[cfg(test)]
mod tests {
  use super::*;

  fn bounds(a: usize) -> Bounds { Bounds { mode: Mode::Full, nodes_ever_created: a, state_cap: 1_000_000, wall_cap_s: 600.0, threads: 4, battery_after_every_transition: true } }

  fn run_path(ops: &[Op]) -> (Real, Model) {
    let mut real = Real::new();
    let mut model = Model::new();
    for (p, op) in ops.iter().enumerate() {
      real.apply(*op, marker_for(p));
      model.apply(*op, marker_for(p));
    }
    (real, model)
  }

  #[test]
  fn op_text_round_trips() {
    for op in alphabet(3, 4) { assert_eq!(Op::parse(&op.render()), Some(op)); }
    assert_eq!(Op::parse("frobnicate(1)"), None);
  }

  #[test]
  fn tiny_search_c10_holds_and_is_deterministic() {
    let a = search(Prop::C10, &bounds(3));
    assert!(a.fixed_point);
    assert!(a.fails.is_empty(), "{:?}", a.fails);
    assert!(a.states > 100, "{} states", a.states);
    for kind in ["add_edge -> Ok(true)", "add_edge -> Ok(false) [re-insertion]", "add_edge -> Err(NodeMissing)",
      "add_edge -> Err(CycleDetected) [self loop]", "add_edge -> Err(CycleDetected) [path back]", "remove_edge -> Some(data)",
      "remove_node -> true", "remove_node -> false [dead handle]", "remove_outgoing_edges_of_node -> Some(pairs)"] {
      assert!(a.stats.outcomes.get(kind).copied().unwrap_or(0) > 0, "outcome {} never observed", kind);
    }
    assert!(a.stats.outcomes.get("add_edge -> Err(NodeMissing) [dead handle whose slot was reused]").copied().unwrap_or(0) > 0);
    // Every observable state a correct DAG can be in was reached: 104 for at most 3 handles.
    assert_eq!(closed_form_states(3, false), Some(104));
    assert_eq!(closed_form_states(3, true), Some(104));
    assert_eq!(closed_form_states(4, false), Some(13381));
    assert_eq!(closed_form_states(4, true), Some(14149));
    assert_eq!(closed_form_states(5, true), Some(42563495));
    assert_eq!(a.states_modulo_slots, Some(104));
    assert!(a.slot_signature_in_key && a.states > 104);
    // Operations are also executed right after operations that changed nothing observable.
    assert!(a.tainted_states > 104 && a.stats.after_noop > a.tainted_states as u64);
    assert!(a.samples.iter().any(|p| p.len() >= 2));
    let b = search(Prop::C10, &Bounds { threads: 1, ..bounds(3) });
    assert_eq!((a.states, a.stats.transitions, a.stats.queries, &a.level_sizes), (b.states, b.stats.transitions, b.stats.queries, &b.level_sizes));
  }

  #[test]
  fn tiny_search_c11_reports_nothing_but_the_reinsertion_reordering() {
    // On a tree with the re-insertion defect (add_edge on an existing edge moves the child to the back) the only
    // admissible report is that one; on a repaired tree there is none.
    let a = search(Prop::C11, &bounds(3));
    assert!(a.fixed_point);
    for (path, f) in &a.fails {
      assert_eq!(f.oracle, "C11/outgoing-order", "{:?} {:?}", render_path(path), f);
      assert!(matches!(path.last(), Some(Op::AddEdge(_, _))));
    }
    assert!(a.stats.queries > a.stats.transitions);
  }

  #[test]
  fn edges_only_search_and_sweep_hold_on_the_real_dag() {
    for prop in [Prop::C10, Prop::C11] {
      let b = Bounds { mode: Mode::EdgesOnly { max_edges: 3 }, nodes_ever_created: 4, ..bounds(4) };
      let a = search(prop, &b);
      assert!(a.fixed_point && a.fails.is_empty(), "{:?}", a.fails);
      // 4 nodes, at most 3 edges, nodes renamed to their ranks: far fewer states than labelled graphs with orders.
      assert!(a.states > 50 && a.states < 2000, "{}", a.states);
      assert!(a.stats.outcomes.get("add_edge -> Err(CycleDetected) [path back]").copied().unwrap_or(0) > 0);
      let s = sweep(prop, 70, 4);
      assert!(s.fails.is_empty(), "{:?}", s.fails);
      assert!(s.cases > 500 && s.cycles_rejected > 200 && s.reorderings > 300);
    }
  }

  #[test]
  fn sweep_shapes_are_well_formed() {
    for d in 1..=40 {
      for shape in SWEEP_SHAPES {
        if let Some(c) = sweep_case(d, shape) {
          let (hi, lo) = c.ops[c.test_at];
          assert_eq!(hi - lo, d);
          assert!(c.ops.iter().all(|(s, t)| *s < c.nodes && *t < c.nodes && s != t));
          // Everything before the insertion under test goes along the creation order.
          assert!(c.ops[..c.test_at].iter().all(|(s, t)| s < t));
        }
      }
    }
    assert!(sweep_case(64, "plain").is_some() && sweep_case(1, "both-chains").is_none());
  }

  #[test]
  fn renaming_by_rank_merges_isomorphic_states() {
    // 0->1 on nodes (0,1,2) and 2->1 ... after reordering: the same shape up to renaming.
    let (r1, m1) = run_path(&[Op::AddNode, Op::AddNode, Op::AddNode, Op::AddEdge(0, 1)]);
    let (r2, m2) = run_path(&[Op::AddNode, Op::AddNode, Op::AddNode, Op::AddEdge(1, 2)]);
    let (r3, m3) = run_path(&[Op::AddNode, Op::AddNode, Op::AddNode, Op::AddEdge(0, 2)]);
    let mode = Mode::EdgesOnly { max_edges: 3 };
    let k = |r: &Real, m: &Model| state_key(Prop::C11, mode, &observe(r), m, r, None);
    assert_ne!(k(&r1, &m1), k(&r2, &m2)); // edge between ranks 1,2 vs ranks 2,3
    assert_ne!(k(&r1, &m1), k(&r3, &m3));
    let (r4, m4) = run_path(&[Op::AddNode, Op::AddNode, Op::AddNode, Op::AddEdge(1, 0)]); // reorders: 1 gets rank 1, 0 rank 2
    assert_eq!(k(&r1, &m1), k(&r4, &m4));
  }

  #[test]
  fn model_classifies_add_edge() {
    let (_, mut m) = run_path(&[Op::AddNode, Op::AddNode, Op::AddNode, Op::AddEdge(0, 1), Op::AddEdge(1, 2)]);
    assert_eq!(m.clone().apply(Op::AddEdge(2, 0), 9), Res::Edge(Err(ErrKind::CycleDetected)));
    assert_eq!(m.clone().apply(Op::AddEdge(1, 1), 9), Res::Edge(Err(ErrKind::CycleDetected)));
    assert_eq!(m.clone().apply(Op::AddEdge(0, 1), 9), Res::Edge(Ok(false)));
    assert_eq!(m.clone().apply(Op::AddEdge(0, 2), 9), Res::Edge(Ok(true)));
    assert_eq!(m.apply(Op::RemoveNode(1), 9), Res::RemovedNode(true));
    assert!(m.edges.is_empty());
    assert_eq!(m.apply(Op::AddEdge(1, 1), 9), Res::Edge(Err(ErrKind::NodeMissing)));
    assert_eq!(m.apply(Op::AddEdge(2, 0), 9), Res::Edge(Ok(true)));
    assert_eq!(m.apply(Op::RemoveOut(2), 9), Res::RemovedOut(Some(vec![(0, 9)])));
    assert_eq!(m.apply(Op::RemoveOut(2), 9), Res::RemovedOut(None));
  }

  #[test]
  fn oracles_flag_deliberately_wrong_observations() {
    let (real, model) = run_path(&[Op::AddNode, Op::AddNode, Op::AddNode, Op::AddEdge(0, 1), Op::AddEdge(0, 2), Op::AddEdge(1, 2)]);
    let obs = observe(&real);
    let mut q = 0;
    assert!(c10_invariants(&model, &obs, &mut q).is_ok());
    assert!(c11_state(&model, &obs, &mut q).is_ok());
    assert!(c11_queries(&real, &model, &obs, &mut q).is_ok());
    assert!(q > 50);

    // Outgoing order swapped: exactly what the re-insertion defect produces.
    let mut o = obs.clone();
    o.out[0].swap(0, 1);
    assert_eq!(c11_state(&model, &o, &mut q).unwrap_err().oracle, "C11/outgoing-order");
    // Wrong data on an incoming edge.
    let mut o = obs.clone();
    o.inc[2][0].1 = 77;
    assert_eq!(c11_state(&model, &o, &mut q).unwrap_err().oracle, "C11/incoming-data");
    // An edge the model does not have.
    let mut o = obs.clone();
    o.out[2].push((0, 9));
    assert_eq!(c11_state(&model, &o, &mut q).unwrap_err().oracle, "C11/outgoing-edges");
    assert_eq!(c10_invariants(&model, &o, &mut q).unwrap_err().oracle, "C10/edge-order");
    // Rank gap, duplicate rank, edge against the order.
    let mut o = obs.clone();
    o.rank[2] = Some(4);
    assert_eq!(c10_invariants(&model, &o, &mut q).unwrap_err().oracle, "C10/rank-bijection");
    let mut o = obs.clone();
    o.rank[2] = o.rank[1];
    assert_eq!(c10_invariants(&model, &o, &mut q).unwrap_err().oracle, "C10/rank-bijection");
    let mut o = obs.clone();
    o.rank.swap(0, 1);
    assert_eq!(c10_invariants(&model, &o, &mut q).unwrap_err().oracle, "C10/edge-order");
    // A model that disagrees with the real DAG about reachability makes the queries fail.
    let mut wrong = model.clone();
    wrong.apply(Op::RemoveEdge(1, 2), 0);
    wrong.apply(Op::RemoveEdge(0, 2), 0);
    assert!(c11_queries(&real, &wrong, &obs, &mut q).is_err());
  }

  #[test]
  fn keys_ignore_marker_names_but_not_structure() {
    let (r1, m1) = run_path(&[Op::AddNode, Op::AddNode, Op::AddEdge(0, 1)]);
    let (r2, m2) = run_path(&[Op::AddNode, Op::AddNode, Op::AddEdge(0, 1), Op::RemoveEdge(0, 1), Op::AddEdge(0, 1)]);
    assert_ne!(observe(&r1), observe(&r2)); // different markers ...
    assert_eq!(encode_key(Prop::C11, &observe(&r1), &m1, &r1.slot_signature(), None), encode_key(Prop::C11, &observe(&r2), &m2, &r2.slot_signature(), None)); // ... same state
    let (r3, m3) = run_path(&[Op::AddNode, Op::AddNode, Op::AddEdge(1, 0)]);
    assert_ne!(encode_key(Prop::C11, &observe(&r1), &m1, &[], None), encode_key(Prop::C11, &observe(&r3), &m3, &[], None));
    // A taint distinguishes, and can be set and stripped again.
    let k1 = encode_key(Prop::C10, &observe(&r1), &m1, &r1.slot_signature(), None);
    let kt = encode_key(Prop::C10, &observe(&r1), &m1, &r1.slot_signature(), Some(Op::AddEdge(1, 0)));
    assert_ne!(k1, kt);
    assert_eq!(with_taint(&k1, Some(Op::AddEdge(1, 0))), kt);
    assert_eq!(with_taint(&kt, None), k1);
    assert_eq!(strip_slot_signature(&k1), strip_slot_signature(&kt));
    // Dead handles stay dead when their slot is reused.
    let (r4, _) = run_path(&[Op::AddNode, Op::RemoveNode(0), Op::AddNode]);
    assert_eq!(observe(&r4).alive, vec![false, true]);
    assert_eq!(r4.slot(0), r4.slot(1));
  }
}
