use crate::common::{Args, engine_error};

pub fn run(_args: &Args) -> i32 { engine_error("not implemented yet") }
