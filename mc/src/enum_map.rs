//! C14 — "Map resource gives read-your-writes with per-type isolation".
//!
//! Technique: explicit-state breadth-first search over operation sequences executed on a REAL `Pie`, compared step by
//! step with a plain reference model. `Pie` is not `Clone`, so every transition `(state, op)` is executed by replaying
//! the representative operation path of `state` on a fresh `Pie` and then applying `op`.
//!
//! * State = model state = for each resource type in {K1, K2, K3, RA, RB, T1, T2, O} what is stored in pie's typed state for
//!   that resource type: nothing, `Shared(u8)`, `Other(bool)` or a map of some key type. The global map of key type
//!   `K` IS the state of resource type `K` (`HashMap<K, K::Value>`), so e.g. `set::<Other>` on K1's state wipes K1's
//!   map and the next map access of K1 replaces `Other` by an empty map (documented behaviour of
//!   `get_or_set_default`); the model follows that faithfully. (This fixed array is the
//!   `Map<ResourceType, Option<(StateType, value)>>` + "one plain map per key type" of the design.)
//! * The implementation's state is fully observable without side effects (`get_boxed` + downcasts, `get::<S>` for all
//!   eight state types on all eight resource types) and is compared with the model after the last operation of every
//!   executed path; where the model says a key type's state is a map, all keys are additionally read through
//!   `Resource::read`, `MapWriter::get`, `GetGlobalMap`, stamped through the three stamping routes (`stamp` with the
//!   resource state, `stamp_reader`, `stamp_writer`), and `MapEqualsChecker::check` is evaluated against every stamp
//!   value of the alphabet and against every real stamp recorded earlier along the path.
//! * In-task routes and pie's overlap detection: pie panics ("Overlapping write" / "Hidden dependency") when two
//!   DIFFERENT tasks write the same key or one reads what another wrote without a dependency. C14 is about the map
//!   resource, not about that detection, so the harness uses exactly ONE task identity per (key type, key),
//!   `KeyTask<K>(key)`. What the task does (write through `Context::write`, write through `create_writer` +
//!   `written_to`, read through `Context::read`, `MapWriter::get` on a created writer) is given by a harness-controlled
//!   thread-local command cell. Every execution first reads the harness key `Tick` of the map resource; the harness
//!   stores a new tick through `Pie::resource_state_mut` before every step, so the task is inconsistent and re-executed
//!   whenever it is required (top-down) or scheduled by `schedule_tasks_affected_by(&Tick)` (bottom-up; tasks of other
//!   keys that get re-executed find a command not addressed to them and only read the tick). A task never reads and
//!   writes its key in the same execution. No two task identities ever touch the same key, so no path of the alphabet
//!   can trigger the overlap/hidden-dependency panics; any panic is reported as a violation.
//! * T1 and T2 are two DISTINCT key (= resource) types with IDENTICAL `std::any::type_name`: a macro declares a
//!   block-local `struct LocalKey(u8)` (+ `MapKey`) and is expanded twice in one function. They are unnameable, so the
//!   whole executing side is generic over the pair (`Twins`) and reached through a function pointer instantiated where
//!   both types are in scope. At start-up the harness asserts that their `TypeId`s differ and records whether their
//!   names are equal (if a compiler ever names them differently this is recorded in the evidence; nothing fails).
//!   Anything that identifies resource types by name instead of by type makes them share one slot, which shows as state
//!   of one being visible through / replaced by accesses for the other.
//! * O is the trait-object key type `MapKeyObjToObj`. It has two logical keys of DIFFERENT key types (`7u8` and the
//!   genuinely boxed `Box::new(7u8)`); a key index of the alphabet is `logical key + 2 * constructor`, over six public
//!   ways of building the key (inherent `from`, `new`, `From<Box<K>>`, `From<Box<dyn KeyObj>>`, the public tuple
//!   field, `clone`). Oracle: keys built from equal (key type, value) by different constructors are equal, hash equal
//!   and address the same slot (every write route through one, every read/stamp/check through every other); keys of
//!   different key types or values never alias (eight never-written keys are probed at every step, and the map must
//!   hold nothing but the model's entries).
//! * `MapOp::Seq(a, b)` performs TWO operations on one writer (all 36 ordered pairs of insert 0/1, entry-remove,
//!   `entry().or_insert` 0/1, `entry().and_modify`), with a `MapWriter::get` in between, through every write route;
//!   the oracle is the sequential `HashMap` model (results of both operations, the value in between, the value read back
//!   afterwards through every read route, the three stamp routes). Family `writer_pairs`.
//! * Family `alternation` alternates between two state types on ONE resource type (RA: Shared/Other; K1: its map
//!   displaced by a foreign state type through `get_or_set_default(_mut)` and then read again). Its alphabet is small
//!   and explored without state merging to depth 4 (quick) / 5 (thorough): anything a displaced state leaves behind is
//!   hidden state, and the documented semantics is that a `get_or_set_default` of another type resets the slot to that
//!   type's default.
//! * Five searches are run, with different operation alphabets ("families"): `writer_pairs`, `alternation` (above),
//!   `objkeys` (all of O), `main` (K1, K2, K3 maps; typed state on
//!   RA, RB, K1) and `twins` (the full map + typed-state alphabet on T1 and T2, with one key of K1 and `Shared` on RA as
//!   bystanders). The explored space is the sum, not the product, of the five: interference between resource types is
//!   pairwise and every pair of kinds occurs within one family. Every step of each observes all eight resource types.
//! * The dependency store of pie is hidden state that the model state does not contain (which `KeyTask`s exist). To
//!   cover it, besides the BFS to a fixed point over model states, ALL operation paths up to a small depth are executed
//!   without any state merging.

use std::any::Any;
use std::cell::{Cell, RefCell};
use std::collections::hash_map::Entry;
use std::collections::{BTreeSet, HashMap};
use std::convert::Infallible;
use std::fmt::Debug;
use std::panic::{catch_unwind, AssertUnwindSafe};
use std::sync::atomic::{AtomicUsize, Ordering};
use std::time::Instant;

use serde_json::{json, Value};

use pie::resource::map::{GetGlobalMap, MapEqualsChecker, MapKey, MapKeyObjToObj, MapValueObj, MapWriter};
use pie::tracker::Tracker;
use pie::trait_object::{KeyObj, ValueObj};
use pie::{Context, Pie, Resource, ResourceChecker, ResourceState, Task};

use crate::common::{engine_error, Args, Report, Tier, Violation};

// ---------------------------------------------------------------------------------------------------------------------
// Reference model
// ---------------------------------------------------------------------------------------------------------------------

/// Key types of the map resource.
#[derive(Clone, Copy, PartialEq, Eq, Hash, PartialOrd, Ord, Debug)]
pub enum KT { K1, K2, K3, T1, T2, O }

/// Resource types whose typed state is modelled.
#[derive(Clone, Copy, PartialEq, Eq, Hash, PartialOrd, Ord, Debug)]
pub enum Res { K1, K2, K3, RA, RB, T1, T2, O }

pub const N_RES: usize = 8;
pub const ALL_RES: [Res; N_RES] = [Res::K1, Res::K2, Res::K3, Res::RA, Res::RB, Res::T1, Res::T2, Res::O];
pub const ALL_KT: [KT; 6] = [KT::K1, KT::K2, KT::K3, KT::T1, KT::T2, KT::O];

impl KT {
  pub fn res(self) -> Res { match self { KT::K1 => Res::K1, KT::K2 => Res::K2, KT::K3 => Res::K3, KT::T1 => Res::T1, KT::T2 => Res::T2, KT::O => Res::O } }
  fn name(self) -> &'static str { match self { KT::K1 => "K1", KT::K2 => "K2", KT::K3 => "K3", KT::T1 => "T1", KT::T2 => "T2", KT::O => "O" } }
  /// Number of key indices of the operation alphabet. For `O` (= `MapKeyObjToObj`) a key index is
  /// `logical key + 2 * constructor`; all other key types have exactly their two logical keys.
  pub fn n_keys(self) -> u8 { if self == KT::O { 2 * N_OBJ_CTORS } else { 2 } }
  /// Position of `HashMap<K, K::Value>` in the list of state types probed by `typed_gets`.
  fn typed_pos(self) -> usize { match self { KT::K1 => 2, KT::K2 => 3, KT::K3 => 4, KT::T1 => 5, KT::T2 => 6, KT::O => 7 } }
}

impl Res {
  fn idx(self) -> usize { self as usize }
  fn name(self) -> &'static str { match self { Res::K1 => "K1", Res::K2 => "K2", Res::K3 => "K3", Res::RA => "RA", Res::RB => "RB", Res::T1 => "T1", Res::T2 => "T2", Res::O => "O" } }
}

/// State types used by typed state accesses. `M1` = `HashMap<K1, u8>`, i.e. the type of K1's global map.
#[derive(Clone, Copy, PartialEq, Eq, Hash, PartialOrd, Ord, Debug)]
pub enum ST { Shared, Other, M1 }

impl ST {
  fn name(self) -> &'static str { match self { ST::Shared => "Shared", ST::Other => "Other", ST::M1 => "M1" } }
}

/// What is stored for one resource type. Map values are value indices (0/1) for keys 0/1.
#[derive(Clone, Copy, PartialEq, Eq, Hash, PartialOrd, Ord, Debug)]
pub enum Slot { Absent, Shared(u8), Other(bool), Map(KT, [Option<u8>; 2]) }

fn enc(v: Option<u8>) -> i16 { match v { None => 0, Some(v) => v as i16 + 1 } }
fn opt_code(v: Option<u8>) -> i16 { match v { None => -1, Some(v) => v as i16 } }

impl Slot {
  fn is_st(self, st: ST) -> bool {
    matches!((self, st), (Slot::Shared(_), ST::Shared) | (Slot::Other(_), ST::Other) | (Slot::Map(KT::K1, _), ST::M1))
  }
  fn mk(st: ST, v: u8) -> Slot {
    match st { ST::Shared => Slot::Shared(v), ST::Other => Slot::Other(v == 1), ST::M1 => Slot::Map(KT::K1, [Some(v), None]) }
  }
  fn default_of(st: ST) -> Slot {
    match st { ST::Shared => Slot::Shared(0), ST::Other => Slot::Other(false), ST::M1 => Slot::Map(KT::K1, [None, None]) }
  }
  /// The harness' in-place mutation of a state value (same function on the implementation side, `StT::flip`).
  fn flip(self) -> Slot {
    match self {
      Slot::Shared(v) => Slot::Shared(1 - v),
      Slot::Other(b) => Slot::Other(!b),
      Slot::Map(kt, [a, b]) => Slot::Map(kt, [a, if b.is_some() { None } else { Some(1) }]),
      Slot::Absent => Slot::Absent,
    }
  }
  /// Observation code of a state value.
  fn code(self) -> i16 {
    match self {
      Slot::Absent => -1,
      Slot::Shared(v) => v as i16,
      Slot::Other(b) => b as i16,
      Slot::Map(_, [a, b]) => 100 + enc(a) * 3 + enc(b),
    }
  }
  fn code_as(self, st: ST) -> i16 { if self.is_st(st) { self.code() } else { -1 } }
  fn text(self) -> String {
    match self {
      Slot::Absent => "-".into(),
      Slot::Shared(v) => format!("Shared({})", v),
      Slot::Other(b) => format!("Other({})", b),
      Slot::Map(kt, [a, b]) => {
        let mut parts = Vec::new();
        if let Some(a) = a { parts.push(format!("0:{}", a)); }
        if let Some(b) = b { parts.push(format!("1:{}", b)); }
        format!("Map<{}>{{{}}}", kt.name(), parts.join(","))
      }
    }
  }
}

#[derive(Clone, Copy, PartialEq, Eq, Hash, PartialOrd, Ord, Debug)]
pub struct Model { pub slots: [Slot; N_RES] }

#[derive(Clone, Copy, PartialEq, Eq, Hash, PartialOrd, Ord, Debug)]
pub enum MapOp {
  Insert(u8),
  Remove,
  OrInsert(u8),
  /// Two operations on ONE writer (resp. one `&mut HashMap` for the global-map route), with a `get` in between.
  Seq(SOp, SOp),
}

/// One operation on a writer, as part of a `MapOp::Seq`.
#[derive(Clone, Copy, PartialEq, Eq, Hash, PartialOrd, Ord, Debug)]
pub enum SOp {
  /// `insert(v)`
  Ins(u8),
  /// `entry()` -> `Occupied.remove()`
  Rem,
  /// `entry().or_insert(v)`
  OrIns(u8),
  /// `entry().and_modify(|x| flip x)`
  Modify,
}

pub const ALL_SOPS: [SOp; 6] = [SOp::Ins(0), SOp::Ins(1), SOp::Rem, SOp::OrIns(0), SOp::OrIns(1), SOp::Modify];

impl SOp {
  fn text(self) -> String {
    match self { SOp::Ins(v) => format!("i{}", v), SOp::Rem => "r".into(), SOp::OrIns(v) => format!("o{}", v), SOp::Modify => "m".into() }
  }
  fn parse(s: &str) -> Option<SOp> {
    match s { "i0" => Some(SOp::Ins(0)), "i1" => Some(SOp::Ins(1)), "r" => Some(SOp::Rem), "o0" => Some(SOp::OrIns(0)), "o1" => Some(SOp::OrIns(1)), "m" => Some(SOp::Modify), _ => None }
  }
  /// Sequential `HashMap` semantics on one slot; returns the operation's result code.
  fn apply_model(self, slot: &mut Option<u8>) -> i16 {
    match self {
      SOp::Ins(v) => { let prev = *slot; *slot = Some(v); opt_code(prev) }
      SOp::Rem => { let prev = *slot; *slot = None; opt_code(prev) }
      SOp::OrIns(v) => { let cur = slot.unwrap_or(v); *slot = Some(cur); cur as i16 }
      SOp::Modify => { if let Some(v) = slot { *v = 1 - *v; } opt_code(*slot) }
    }
  }
}

/// How a `MapWriter` / map is obtained for a write.
#[derive(Clone, Copy, PartialEq, Eq, Hash, PartialOrd, Ord, Debug)]
pub enum WRoute {
  /// (a) inside a task: `Context::write(&key, MapEqualsChecker, |w| ..)`.
  CtxWrite,
  /// (b) inside a task: `Context::create_writer` + `Context::written_to`.
  CreateWriter,
  /// (c) directly: `pie.resource_state_mut::<K>().get_global_map_mut()`.
  GlobalMap,
  /// (d) directly: `Resource::write(&key, pie.resource_state_mut::<K>())` (a `MapWriter` outside any task).
  ResWrite,
}

#[derive(Clone, Copy, PartialEq, Eq, Hash, PartialOrd, Ord, Debug)]
pub enum RRoute {
  /// inside a task: `Context::read(&key, MapEqualsChecker)` (+ `stamp_reader` on the reader, + pie's own read stamp).
  CtxRead,
  /// inside a task: `Context::create_writer(&key)` then `MapWriter::get` / `get_mut` (no dependency).
  TaskWriterGet,
  GlobalMap,
  GlobalMapMut,
  ResRead,
  ResWrite,
  Stamp,
  Check,
}

#[derive(Clone, Copy, PartialEq, Eq, Hash, PartialOrd, Ord, Debug)]
pub enum TypedOp { Get, GetMut, Set(u8), GetBoxed, GetBoxedMut, SetBoxed(u8), Gosd, GosdMut }

#[derive(Clone, Copy, PartialEq, Eq, Hash, PartialOrd, Ord, Debug)]
pub enum Op {
  Map { kt: KT, key: u8, route: WRoute, bottom_up: bool, op: MapOp },
  Read { kt: KT, key: u8, route: RRoute, bottom_up: bool },
  Typed { res: Res, st: ST, op: TypedOp },
}

/// Labelled observations of one operation. Values: -1 = None/absent, 0/1 = value index or bool, 100.. = map code,
/// 998/999 = not observed / not decodable.
pub type Obs = Vec<(&'static str, i16)>;

impl Op {
  fn in_task(&self) -> bool {
    match self {
      Op::Map { route, .. } => matches!(route, WRoute::CtxWrite | WRoute::CreateWriter),
      Op::Read { route, .. } => matches!(route, RRoute::CtxRead | RRoute::TaskWriterGet),
      Op::Typed { .. } => false,
    }
  }

  pub fn text(&self) -> String {
    let mode = |in_task: bool, bu: bool| if !in_task { "-" } else if bu { "bu" } else { "td" };
    match *self {
      Op::Map { kt, key, route, bottom_up, op } => {
        let r = match route { WRoute::CtxWrite => "ctx_write", WRoute::CreateWriter => "create_writer", WRoute::GlobalMap => "global_map", WRoute::ResWrite => "res_write" };
        let o = match op { MapOp::Insert(v) => format!("insert:{}", v), MapOp::Remove => "remove:-".to_string(), MapOp::OrInsert(v) => format!("or_insert:{}", v),
          MapOp::Seq(a, b) => format!("seq:{}+{}", a.text(), b.text()) };
        format!("map:{}:{}:{}:{}:{}", kt.name(), key, r, mode(self.in_task(), bottom_up), o)
      }
      Op::Read { kt, key, route, bottom_up } => {
        let r = match route {
          RRoute::CtxRead => "ctx_read", RRoute::TaskWriterGet => "task_writer_get", RRoute::GlobalMap => "global_map", RRoute::GlobalMapMut => "global_map_mut",
          RRoute::ResRead => "res_read", RRoute::ResWrite => "res_write", RRoute::Stamp => "stamp", RRoute::Check => "check",
        };
        format!("read:{}:{}:{}:{}", kt.name(), key, r, mode(self.in_task(), bottom_up))
      }
      Op::Typed { res, st, op } => {
        let o = match op {
          TypedOp::Get => "get:-".to_string(), TypedOp::GetMut => "get_mut:-".to_string(), TypedOp::Set(v) => format!("set:{}", v),
          TypedOp::GetBoxed => "get_boxed:-".to_string(), TypedOp::GetBoxedMut => "get_boxed_mut:-".to_string(), TypedOp::SetBoxed(v) => format!("set_boxed:{}", v),
          TypedOp::Gosd => "get_or_set_default:-".to_string(), TypedOp::GosdMut => "get_or_set_default_mut:-".to_string(),
        };
        format!("typed:{}:{}:{}", res.name(), st.name(), o)
      }
    }
  }

  pub fn parse(s: &str) -> Option<Op> {
    let p: Vec<&str> = s.split(':').collect();
    let kt = |x: &str| match x { "K1" => Some(KT::K1), "K2" => Some(KT::K2), "K3" => Some(KT::K3), "T1" => Some(KT::T1), "T2" => Some(KT::T2), "O" => Some(KT::O), _ => None };
    let key_of = |kt: KT, x: &str| x.parse::<u8>().ok().filter(|k| *k < kt.n_keys() && x == k.to_string());
    let bit = |x: &str| match x { "0" => Some(0u8), "1" => Some(1u8), _ => None };
    match p.as_slice() {
      ["map", k, key, r, m, o, v] => {
        let route = match *r { "ctx_write" => WRoute::CtxWrite, "create_writer" => WRoute::CreateWriter, "global_map" => WRoute::GlobalMap, "res_write" => WRoute::ResWrite, _ => return None };
        let op = match *o { "insert" => MapOp::Insert(bit(v)?), "remove" => MapOp::Remove, "or_insert" => MapOp::OrInsert(bit(v)?),
          "seq" => { let (a, b) = v.split_once('+')?; MapOp::Seq(SOp::parse(a)?, SOp::parse(b)?) }
          _ => return None };
        Some(Op::Map { kt: kt(k)?, key: key_of(kt(k)?, key)?, route, bottom_up: *m == "bu", op })
      }
      ["read", k, key, r, m] => {
        let route = match *r {
          "ctx_read" => RRoute::CtxRead, "task_writer_get" => RRoute::TaskWriterGet, "global_map" => RRoute::GlobalMap, "global_map_mut" => RRoute::GlobalMapMut,
          "res_read" => RRoute::ResRead, "res_write" => RRoute::ResWrite, "stamp" => RRoute::Stamp, "check" => RRoute::Check, _ => return None,
        };
        Some(Op::Read { kt: kt(k)?, key: key_of(kt(k)?, key)?, route, bottom_up: *m == "bu" })
      }
      ["typed", r, s, o, v] => {
        let res = match *r { "K1" => Res::K1, "K2" => Res::K2, "K3" => Res::K3, "RA" => Res::RA, "RB" => Res::RB, "T1" => Res::T1, "T2" => Res::T2, "O" => Res::O, _ => return None };
        let st = match *s { "Shared" => ST::Shared, "Other" => ST::Other, "M1" => ST::M1, _ => return None };
        let op = match *o {
          "get" => TypedOp::Get, "get_mut" => TypedOp::GetMut, "set" => TypedOp::Set(bit(v)?), "get_boxed" => TypedOp::GetBoxed,
          "get_boxed_mut" => TypedOp::GetBoxedMut, "set_boxed" => TypedOp::SetBoxed(bit(v)?), "get_or_set_default" => TypedOp::Gosd,
          "get_or_set_default_mut" => TypedOp::GosdMut, _ => return None,
        };
        Some(Op::Typed { res, st, op })
      }
      _ => None,
    }
  }
}

impl Model {
  pub fn initial() -> Model { Model { slots: [Slot::Absent; N_RES] } }

  pub fn text(&self) -> String {
    ALL_RES.iter().map(|r| format!("{}={}", r.name(), self.slots[r.idx()].text())).collect::<Vec<_>>().join(" ")
  }

  /// The global map of key type `kt` if (and only if) the state of resource type `kt` currently is such a map.
  pub fn map_of(&self, kt: KT) -> Option<[Option<u8>; 2]> {
    match self.slots[kt.res().idx()] { Slot::Map(k, m) if k == kt => Some(m), _ => None }
  }

  /// `get_or_set_default(_mut)::<HashMap<K, V>>` on the state of resource type K: anything else is replaced.
  fn ensure_map(&mut self, kt: KT) -> &mut [Option<u8>; 2] {
    let i = kt.res().idx();
    if self.map_of(kt).is_none() { self.slots[i] = Slot::Map(kt, [None, None]); }
    match &mut self.slots[i] { Slot::Map(_, m) => m, _ => unreachable!() }
  }

  /// Applies `op` and returns the observations the documentation predicts. `tick` = the number of the step (the value
  /// the harness stores under `Tick` before the step).
  pub fn apply(&mut self, op: Op, tick: u32) -> Obs {
    let mut obs: Obs = Vec::new();
    if op.in_task() { obs.push(("tick", tick as i16)); }
    match op {
      Op::Map { kt, key, route, op: mop, .. } => {
        let m = self.ensure_map(kt);
        let k = (key % 2) as usize; // logical key (for `O` the key index also carries the constructor)
        match mop {
          MapOp::Insert(v) => obs.push(("ret", SOp::Ins(v).apply_model(&mut m[k]))),
          MapOp::Remove => obs.push(("ret", SOp::Rem.apply_model(&mut m[k]))),
          MapOp::OrInsert(v) => obs.push(("ret", SOp::OrIns(v).apply_model(&mut m[k]))),
          MapOp::Seq(a, b) => {
            obs.push(("ret", a.apply_model(&mut m[k])));
            obs.push(("mid_get", opt_code(m[k])));
            obs.push(("ret2", b.apply_model(&mut m[k])));
          }
        }
        let after = opt_code(m[k]);
        obs.push(("after_get", after));
        match route {
          WRoute::CtxWrite => obs.push(("tracker_write_stamp", after)),
          WRoute::CreateWriter => { obs.push(("stamp_writer", after)); obs.push(("tracker_write_stamp", after)); }
          WRoute::GlobalMap => {}
          WRoute::ResWrite => obs.push(("stamp_writer", after)),
        }
      }
      Op::Read { kt, key, route, .. } => {
        let v = opt_code(self.ensure_map(kt)[(key % 2) as usize]);
        match route {
          RRoute::CtxRead => { obs.push(("read", v)); obs.push(("stamp_reader", v)); obs.push(("tracker_read_stamp", v)); }
          RRoute::TaskWriterGet => { obs.push(("writer_get", v)); obs.push(("writer_get_mut", v)); }
          RRoute::GlobalMap | RRoute::GlobalMapMut => obs.push(("read", v)),
          RRoute::ResRead => { obs.push(("read", v)); obs.push(("stamp_reader", v)); }
          RRoute::ResWrite => { obs.push(("writer_get", v)); obs.push(("writer_get_mut", v)); }
          RRoute::Stamp => obs.push(("stamp", v)),
          RRoute::Check => obs.push(("check_against_none_consistent", (v == -1) as i16)),
        }
      }
      Op::Typed { res, st, op: top } => {
        let i = res.idx();
        let cur = self.slots[i];
        match top {
          TypedOp::Get => obs.push(("get", cur.code_as(st))),
          TypedOp::GetMut => { obs.push(("get_mut", cur.code_as(st))); if cur.is_st(st) { self.slots[i] = cur.flip(); } }
          TypedOp::Set(v) | TypedOp::SetBoxed(v) => self.slots[i] = Slot::mk(st, v),
          TypedOp::GetBoxed => { obs.push(("boxed_some", (cur != Slot::Absent) as i16)); obs.push(("boxed_as_S", cur.code_as(st))); }
          TypedOp::GetBoxedMut => {
            obs.push(("boxed_some", (cur != Slot::Absent) as i16));
            obs.push(("boxed_as_S", cur.code_as(st)));
            if cur.is_st(st) { self.slots[i] = cur.flip(); } else if cur != Slot::Absent { self.slots[i] = Slot::mk(st, 1); }
          }
          TypedOp::Gosd => { if !cur.is_st(st) { self.slots[i] = Slot::default_of(st); } obs.push(("get_or_set_default", self.slots[i].code())); }
          TypedOp::GosdMut => {
            if !cur.is_st(st) { self.slots[i] = Slot::default_of(st); }
            obs.push(("get_or_set_default_mut", self.slots[i].code()));
            self.slots[i] = self.slots[i].flip();
          }
        }
      }
    }
    if op.in_task() {
      obs.push(("execs", 1));
      obs.push(("cmd_consumed", 1));
      obs.push(("dep_check_errors", 0));
    }
    obs
  }
}

/// Operation alphabet of a tier (deterministic order).
pub fn alphabet(tier: Tier) -> Vec<Op> {
  let thorough = tier == Tier::Thorough;
  let kts: &[KT] = if thorough { &[KT::K1, KT::K2, KT::K3] } else { &[KT::K1, KT::K2] };
  let modes: &[bool] = &[false, true];
  let mut ops = Vec::new();
  for &kt in kts {
    for key in 0..2u8 {
      for route in [WRoute::CtxWrite, WRoute::CreateWriter, WRoute::GlobalMap, WRoute::ResWrite] {
        let in_task = matches!(route, WRoute::CtxWrite | WRoute::CreateWriter);
        for &bottom_up in if in_task { modes } else { &[false][..] } {
          for op in [MapOp::Insert(0), MapOp::Insert(1), MapOp::Remove, MapOp::OrInsert(0), MapOp::OrInsert(1)] {
            ops.push(Op::Map { kt, key, route, bottom_up, op });
          }
        }
      }
      for route in [RRoute::CtxRead, RRoute::TaskWriterGet, RRoute::GlobalMap, RRoute::GlobalMapMut, RRoute::ResRead, RRoute::ResWrite, RRoute::Stamp, RRoute::Check] {
        let in_task = matches!(route, RRoute::CtxRead | RRoute::TaskWriterGet);
        for &bottom_up in if in_task { modes } else { &[false][..] } {
          ops.push(Op::Read { kt, key, route, bottom_up });
        }
      }
    }
  }
  let typed = [TypedOp::Get, TypedOp::GetMut, TypedOp::Set(0), TypedOp::Set(1), TypedOp::GetBoxed, TypedOp::GetBoxedMut,
    TypedOp::SetBoxed(0), TypedOp::SetBoxed(1), TypedOp::Gosd, TypedOp::GosdMut];
  for res in [Res::RA, Res::RB, Res::K1] {
    for st in [ST::Shared, ST::Other] {
      for op in typed { ops.push(Op::Typed { res, st, op }); }
    }
  }
  if thorough {
    // The type of K1's global map stored under another resource type (must stay invisible to K1), and stored
    // directly under K1 (a legitimate "store through the resource state").
    for res in [Res::RA, Res::K1] {
      for op in typed { ops.push(Op::Typed { res, st: ST::M1, op }); }
    }
  }
  ops
}

/// Operation alphabet of the family "writer_pairs": every ordered PAIR of writer operations (insert 0/1, remove through
/// `entry()`, `entry().or_insert` 0/1, `entry().and_modify`) performed on ONE writer, with a `get` in between, through
/// every write route (in-task routes in both session modes), on key 0 of K1; single operations and reads reach every
/// prior state of the key. Judged by the sequential `HashMap` model.
pub fn alphabet_writer_pairs(_tier: Tier) -> Vec<Op> {
  let mut ops = Vec::new();
  let (kt, key) = (KT::K1, 0u8);
  for route in [WRoute::CtxWrite, WRoute::CreateWriter, WRoute::GlobalMap, WRoute::ResWrite] {
    let in_task = matches!(route, WRoute::CtxWrite | WRoute::CreateWriter);
    for &bottom_up in if in_task { &[false, true][..] } else { &[false][..] } {
      for a in ALL_SOPS {
        for b in ALL_SOPS { ops.push(Op::Map { kt, key, route, bottom_up, op: MapOp::Seq(a, b) }); }
      }
    }
  }
  for op in [MapOp::Insert(0), MapOp::Insert(1), MapOp::Remove] { ops.push(Op::Map { kt, key, route: WRoute::GlobalMap, bottom_up: false, op }); }
  for route in [RRoute::CtxRead, RRoute::GlobalMap, RRoute::ResRead, RRoute::Stamp] { ops.push(Op::Read { kt, key, route, bottom_up: false }); }
  // the other key of the same type and a key of another type: must stay untouched (observed every step)
  ops.push(Op::Map { kt, key: 1, route: WRoute::ResWrite, bottom_up: false, op: MapOp::Seq(SOp::Ins(1), SOp::OrIns(0)) });
  ops.push(Op::Map { kt: KT::K2, key: 0, route: WRoute::ResWrite, bottom_up: false, op: MapOp::Seq(SOp::Ins(0), SOp::Modify) });
  ops
}

/// Operation alphabet of the family "alternation": typed state accesses that alternate between two state types on ONE
/// resource type (plain resource RA: Shared/Other; key type K1: its map displaced by a foreign state type and then
/// read again). Small alphabet, explored WITHOUT state merging to a larger depth, because what a displaced state
/// leaves behind is not part of the model state. Model: a `get_or_set_default(_mut)` of another type resets the slot to
/// that type's default; nothing of the old content may ever come back.
pub fn alphabet_alternation(_tier: Tier) -> Vec<Op> {
  let mut ops = Vec::new();
  for st in [ST::Shared, ST::Other] {
    for op in [TypedOp::Set(1), TypedOp::Gosd, TypedOp::GosdMut, TypedOp::Get] { ops.push(Op::Typed { res: Res::RA, st, op }); }
  }
  for route in [WRoute::GlobalMap, WRoute::ResWrite] { ops.push(Op::Map { kt: KT::K1, key: 0, route, bottom_up: false, op: MapOp::Insert(1) }); }
  for route in [RRoute::GlobalMap, RRoute::Stamp, RRoute::Check, RRoute::CtxRead] { ops.push(Op::Read { kt: KT::K1, key: 0, route, bottom_up: false }); }
  for op in [TypedOp::Gosd, TypedOp::GosdMut, TypedOp::Set(1)] { ops.push(Op::Typed { res: Res::K1, st: ST::Other, op }); }
  ops.push(Op::Typed { res: Res::K1, st: ST::Shared, op: TypedOp::Gosd });
  ops
}

/// Operation alphabet of the family that exercises the trait-object key type `MapKeyObjToObj`: every key index
/// (logical key x public constructor) through every write and read route. Bystander: one key of K1.
pub fn alphabet_objkeys(_tier: Tier) -> Vec<Op> {
  let mut ops = Vec::new();
  let kt = KT::O;
  for key in 0..kt.n_keys() {
    for route in [WRoute::CtxWrite, WRoute::CreateWriter, WRoute::GlobalMap, WRoute::ResWrite] {
      let in_task = matches!(route, WRoute::CtxWrite | WRoute::CreateWriter);
      for &bottom_up in if in_task { &[false, true][..] } else { &[false][..] } {
        for op in [MapOp::Insert(0), MapOp::Insert(1), MapOp::Remove, MapOp::OrInsert(0), MapOp::OrInsert(1)] {
          ops.push(Op::Map { kt, key, route, bottom_up, op });
        }
      }
    }
    for route in [RRoute::CtxRead, RRoute::TaskWriterGet, RRoute::GlobalMap, RRoute::GlobalMapMut, RRoute::ResRead, RRoute::ResWrite, RRoute::Stamp, RRoute::Check] {
      let in_task = matches!(route, RRoute::CtxRead | RRoute::TaskWriterGet);
      for &bottom_up in if in_task { &[false, true][..] } else { &[false][..] } {
        ops.push(Op::Read { kt, key, route, bottom_up });
      }
    }
  }
  ops.push(Op::Map { kt: KT::K1, key: 0, route: WRoute::GlobalMap, bottom_up: false, op: MapOp::Insert(1) });
  ops.push(Op::Read { kt: KT::K1, key: 0, route: RRoute::GlobalMap, bottom_up: false });
  ops
}

/// Operation alphabet of the family that exercises the twin key types T1/T2 (two distinct types with the same
/// `type_name`): the full map and typed-state alphabet on both, plus one key of K1 and `Shared` on RA as bystanders.
pub fn alphabet_twins(_tier: Tier) -> Vec<Op> {
  let mut ops = Vec::new();
  for kt in [KT::T1, KT::T2] {
    for key in 0..2u8 {
      for route in [WRoute::CtxWrite, WRoute::CreateWriter, WRoute::GlobalMap, WRoute::ResWrite] {
        let in_task = matches!(route, WRoute::CtxWrite | WRoute::CreateWriter);
        for &bottom_up in if in_task { &[false, true][..] } else { &[false][..] } {
          for op in [MapOp::Insert(0), MapOp::Insert(1), MapOp::Remove, MapOp::OrInsert(0), MapOp::OrInsert(1)] {
            ops.push(Op::Map { kt, key, route, bottom_up, op });
          }
        }
      }
      for route in [RRoute::CtxRead, RRoute::TaskWriterGet, RRoute::GlobalMap, RRoute::GlobalMapMut, RRoute::ResRead, RRoute::ResWrite, RRoute::Stamp, RRoute::Check] {
        let in_task = matches!(route, RRoute::CtxRead | RRoute::TaskWriterGet);
        for &bottom_up in if in_task { &[false, true][..] } else { &[false][..] } {
          ops.push(Op::Read { kt, key, route, bottom_up });
        }
      }
    }
  }
  let typed = [TypedOp::Get, TypedOp::GetMut, TypedOp::Set(0), TypedOp::Set(1), TypedOp::GetBoxed, TypedOp::GetBoxedMut,
    TypedOp::SetBoxed(0), TypedOp::SetBoxed(1), TypedOp::Gosd, TypedOp::GosdMut];
  for res in [Res::T1, Res::T2] {
    for st in [ST::Shared, ST::Other] {
      for op in typed { ops.push(Op::Typed { res, st, op }); }
    }
  }
  ops.push(Op::Map { kt: KT::K1, key: 0, route: WRoute::GlobalMap, bottom_up: false, op: MapOp::Insert(1) });
  ops.push(Op::Map { kt: KT::K1, key: 0, route: WRoute::CtxWrite, bottom_up: false, op: MapOp::Remove });
  ops.push(Op::Read { kt: KT::K1, key: 0, route: RRoute::GlobalMap, bottom_up: false });
  for op in [TypedOp::Set(1), TypedOp::Get, TypedOp::Gosd] { ops.push(Op::Typed { res: Res::RA, st: ST::Shared, op }); }
  ops
}

// ---------------------------------------------------------------------------------------------------------------------
// Implementation side: key types, resource types, state types
// ---------------------------------------------------------------------------------------------------------------------

#[derive(Copy, Clone, PartialEq, Eq, Hash, PartialOrd, Ord, Debug)]
pub struct K1(pub u8);
/// Same representation, same derives and same value type as `K1`: aliasing between them would be a bug.
#[derive(Copy, Clone, PartialEq, Eq, Hash, PartialOrd, Ord, Debug)]
pub struct K2(pub u8);
#[derive(Copy, Clone, PartialEq, Eq, Hash, PartialOrd, Ord, Debug)]
pub struct K3(pub bool);
/// Harness key that every `KeyTask` reads; changed before every step to force re-execution.
#[derive(Copy, Clone, PartialEq, Eq, Hash, PartialOrd, Ord, Debug)]
pub struct Tick;

impl MapKey for K1 { type Value = u8; }
impl MapKey for K2 { type Value = u8; }
impl MapKey for K3 { type Value = String; }
impl MapKey for Tick { type Value = u32; }

pub trait KeyT: MapKey<Value: Clone + Eq + Debug> + Clone {
  const KT: KT;
  /// Builds the key with index `key` (`key % 2` = logical key; for `O`, `key / 2` = constructor).
  fn mk(key: u8) -> Self;
  /// Keys that are never written by any operation: they must always read as absent.
  fn foreign_keys() -> Vec<(&'static str, Self)> { Vec::new() }
  fn val(v: u8) -> Self::Value;
  /// Value index of a stored value; 999 for a value outside the alphabet.
  fn unval(v: &Self::Value) -> i16;
  fn stamps(s: &mut Stamps) -> &mut [Vec<Option<Self::Value>>; 2];
}

impl KeyT for K1 {
  const KT: KT = KT::K1;
  fn mk(key: u8) -> Self { K1(key) }
  fn val(v: u8) -> u8 { v }
  fn unval(v: &u8) -> i16 { if *v <= 1 { *v as i16 } else { 999 } }
  fn stamps(s: &mut Stamps) -> &mut [Vec<Option<u8>>; 2] { &mut s.k1 }
}
impl KeyT for K2 {
  const KT: KT = KT::K2;
  fn mk(key: u8) -> Self { K2(key) }
  fn val(v: u8) -> u8 { v }
  fn unval(v: &u8) -> i16 { if *v <= 1 { *v as i16 } else { 999 } }
  fn stamps(s: &mut Stamps) -> &mut [Vec<Option<u8>>; 2] { &mut s.k2 }
}
impl KeyT for K3 {
  const KT: KT = KT::K3;
  fn mk(key: u8) -> Self { K3(key == 1) }
  fn val(v: u8) -> String { v.to_string() }
  fn unval(v: &String) -> i16 { match v.as_str() { "0" => 0, "1" => 1, _ => 999 } }
  fn stamps(s: &mut Stamps) -> &mut [Vec<Option<String>>; 2] { &mut s.k3 }
}

/// Number of public ways to construct a `MapKeyObjToObj` that the alphabet uses.
pub const N_OBJ_CTORS: u8 = 6;
const OBJ_CTOR_NAMES: [&str; N_OBJ_CTORS as usize] = [
  "MapKeyObjToObj::from(k) [inherent]", "MapKeyObjToObj::new(Box::new(k))", "Box::new(k).into() [From<Box<K>>]",
  "(Box::new(k) as Box<dyn KeyObj>).into() [From<Box<dyn KeyObj>>]", "MapKeyObjToObj(Box::new(k)) [tuple field]", "MapKeyObjToObj::from(k).clone()",
];
/// The two logical keys of `O`: key type `u8` with value 7, and the genuinely boxed key type `Box<u8>` with value 7.
const OBJ_LOGICAL_NAMES: [&str; 2] = ["7u8", "Box::new(7u8)"];

fn obj_key<T: Clone + Eq + std::hash::Hash + Any + Debug>(k: T, ctor: u8) -> MapKeyObjToObj {
  match ctor {
    0 => MapKeyObjToObj::from(k),
    1 => MapKeyObjToObj::new(Box::new(k)),
    2 => Box::new(k).into(),
    3 => (Box::new(k) as Box<dyn KeyObj>).into(),
    4 => MapKeyObjToObj(Box::new(k)),
    5 => MapKeyObjToObj::from(k).clone(),
    _ => engine_error("C14: unknown MapKeyObjToObj constructor index"),
  }
}

/// `O` = the trait-object key type `MapKeyObjToObj` (values are `Box<dyn MapValueObj>` holding a `u8`).
impl KeyT for MapKeyObjToObj {
  const KT: KT = KT::O;
  fn mk(key: u8) -> Self {
    if key % 2 == 0 { obj_key(7u8, key / 2) } else { obj_key(Box::new(7u8), key / 2) }
  }
  fn val(v: u8) -> Box<dyn MapValueObj> { Box::new(v) }
  fn unval(v: &Box<dyn MapValueObj>) -> i16 {
    match (**v).as_any().downcast_ref::<u8>() { Some(v) if *v <= 1 => *v as i16, _ => 999 }
  }
  fn stamps(s: &mut Stamps) -> &mut [Vec<Option<Box<dyn MapValueObj>>>; 2] { &mut s.o }
  fn foreign_keys() -> Vec<(&'static str, Self)> {
    vec![
      ("from(8u8) [other value]", MapKeyObjToObj::from(8u8)),
      ("Box::new(8u8).into() [other value]", Box::new(8u8).into()),
      ("from(7u16) [other type, same value]", MapKeyObjToObj::from(7u16)),
      ("Box::new(7u16).into() [other type, same value]", Box::new(7u16).into()),
      ("from(7i8) [other type, same value]", MapKeyObjToObj::from(7i8)),
      ("from(Box::new(Box::new(7u8))) [doubly boxed key type]", MapKeyObjToObj::from(Box::new(Box::new(7u8)))),
      ("from(Box::new(7u8) as Box<dyn KeyObj>) [key type Box<dyn KeyObj>]", MapKeyObjToObj::from(Box::new(7u8) as Box<dyn KeyObj>)),
      ("from((7u8,)) [tuple key type]", MapKeyObjToObj::from((7u8,))),
    ]
  }
}

/// Readable name of key index `key` of key type `kt`.
pub fn key_label(kt: KT, key: u8) -> String {
  if kt == KT::O {
    format!("key#{} = {} built by {}", key, OBJ_LOGICAL_NAMES[(key % 2) as usize], OBJ_CTOR_NAMES[((key / 2) % N_OBJ_CTORS) as usize])
  } else {
    format!("{}({})", kt.name(), key)
  }
}

fn hash_of<T: std::hash::Hash>(t: &T) -> u64 {
  use std::hash::Hasher;
  let mut h = std::collections::hash_map::DefaultHasher::new();
  t.hash(&mut h);
  h.finish()
}

/// Identity of `MapKeyObjToObj` keys: keys built from equal (key type, value) by different public constructors are
/// equal and hash equal; keys of different key types or values are unequal. Returns (failures, comparisons).
pub fn obj_key_identity_failures() -> (Vec<String>, u64) {
  let mut failures = Vec::new();
  let mut n = 0u64;
  let keys: Vec<(u8, MapKeyObjToObj)> = (0..KT::O.n_keys()).map(|i| (i, MapKeyObjToObj::mk(i))).collect();
  for (i, a) in &keys {
    for (j, b) in &keys {
      let same = i % 2 == j % 2;
      n += 2;
      if (a == b) != same {
        failures.push(format!("[{}] == [{}] is {}, expected {}", key_label(KT::O, *i), key_label(KT::O, *j), a == b, same));
      }
      if same && hash_of(a) != hash_of(b) {
        failures.push(format!("[{}] and [{}] denote the same key but hash differently", key_label(KT::O, *i), key_label(KT::O, *j)));
      }
      // the same through the object-safe key proxy pie's store uses
      n += 1;
      let (da, db): (&dyn KeyObj, &dyn KeyObj) = (a, b);
      if (da == db) != same {
        failures.push(format!("as dyn KeyObj: [{}] == [{}] is {}, expected {}", key_label(KT::O, *i), key_label(KT::O, *j), da == db, same));
      }
    }
    for (what, f) in MapKeyObjToObj::foreign_keys() {
      n += 1;
      if *a == f || f == *a {
        failures.push(format!("[{}] equals the key {} of another key type or value", key_label(KT::O, *i), what));
      }
    }
  }
  (failures, n)
}

/// Real stamps recorded along a path, per key type and key (distinct values only).
#[derive(Default)]
pub struct Stamps {
  k1: [Vec<Option<u8>>; 2],
  k2: [Vec<Option<u8>>; 2],
  k3: [Vec<Option<String>>; 2],
  o: [Vec<Option<Box<dyn MapValueObj>>>; 2],
  t1: [Vec<Option<u8>>; 2],
  t2: [Vec<Option<u8>>; 2],
}

fn code<K: KeyT>(v: Option<&K::Value>) -> i16 { match v { None => -1, Some(v) => K::unval(v) } }

/// Two resource types of the harness that store the SAME state type, with trivial readers/writers.
#[derive(Copy, Clone, PartialEq, Eq, Hash, Debug)]
pub struct RA;
#[derive(Copy, Clone, PartialEq, Eq, Hash, Debug)]
pub struct RB;

macro_rules! trivial_resource {
  ($t:ty) => {
    impl Resource for $t {
      type Reader<'rs> = ();
      type Writer<'r> = ();
      type Error = Infallible;
      fn read<'rs, RS: ResourceState<Self>>(&self, _state: &'rs mut RS) -> Result<(), Infallible> { Ok(()) }
      fn write<'r, RS: ResourceState<Self>>(&'r self, _state: &'r mut RS) -> Result<(), Infallible> { Ok(()) }
    }
  };
}
trivial_resource!(RA);
trivial_resource!(RB);

#[derive(Clone, Default, PartialEq, Eq, Debug)]
pub struct Shared(pub u8);
#[derive(Clone, Default, PartialEq, Eq, Debug)]
pub struct Other(pub bool);

/// A state type of the typed-state alphabet (implementation side of `ST`).
trait StT: Any + Default {
  fn mk(v: u8) -> Self;
  fn flip(&mut self);
  fn code(&self) -> i16;
}

impl StT for Shared {
  fn mk(v: u8) -> Self { Shared(v) }
  fn flip(&mut self) { self.0 = 1 - self.0; }
  fn code(&self) -> i16 { if self.0 <= 1 { self.0 as i16 } else { 999 } }
}
impl StT for Other {
  fn mk(v: u8) -> Self { Other(v == 1) }
  fn flip(&mut self) { self.0 = !self.0; }
  fn code(&self) -> i16 { self.0 as i16 }
}
impl StT for HashMap<K1, u8> {
  fn mk(v: u8) -> Self { let mut m = HashMap::new(); m.insert(K1(0), v); m }
  fn flip(&mut self) { if self.remove(&K1(1)).is_none() { self.insert(K1(1), 1); } }
  fn code(&self) -> i16 { map_code::<K1>(self) }
}

/// Decodes a real map into the model's `[value of key 0, value of key 1]`; `None` if it holds anything else.
fn map_entries<K: KeyT>(m: &HashMap<K, K::Value>) -> Option<[Option<u8>; 2]> {
  let mut out = [None, None];
  let mut n = 0;
  for key in 0..2u8 {
    if let Some(v) = m.get(&K::mk(key)) {
      let c = K::unval(v);
      if !(0..=1).contains(&c) { return None; }
      out[key as usize] = Some(c as u8);
      n += 1;
    }
  }
  if n != m.len() { return None; }
  Some(out)
}

fn map_code<K: KeyT>(m: &HashMap<K, K::Value>) -> i16 {
  match map_entries::<K>(m) { Some([a, b]) => 100 + enc(a) * 3 + enc(b), None => 999 }
}

/// Side-effect free description of a boxed state value.
#[derive(Clone, PartialEq, Eq, Debug)]
enum Desc { Slot(Slot), TickMap(Option<u32>, usize), Unknown }

fn describe<W: Twins>(any: &dyn Any) -> Desc {
  if let Some(s) = any.downcast_ref::<Shared>() { return if s.0 <= 1 { Desc::Slot(Slot::Shared(s.0)) } else { Desc::Unknown }; }
  if let Some(s) = any.downcast_ref::<Other>() { return Desc::Slot(Slot::Other(s.0)); }
  if let Some(m) = any.downcast_ref::<HashMap<K1, u8>>() { return map_entries::<K1>(m).map_or(Desc::Unknown, |e| Desc::Slot(Slot::Map(KT::K1, e))); }
  if let Some(m) = any.downcast_ref::<HashMap<K2, u8>>() { return map_entries::<K2>(m).map_or(Desc::Unknown, |e| Desc::Slot(Slot::Map(KT::K2, e))); }
  if let Some(m) = any.downcast_ref::<HashMap<K3, String>>() { return map_entries::<K3>(m).map_or(Desc::Unknown, |e| Desc::Slot(Slot::Map(KT::K3, e))); }
  if let Some(m) = any.downcast_ref::<HashMap<W::A, u8>>() { return map_entries::<W::A>(m).map_or(Desc::Unknown, |e| Desc::Slot(Slot::Map(KT::T1, e))); }
  if let Some(m) = any.downcast_ref::<HashMap<W::B, u8>>() { return map_entries::<W::B>(m).map_or(Desc::Unknown, |e| Desc::Slot(Slot::Map(KT::T2, e))); }
  if let Some(m) = any.downcast_ref::<HashMap<MapKeyObjToObj, Box<dyn MapValueObj>>>() { return map_entries::<MapKeyObjToObj>(m).map_or(Desc::Unknown, |e| Desc::Slot(Slot::Map(KT::O, e))); }
  if let Some(m) = any.downcast_ref::<HashMap<Tick, u32>>() { return Desc::TickMap(m.get(&Tick).copied(), m.len()); }
  Desc::Unknown
}

fn describe_res<W: Twins, R: Resource>(pie: &Pie<Rec>) -> Desc {
  match pie.resource_state::<R>().get_boxed() { None => Desc::Slot(Slot::Absent), Some(b) => describe::<W>(&**b) }
}

/// `get::<S>` for all eight state types on resource type `R`: [Shared, Other, Map<K1>, Map<K2>, Map<K3>, Map<T1>, Map<T2>, Map<O>].
fn typed_gets<W: Twins, R: Resource>(pie: &Pie<Rec>) -> [i16; 8] {
  let s = pie.resource_state::<R>();
  [
    s.get::<Shared>().map_or(-1, |x| x.code()),
    s.get::<Other>().map_or(-1, |x| x.code()),
    s.get::<HashMap<K1, u8>>().map_or(-1, map_code::<K1>),
    s.get::<HashMap<K2, u8>>().map_or(-1, map_code::<K2>),
    s.get::<HashMap<K3, String>>().map_or(-1, map_code::<K3>),
    s.get::<HashMap<W::A, u8>>().map_or(-1, map_code::<W::A>),
    s.get::<HashMap<W::B, u8>>().map_or(-1, map_code::<W::B>),
    s.get::<HashMap<MapKeyObjToObj, Box<dyn MapValueObj>>>().map_or(-1, map_code::<MapKeyObjToObj>),
  ]
}

fn expected_typed_gets(slot: Slot) -> [i16; 8] {
  let mut e = [-1i16; 8];
  match slot {
    Slot::Absent => {}
    Slot::Shared(_) => e[0] = slot.code(),
    Slot::Other(_) => e[1] = slot.code(),
    Slot::Map(kt, _) => e[kt.typed_pos()] = slot.code(),
  }
  e
}

// ---------------------------------------------------------------------------------------------------------------------
// Twin key types: two DISTINCT types with IDENTICAL `std::any::type_name`
// ---------------------------------------------------------------------------------------------------------------------

/// The pair of twin key types (unnameable: they are local to sibling blocks of `twin_info`), threaded through the
/// executing side as one type parameter.
pub trait Twins: 'static {
  type A: KeyT<Value = u8>;
  type B: KeyT<Value = u8>;
}

struct Pair<A, B>(std::marker::PhantomData<(A, B)>);

impl<A: KeyT<Value = u8>, B: KeyT<Value = u8>> Twins for Pair<A, B> {
  type A = A;
  type B = B;
}

/// Declares a key type local to the enclosing block (with `MapKey` and `KeyT` impls) and evaluates to a value of it.
/// Expanded twice in one function this yields two different types with the same path, hence the same `type_name`.
macro_rules! local_key_type {
  ($kt:expr, $stamps:ident) => {{
    #[derive(Copy, Clone, PartialEq, Eq, Hash, PartialOrd, Ord, Debug)]
    struct LocalKey(u8);
    impl MapKey for LocalKey { type Value = u8; }
    impl KeyT for LocalKey {
      const KT: KT = $kt;
      fn mk(key: u8) -> Self { LocalKey(key) }
      fn val(v: u8) -> u8 { v }
      fn unval(v: &u8) -> i16 { if *v <= 1 { *v as i16 } else { 999 } }
      fn stamps(s: &mut Stamps) -> &mut [Vec<Option<u8>>; 2] { &mut s.$stamps }
    }
    LocalKey(0)
  }};
}

pub struct TwinInfo {
  run_path: fn(&[Op], bool) -> PathOut,
  pub type_ids_differ: bool,
  pub type_name_a: &'static str,
  pub type_name_b: &'static str,
}

impl TwinInfo {
  pub fn same_name(&self) -> bool { self.type_name_a == self.type_name_b }
}

fn build_twin_info<A: KeyT<Value = u8>, B: KeyT<Value = u8>>(_a: A, _b: B) -> TwinInfo {
  TwinInfo {
    run_path: run_path_w::<Pair<A, B>>,
    type_ids_differ: std::any::TypeId::of::<A>() != std::any::TypeId::of::<B>(),
    type_name_a: std::any::type_name::<A>(),
    type_name_b: std::any::type_name::<B>(),
  }
}

pub fn twin_info() -> &'static TwinInfo {
  static INFO: std::sync::OnceLock<TwinInfo> = std::sync::OnceLock::new();
  INFO.get_or_init(|| {
    let a = local_key_type!(KT::T1, t1);
    let b = local_key_type!(KT::T2, t2);
    build_twin_info(a, b)
  })
}

// ---------------------------------------------------------------------------------------------------------------------
// Tracker, command cell, the one task identity per key
// ---------------------------------------------------------------------------------------------------------------------

/// Records the stamps pie itself creates for read/write dependencies: (is_write, resource, stamp) in Debug form.
#[derive(Default)]
pub struct Rec { events: Vec<(bool, String, String)> }

impl Tracker for Rec {
  fn read_end(&mut self, resource: &dyn KeyObj, _checker: &dyn ValueObj, stamp: &dyn ValueObj) {
    self.events.push((false, format!("{:?}", resource), format!("{:?}", stamp)));
  }
  fn write_end(&mut self, resource: &dyn KeyObj, _checker: &dyn ValueObj, stamp: &dyn ValueObj) {
    self.events.push((true, format!("{:?}", resource), format!("{:?}", stamp)));
  }
}

#[derive(Clone, Copy, PartialEq, Eq, Debug)]
enum What { Write { create_writer: bool, op: MapOp }, CtxRead, WriterGet }

#[derive(Clone, Copy, PartialEq, Eq, Debug)]
struct Cmd { kt: KT, key: u8, what: What }

thread_local! {
  static CMD: RefCell<Option<Cmd>> = const { RefCell::new(None) };
  static ADDR: Cell<Option<(KT, u8)>> = const { Cell::new(None) };
  static EXECS: Cell<i16> = const { Cell::new(0) };
}

fn flipped<K: KeyT>(v: &K::Value) -> K::Value { match K::unval(v) { 0 => K::val(1), 1 => K::val(0), _ => v.clone() } }

fn writer_single<K: KeyT>(w: &mut MapWriter<'_, K>, op: SOp) -> i16 {
  match op {
    SOp::Ins(v) => code::<K>(w.insert(K::val(v)).as_ref()),
    SOp::Rem => match w.entry() {
      Entry::Occupied(e) => code::<K>(Some(&e.remove())),
      Entry::Vacant(_) => -1,
    },
    SOp::OrIns(v) => { let x = w.entry().or_insert(K::val(v)).clone(); code::<K>(Some(&x)) }
    SOp::Modify => match w.entry().and_modify(|x| *x = flipped::<K>(x)) {
      Entry::Occupied(e) => code::<K>(Some(e.get())),
      Entry::Vacant(_) => -1,
    },
  }
}

/// Applies `op` through one writer; yields the result observations ("ret", and for a sequence "mid_get", "ret2").
fn writer_apply<K: KeyT>(w: &mut MapWriter<'_, K>, op: MapOp) -> Obs {
  match op {
    MapOp::Insert(v) => vec![("ret", writer_single::<K>(w, SOp::Ins(v)))],
    MapOp::Remove => vec![("ret", writer_single::<K>(w, SOp::Rem))],
    MapOp::OrInsert(v) => vec![("ret", writer_single::<K>(w, SOp::OrIns(v)))],
    MapOp::Seq(a, b) => {
      let r1 = writer_single::<K>(w, a);
      let mid = code::<K>(w.get());
      let r2 = writer_single::<K>(w, b);
      vec![("ret", r1), ("mid_get", mid), ("ret2", r2)]
    }
  }
}

fn hashmap_single<K: KeyT>(m: &mut HashMap<K, K::Value>, key: K, op: SOp) -> i16 {
  match op {
    SOp::Ins(v) => code::<K>(m.insert(key, K::val(v)).as_ref()),
    SOp::Rem => match m.entry(key) {
      Entry::Occupied(e) => code::<K>(Some(&e.remove())),
      Entry::Vacant(_) => -1,
    },
    SOp::OrIns(v) => { let x = m.entry(key).or_insert(K::val(v)).clone(); code::<K>(Some(&x)) }
    SOp::Modify => match m.entry(key).and_modify(|x| *x = flipped::<K>(x)) {
      Entry::Occupied(e) => code::<K>(Some(e.get())),
      Entry::Vacant(_) => -1,
    },
  }
}

fn hashmap_apply<K: KeyT>(m: &mut HashMap<K, K::Value>, key: K, op: MapOp) -> Obs {
  match op {
    MapOp::Insert(v) => vec![("ret", hashmap_single::<K>(m, key, SOp::Ins(v)))],
    MapOp::Remove => vec![("ret", hashmap_single::<K>(m, key, SOp::Rem))],
    MapOp::OrInsert(v) => vec![("ret", hashmap_single::<K>(m, key, SOp::OrIns(v)))],
    MapOp::Seq(a, b) => {
      let r1 = hashmap_single::<K>(m, key.clone(), a);
      let mid = code::<K>(m.get(&key));
      let r2 = hashmap_single::<K>(m, key, b);
      vec![("ret", r1), ("mid_get", mid), ("ret2", r2)]
    }
  }
}

/// The single task identity that ever touches key `self.0` of key type `K` (see module documentation).
#[derive(Clone, PartialEq, Eq, Hash, Debug)]
struct KeyTask<K>(K);

impl<K: KeyT> Task for KeyTask<K> {
  type Output = Obs;
  fn execute<C: Context>(&self, context: &mut C) -> Obs {
    let mut obs: Obs = Vec::new();
    let tick = context.read(&Tick, MapEqualsChecker).unwrap().copied();
    obs.push(("tick", tick.map_or(-1, |t| t as i16)));
    let me = (K::KT, if self.0 == K::mk(1) { 1u8 } else { 0u8 }); // logical key
    if ADDR.with(|a| a.get()) == Some(me) { EXECS.with(|e| e.set(e.get() + 1)); }
    let cmd = CMD.with(|c| {
      let mut c = c.borrow_mut();
      match *c { Some(cmd) if (cmd.kt, cmd.key % 2) == me => c.take(), _ => None }
    });
    let Some(cmd) = cmd else { return obs; };
    match cmd.what {
      What::Write { create_writer: false, op } => {
        let (mut rets, mut after) = (vec![("ret", 998)], 998);
        context.write(&self.0, MapEqualsChecker, |w| {
          rets = writer_apply::<K>(w, op);
          after = code::<K>(w.get());
          Ok(())
        }).unwrap();
        obs.extend(rets);
        obs.push(("after_get", after));
      }
      What::Write { create_writer: true, op } => {
        let mut w = context.create_writer(&self.0).unwrap();
        obs.extend(writer_apply::<K>(&mut w, op));
        obs.push(("after_get", code::<K>(w.get())));
        let stamp = ResourceChecker::<K>::stamp_writer(&MapEqualsChecker, &self.0, w).unwrap();
        obs.push(("stamp_writer", code::<K>(stamp.as_ref())));
        context.written_to(&self.0, MapEqualsChecker).unwrap();
      }
      What::CtxRead => {
        let mut reader = context.read(&self.0, MapEqualsChecker).unwrap();
        obs.push(("read", code::<K>(reader)));
        let stamp = ResourceChecker::<K>::stamp_reader(&MapEqualsChecker, &self.0, &mut reader).unwrap();
        obs.push(("stamp_reader", code::<K>(stamp.as_ref())));
      }
      What::WriterGet => {
        let mut w = context.create_writer(&self.0).unwrap();
        obs.push(("writer_get", code::<K>(w.get())));
        obs.push(("writer_get_mut", code::<K>(w.get_mut().map(|x| &*x))));
      }
    }
    obs
  }
}

fn decode_stamp_dbg<K: KeyT>(s: &str) -> i16 {
  if s == "None" { return -1; }
  for v in 0..2u8 {
    if s == format!("{:?}", Some(K::val(v))) { return v as i16; }
  }
  999
}

fn run_task<K: KeyT>(pie: &mut Pie<Rec>, key: u8, what: What, bottom_up: bool) -> Obs {
  CMD.with(|c| *c.borrow_mut() = Some(Cmd { kt: K::KT, key, what }));
  ADDR.with(|a| a.set(Some((K::KT, key % 2))));
  EXECS.with(|e| e.set(0));
  pie.tracker_mut().events.clear();
  let task = KeyTask(K::mk(key));
  let (mut obs, errors) = {
    let mut session = pie.new_session();
    if bottom_up {
      let mut build = session.create_bottom_up_build();
      build.schedule_tasks_affected_by(&Tick);
      build.update_affected_tasks();
    }
    let out = session.require(&task);
    let n = session.dependency_check_errors().len();
    (out, n)
  };
  let key_dbg = format!("{:?}", K::mk(key));
  let tracker_stamp = |is_write: bool, events: &[(bool, String, String)]| {
    events.iter().rev().find(|(w, r, _)| *w == is_write && *r == key_dbg).map_or(998, |(_, _, s)| decode_stamp_dbg::<K>(s))
  };
  match what {
    What::Write { .. } => obs.push(("tracker_write_stamp", tracker_stamp(true, &pie.tracker().events))),
    What::CtxRead => obs.push(("tracker_read_stamp", tracker_stamp(false, &pie.tracker().events))),
    What::WriterGet => {}
  }
  obs.push(("execs", EXECS.with(|e| e.get())));
  obs.push(("cmd_consumed", CMD.with(|c| c.borrow_mut().take().is_none()) as i16));
  obs.push(("dep_check_errors", errors as i16));
  ADDR.with(|a| a.set(None));
  obs
}

// ---------------------------------------------------------------------------------------------------------------------
// Executing one operation on the real Pie
// ---------------------------------------------------------------------------------------------------------------------

fn exec_map<K: KeyT>(pie: &mut Pie<Rec>, key: u8, route: WRoute, bottom_up: bool, op: MapOp) -> Obs {
  let k = K::mk(key);
  match route {
    WRoute::CtxWrite => run_task::<K>(pie, key, What::Write { create_writer: false, op }, bottom_up),
    WRoute::CreateWriter => run_task::<K>(pie, key, What::Write { create_writer: true, op }, bottom_up),
    WRoute::GlobalMap => {
      let m = GetGlobalMap::<K>::get_global_map_mut(pie.resource_state_mut::<K>());
      let mut obs = hashmap_apply::<K>(m, k.clone(), op);
      obs.push(("after_get", code::<K>(m.get(&k))));
      obs
    }
    WRoute::ResWrite => {
      let mut w = Resource::write(&k, pie.resource_state_mut::<K>()).unwrap();
      let mut obs = writer_apply::<K>(&mut w, op);
      obs.push(("after_get", code::<K>(w.get())));
      let stamp = ResourceChecker::<K>::stamp_writer(&MapEqualsChecker, &k, w).unwrap();
      obs.push(("stamp_writer", code::<K>(stamp.as_ref())));
      obs
    }
  }
}

fn exec_read<K: KeyT>(pie: &mut Pie<Rec>, key: u8, route: RRoute, bottom_up: bool) -> Obs {
  let k = K::mk(key);
  match route {
    RRoute::CtxRead => run_task::<K>(pie, key, What::CtxRead, bottom_up),
    RRoute::TaskWriterGet => run_task::<K>(pie, key, What::WriterGet, bottom_up),
    RRoute::GlobalMap => vec![("read", code::<K>(GetGlobalMap::<K>::get_global_map(pie.resource_state_mut::<K>()).get(&k)))],
    RRoute::GlobalMapMut => vec![("read", code::<K>(GetGlobalMap::<K>::get_global_map_mut(pie.resource_state_mut::<K>()).get(&k)))],
    RRoute::ResRead => {
      let mut reader = Resource::read(&k, pie.resource_state_mut::<K>()).unwrap();
      let v = code::<K>(reader);
      let stamp = ResourceChecker::<K>::stamp_reader(&MapEqualsChecker, &k, &mut reader).unwrap();
      vec![("read", v), ("stamp_reader", code::<K>(stamp.as_ref()))]
    }
    RRoute::ResWrite => {
      let mut w = Resource::write(&k, pie.resource_state_mut::<K>()).unwrap();
      let g = code::<K>(w.get());
      let gm = code::<K>(w.get_mut().map(|x| &*x));
      vec![("writer_get", g), ("writer_get_mut", gm)]
    }
    RRoute::Stamp => {
      let stamp = ResourceChecker::<K>::stamp(&MapEqualsChecker, &k, pie.resource_state_mut::<K>()).unwrap();
      vec![("stamp", code::<K>(stamp.as_ref()))]
    }
    RRoute::Check => {
      let none: Option<K::Value> = None;
      let consistent = ResourceChecker::<K>::check(&MapEqualsChecker, &k, pie.resource_state_mut::<K>(), &none).unwrap().is_none();
      vec![("check_against_none_consistent", consistent as i16)]
    }
  }
}

fn exec_typed<R: Resource, S: StT>(pie: &mut Pie<Rec>, op: TypedOp) -> Obs {
  match op {
    TypedOp::Get => vec![("get", pie.resource_state::<R>().get::<S>().map_or(-1, |s| s.code()))],
    TypedOp::GetMut => match pie.resource_state_mut::<R>().get_mut::<S>() {
      Some(s) => { let c = s.code(); s.flip(); vec![("get_mut", c)] }
      None => vec![("get_mut", -1)],
    },
    TypedOp::Set(v) => { pie.resource_state_mut::<R>().set::<S>(S::mk(v)); vec![] }
    TypedOp::GetBoxed => match pie.resource_state::<R>().get_boxed() {
      None => vec![("boxed_some", 0), ("boxed_as_S", -1)],
      Some(b) => vec![("boxed_some", 1), ("boxed_as_S", (**b).downcast_ref::<S>().map_or(-1, |s| s.code()))],
    },
    TypedOp::GetBoxedMut => match pie.resource_state_mut::<R>().get_boxed_mut() {
      None => vec![("boxed_some", 0), ("boxed_as_S", -1)],
      Some(b) => {
        let c = match (**b).downcast_mut::<S>() {
          Some(s) => { let c = s.code(); s.flip(); c }
          None => { *b = Box::new(S::mk(1)); -1 }
        };
        vec![("boxed_some", 1), ("boxed_as_S", c)]
      }
    },
    TypedOp::SetBoxed(v) => { pie.resource_state_mut::<R>().set_boxed(Box::new(S::mk(v))); vec![] }
    TypedOp::Gosd => vec![("get_or_set_default", pie.resource_state_mut::<R>().get_or_set_default::<S>().code())],
    TypedOp::GosdMut => {
      let s = pie.resource_state_mut::<R>().get_or_set_default_mut::<S>();
      let c = s.code();
      s.flip();
      vec![("get_or_set_default_mut", c)]
    }
  }
}

fn exec_op<W: Twins>(pie: &mut Pie<Rec>, op: Op) -> Obs {
  match op {
    Op::Map { kt, key, route, bottom_up, op } => match kt {
      KT::K1 => exec_map::<K1>(pie, key, route, bottom_up, op),
      KT::K2 => exec_map::<K2>(pie, key, route, bottom_up, op),
      KT::K3 => exec_map::<K3>(pie, key, route, bottom_up, op),
      KT::T1 => exec_map::<W::A>(pie, key, route, bottom_up, op),
      KT::T2 => exec_map::<W::B>(pie, key, route, bottom_up, op),
      KT::O => exec_map::<MapKeyObjToObj>(pie, key, route, bottom_up, op),
    },
    Op::Read { kt, key, route, bottom_up } => match kt {
      KT::K1 => exec_read::<K1>(pie, key, route, bottom_up),
      KT::K2 => exec_read::<K2>(pie, key, route, bottom_up),
      KT::K3 => exec_read::<K3>(pie, key, route, bottom_up),
      KT::T1 => exec_read::<W::A>(pie, key, route, bottom_up),
      KT::T2 => exec_read::<W::B>(pie, key, route, bottom_up),
      KT::O => exec_read::<MapKeyObjToObj>(pie, key, route, bottom_up),
    },
    Op::Typed { res, st, op } => {
      macro_rules! by_st {
        ($r:ty) => { match st { ST::Shared => exec_typed::<$r, Shared>(pie, op), ST::Other => exec_typed::<$r, Other>(pie, op), ST::M1 => exec_typed::<$r, HashMap<K1, u8>>(pie, op) } };
      }
      match res {
        Res::K1 => by_st!(K1), Res::K2 => by_st!(K2), Res::K3 => by_st!(K3), Res::RA => by_st!(RA), Res::RB => by_st!(RB),
        Res::T1 => by_st!(W::A), Res::T2 => by_st!(W::B), Res::O => by_st!(MapKeyObjToObj),
      }
    }
  }
}

// ---------------------------------------------------------------------------------------------------------------------
// Running a path on a fresh Pie and comparing with the model
// ---------------------------------------------------------------------------------------------------------------------

#[derive(Clone, Debug, PartialEq, Eq)]
pub struct Failure {
  pub oracle: &'static str,
  /// Index of the step (0-based) at which the comparison failed.
  pub step: usize,
  pub what: String,
  /// Not a verdict: a prefix that was validated before behaved differently this time (non-reproducible execution).
  pub engine: bool,
}

#[derive(Default)]
pub struct PathOut {
  pub failures: Vec<Failure>,
  /// Number of individual oracle comparisons.
  pub evals: u64,
  /// Number of steps at which real code and model were compared.
  pub steps: u64,
  pub last_obs: Obs,
  pub trace: Vec<Value>,
}

fn panic_text(p: Box<dyn Any + Send>) -> String {
  if let Some(s) = p.downcast_ref::<&str>() { s.to_string() } else if let Some(s) = p.downcast_ref::<String>() { s.clone() } else { "<non-string panic>".into() }
}

fn obs_json(o: &Obs) -> Value { Value::Object(o.iter().map(|(k, v)| (k.to_string(), json!(v))).collect()) }

macro_rules! with_kt {
  ($kt:expr, $f:ident, $($arg:expr),*) => {
    match $kt {
      KT::K1 => $f::<K1>($($arg),*), KT::K2 => $f::<K2>($($arg),*), KT::K3 => $f::<K3>($($arg),*),
      KT::T1 => $f::<W::A>($($arg),*), KT::T2 => $f::<W::B>($($arg),*), KT::O => $f::<MapKeyObjToObj>($($arg),*),
    }
  };
}

fn push_distinct<V: PartialEq>(v: &mut Vec<V>, x: V) { if !v.contains(&x) { v.push(x); } }

/// Prefix steps: only record the real stamp of every key (state route; a no-op on the state since the map exists).
fn record_stamps<K: KeyT>(pie: &mut Pie<Rec>, stamps: &mut Stamps) {
  for key in 0..2u8 {
    let k = K::mk(key);
    let s = ResourceChecker::<K>::stamp(&MapEqualsChecker, &k, pie.resource_state_mut::<K>()).unwrap();
    push_distinct(&mut K::stamps(stamps)[key as usize], s);
  }
}

struct Judge<'a> { failures: &'a mut Vec<Failure>, evals: &'a mut u64, step: usize }

impl Judge<'_> {
  fn eq<T: PartialEq + Debug>(&mut self, oracle: &'static str, what: &dyn Fn() -> String, observed: T, expected: T) {
    *self.evals += 1;
    if observed != expected {
      self.failures.push(Failure { oracle, step: self.step, what: format!("{}: observed {:?}, expected {:?}", what(), observed, expected), engine: false });
    }
  }
}

/// Full observation of the global map of `K` (only called when the model says the state of `K` is that map).
fn observe_map<K: KeyT>(pie: &mut Pie<Rec>, m: [Option<u8>; 2], stamps: &mut Stamps, j: &mut Judge) {
  // All key indices: for `O` every logical key is addressed through every constructor, so a value written through one
  // form of the key is read, stamped and checked through every other form (and stamps taken through one form are
  // checked through the others, via the stamps recorded below).
  for key in 0..K::KT.n_keys() {
    let k = K::mk(key);
    let slot = (key % 2) as usize;
    let want = opt_code(m[slot]);
    let s_state = ResourceChecker::<K>::stamp(&MapEqualsChecker, &k, pie.resource_state_mut::<K>()).unwrap();
    let (read_value, s_reader) = {
      let mut reader = Resource::read(&k, pie.resource_state_mut::<K>()).unwrap();
      let v = code::<K>(reader);
      (v, ResourceChecker::<K>::stamp_reader(&MapEqualsChecker, &k, &mut reader).unwrap())
    };
    let (writer_value, s_writer) = {
      let w = Resource::write(&k, pie.resource_state_mut::<K>()).unwrap();
      let v = code::<K>(w.get());
      (v, ResourceChecker::<K>::stamp_writer(&MapEqualsChecker, &k, w).unwrap())
    };
    let global_value = code::<K>(GetGlobalMap::<K>::get_global_map(pie.resource_state_mut::<K>()).get(&k));
    j.eq("C14/read-your-writes", &|| format!("{}:{} read through Resource::read", K::KT.name(), key_label(K::KT, key)), read_value, want);
    j.eq("C14/read-your-writes", &|| format!("{}:{} read through MapWriter::get", K::KT.name(), key_label(K::KT, key)), writer_value, want);
    j.eq("C14/read-your-writes", &|| format!("{}:{} read through GetGlobalMap", K::KT.name(), key_label(K::KT, key)), global_value, want);
    j.eq("C14/stamp-routes", &|| format!("{}:{} stamp(state)", K::KT.name(), key_label(K::KT, key)), code::<K>(s_state.as_ref()), want);
    j.eq("C14/stamp-routes", &|| format!("{}:{} stamp_reader", K::KT.name(), key_label(K::KT, key)), code::<K>(s_reader.as_ref()), want);
    j.eq("C14/stamp-routes", &|| format!("{}:{} stamp_writer", K::KT.name(), key_label(K::KT, key)), code::<K>(s_writer.as_ref()), want);
    j.eq("C14/stamp-routes", &|| format!("{}:{} stamp(state) vs stamp_reader", K::KT.name(), key_label(K::KT, key)), &s_state, &s_reader);
    j.eq("C14/stamp-routes", &|| format!("{}:{} stamp(state) vs stamp_writer", K::KT.name(), key_label(K::KT, key)), &s_state, &s_writer);
    // Check against every stamp value of the alphabet and every real stamp recorded earlier on this path.
    let mut candidates: Vec<Option<K::Value>> = vec![None, Some(K::val(0)), Some(K::val(1))];
    candidates.extend(K::stamps(stamps)[slot].iter().cloned());
    for s in &candidates {
      let consistent = ResourceChecker::<K>::check(&MapEqualsChecker, &k, pie.resource_state_mut::<K>(), s).unwrap().is_none();
      j.eq("C14/check", &|| format!("{}:{} check against stamp {:?} consistent?", K::KT.name(), key_label(K::KT, key), s), consistent, code::<K>(s.as_ref()) == want);
    }
    for s in [s_state, s_reader, s_writer] { push_distinct(&mut K::stamps(stamps)[slot], s); }
  }
  // Keys of other types or values are never written: they must read as absent and stamp as absent.
  for (what, k) in K::foreign_keys() {
    let read_value = code::<K>(Resource::read(&k, pie.resource_state_mut::<K>()).unwrap());
    let stamp = ResourceChecker::<K>::stamp(&MapEqualsChecker, &k, pie.resource_state_mut::<K>()).unwrap();
    let none: Option<K::Value> = None;
    let consistent = ResourceChecker::<K>::check(&MapEqualsChecker, &k, pie.resource_state_mut::<K>(), &none).unwrap().is_none();
    j.eq("C14/key-aliasing", &|| format!("{}: never-written key {} read through Resource::read", K::KT.name(), what), read_value, -1);
    j.eq("C14/key-aliasing", &|| format!("{}: never-written key {} stamp(state)", K::KT.name(), what), code::<K>(stamp.as_ref()), -1);
    j.eq("C14/key-aliasing", &|| format!("{}: never-written key {} check against the stamp of absence consistent?", K::KT.name(), what), consistent, true);
  }
}



/// Side-effect free comparison of the whole typed state with the model.
fn observe_snapshot<W: Twins>(pie: &Pie<Rec>, model: &Model, tick: u32, typed: bool, j: &mut Judge) {
  macro_rules! one {
    ($r:ty, $res:expr) => {{
      let slot = model.slots[$res.idx()];
      j.eq("C14/state-isolation", &|| format!("boxed state of resource type {}", $res.name()), describe_res::<W, $r>(pie), Desc::Slot(slot));
      if typed {
        j.eq("C14/state-isolation", &|| format!("get::<S>() for S in [Shared, Other, Map<K1>, Map<K2>, Map<K3>, Map<T1>, Map<T2>, Map<O>] on resource type {}", $res.name()),
          typed_gets::<W, $r>(pie), expected_typed_gets(slot));
      }
    }};
  }
  one!(K1, Res::K1);
  one!(K2, Res::K2);
  one!(K3, Res::K3);
  one!(RA, Res::RA);
  one!(RB, Res::RB);
  one!(W::A, Res::T1);
  one!(W::B, Res::T2);
  one!(MapKeyObjToObj, Res::O);
  j.eq("C14/state-isolation", &|| "boxed state of the harness resource type Tick".to_string(), describe_res::<W, Tick>(pie), Desc::TickMap(Some(tick), 1));
}

/// Executes `ops` on a fresh `Pie`, comparing every operation's observations with the model, and the complete
/// observable state after the last operation.
pub fn run_path(ops: &[Op], trace: bool) -> PathOut { (twin_info().run_path)(ops, trace) }

fn run_path_w<W: Twins>(ops: &[Op], trace: bool) -> PathOut {
  let mut out = PathOut::default();
  let mut pie = Pie::with_tracker(Rec::default());
  let mut model = Model::initial();
  let mut stamps = Stamps::default();
  for (i, &op) in ops.iter().enumerate() {
    let last = i + 1 == ops.len();
    let tick = (i + 1) as u32;
    let before = model;
    let expected = model.apply(op, tick);
    let observed = catch_unwind(AssertUnwindSafe(|| {
      GetGlobalMap::<Tick>::get_global_map_mut(pie.resource_state_mut::<Tick>()).insert(Tick, tick);
      exec_op::<W>(&mut pie, op)
    }));
    out.steps += 1;
    let observed = match observed {
      Ok(o) => o,
      Err(p) => {
        out.failures.push(Failure { oracle: "C14/panic", step: i, what: format!("panic in {} from state [{}]: {}", op.text(), before.text(), panic_text(p)), engine: !last });
        return out;
      }
    };
    out.evals += expected.len().max(1) as u64;
    if trace {
      out.trace.push(json!({"step": i + 1, "op": op.text(), "observed": obs_json(&observed), "expected": obs_json(&expected), "model_after": model.text()}));
    }
    if observed != expected {
      out.failures.push(Failure {
        oracle: "C14/op-result", step: i, engine: !last,
        what: format!("{} from state [{}]: observed {:?}, expected {:?}", op.text(), before.text(), observed, expected),
      });
      out.last_obs = observed;
      return out;
    }
    let rest = catch_unwind(AssertUnwindSafe(|| {
      let mut failures = Vec::new();
      let mut evals = 0u64;
      if last {
        let mut j = Judge { failures: &mut failures, evals: &mut evals, step: i };
        observe_snapshot::<W>(&pie, &model, tick, true, &mut j);
        for kt in ALL_KT {
          if let Some(m) = model.map_of(kt) { with_kt!(kt, observe_map, &mut pie, m, &mut stamps, &mut j); }
        }
        // The observations above must not have changed anything.
        observe_snapshot::<W>(&pie, &model, tick, false, &mut j);
      } else {
        for kt in ALL_KT {
          if model.map_of(kt).is_some() { with_kt!(kt, record_stamps, &mut pie, &mut stamps); }
        }
      }
      (failures, evals)
    }));
    match rest {
      Ok((failures, evals)) => {
        out.evals += evals;
        if !failures.is_empty() {
          let state = model.text();
          out.failures.extend(failures.into_iter().map(|mut f| { f.what = format!("after {} reaching state [{}]: {}", op.text(), state, f.what); f }));
          out.last_obs = observed;
          return out;
        }
      }
      Err(p) => {
        out.failures.push(Failure { oracle: "C14/panic", step: i, what: format!("panic while observing the state after {}: {}", op.text(), panic_text(p)), engine: !last });
        return out;
      }
    }
    if last { out.last_obs = observed; }
  }
  out
}

// ---------------------------------------------------------------------------------------------------------------------
// Search
// ---------------------------------------------------------------------------------------------------------------------

#[derive(Default)]
struct Totals {
  evals: u64,
  steps: u64,
  paths: u64,
  outcomes: BTreeSet<(u16, Obs)>,
  /// (task index, failures)
  failed: Vec<(usize, Vec<Failure>)>,
}

impl Totals {
  fn merge(&mut self, o: Totals) {
    self.evals += o.evals;
    self.steps += o.steps;
    self.paths += o.paths;
    self.outcomes.extend(o.outcomes);
    self.failed.extend(o.failed);
  }
}

fn n_threads() -> usize { std::thread::available_parallelism().map(|n| n.get()).unwrap_or(4).clamp(1, 16) }

/// Runs `n_tasks` paths in parallel; `path_of(task)` yields the op indices of the path (None = skip). Deterministic:
/// results are merged by task index. Returns `(totals, completed)`; `completed` is false if the deadline was hit.
fn run_parallel(n_tasks: usize, ops: &[Op], deadline: Instant, path_of: &(dyn Fn(usize) -> Option<Vec<u16>> + Sync)) -> (Totals, bool) {
  let next = AtomicUsize::new(0);
  let timed_out = AtomicUsize::new(0);
  let mut totals = Totals::default();
  let results: Vec<Totals> = std::thread::scope(|scope| {
    let handles: Vec<_> = (0..n_threads()).map(|_| scope.spawn(|| {
      let mut t = Totals::default();
      let mut buf: Vec<Op> = Vec::new();
      loop {
        let start = next.fetch_add(64, Ordering::Relaxed);
        if start >= n_tasks { break; }
        if Instant::now() > deadline { timed_out.store(1, Ordering::Relaxed); break; }
        for task in start..(start + 64).min(n_tasks) {
          let Some(path) = path_of(task) else { continue; };
          buf.clear();
          buf.extend(path.iter().map(|&i| ops[i as usize]));
          let out = run_path(&buf, false);
          t.paths += 1;
          t.evals += out.evals;
          t.steps += out.steps;
          if out.failures.is_empty() {
            t.outcomes.insert((*path.last().unwrap(), out.last_obs));
          } else {
            t.failed.push((task, out.failures));
          }
        }
      }
      t
    })).collect();
    handles.into_iter().map(|h| h.join().unwrap_or_else(|_| engine_error("C14: a worker thread of the harness panicked"))).collect()
  });
  for r in results { totals.merge(r); }
  totals.failed.sort_by_key(|(task, _)| *task);
  (totals, timed_out.load(Ordering::Relaxed) == 0)
}

struct Found { ops: Vec<Op>, failure: Failure }

struct SearchOut {
  states: usize,
  transitions: u64,
  nontrivial: u64,
  levels: Vec<usize>,
  max_depth: usize,
  fixed_point: bool,
  enum_depth: usize,
  enum_paths: u64,
  enum_complete: bool,
  totals: Totals,
  found: Vec<Found>,
  deepest_path: Vec<Op>,
}

fn search(tier: Tier, ops: &[Op], budget_s: f64, enum_depth: usize) -> SearchOut {
  let deadline = Instant::now() + std::time::Duration::from_secs_f64(budget_s);
  let mut states: Vec<Model> = vec![Model::initial()];
  let mut paths: Vec<Vec<u16>> = vec![Vec::new()];
  let mut index: HashMap<Model, usize> = HashMap::new();
  index.insert(Model::initial(), 0);
  let mut frontier: Vec<usize> = vec![0];
  let mut out = SearchOut {
    states: 0, transitions: 0, nontrivial: 0, levels: vec![1], max_depth: 0, fixed_point: false,
    enum_depth, enum_paths: 0, enum_complete: true, totals: Totals::default(), found: Vec::new(), deepest_path: Vec::new(),
  };
  let _ = tier;
  let n_ops = ops.len();
  // Part 1: breadth-first search over model states to a fixed point.
  let mut depth = 0usize;
  while !frontier.is_empty() {
    let n_tasks = frontier.len() * n_ops;
    let path_of = |task: usize| -> Option<Vec<u16>> {
      let mut p = paths[frontier[task / n_ops]].clone();
      p.push((task % n_ops) as u16);
      Some(p)
    };
    let (totals, completed) = run_parallel(n_tasks, ops, deadline, &path_of);
    let failed: BTreeSet<usize> = totals.failed.iter().map(|(t, _)| *t).collect();
    for (task, failures) in &totals.failed {
      let p = path_of(*task).unwrap();
      for f in failures {
        out.found.push(Found { ops: p.iter().map(|&i| ops[i as usize]).collect(), failure: f.clone() });
      }
    }
    out.transitions += totals.paths;
    out.totals.merge(totals);
    if !completed { return finish_states(out, &states, &paths, ops); }
    let mut next_frontier = Vec::new();
    for task in 0..n_tasks {
      let si = frontier[task / n_ops];
      let oi = task % n_ops;
      let mut m = states[si];
      let _ = m.apply(ops[oi], (depth + 1) as u32);
      if m != states[si] { out.nontrivial += 1; }
      if failed.contains(&task) { continue; } // do not build on a transition the implementation got wrong
      if !index.contains_key(&m) {
        let id = states.len();
        index.insert(m, id);
        states.push(m);
        let mut p = paths[si].clone();
        p.push(oi as u16);
        paths.push(p);
        next_frontier.push(id);
      }
    }
    depth += 1;
    if !next_frontier.is_empty() { out.levels.push(next_frontier.len()); out.max_depth = depth; }
    frontier = next_frontier;
  }
  out.fixed_point = true;
  // Part 2: all paths up to `enum_depth` without state merging (covers pie's dependency store, which the model state
  // does not contain). Paths extending a failed path are skipped.
  let mut failed_prefixes: BTreeSet<Vec<u16>> = BTreeSet::new();
  for d in 1..=enum_depth {
    let n_tasks = n_ops.pow(d as u32);
    let decode = |task: usize| -> Vec<u16> {
      let mut p = vec![0u16; d];
      let mut t = task;
      for slot in p.iter_mut().rev() { *slot = (t % n_ops) as u16; t /= n_ops; }
      p
    };
    let fp = &failed_prefixes;
    let path_of = |task: usize| -> Option<Vec<u16>> {
      let p = decode(task);
      if !fp.is_empty() && (1..d).any(|l| fp.contains(&p[..l])) { return None; }
      Some(p)
    };
    let (totals, completed) = run_parallel(n_tasks, ops, deadline, &path_of);
    let mut new_failed = Vec::new();
    for (task, failures) in &totals.failed {
      let p = decode(*task);
      for f in failures {
        out.found.push(Found { ops: p.iter().map(|&i| ops[i as usize]).collect(), failure: f.clone() });
      }
      new_failed.push(p);
    }
    out.enum_paths += totals.paths;
    out.totals.merge(totals);
    failed_prefixes.extend(new_failed);
    if !completed { out.enum_complete = false; break; }
  }
  finish_states(out, &states, &paths, ops)
}

fn finish_states(mut out: SearchOut, states: &[Model], paths: &[Vec<u16>], ops: &[Op]) -> SearchOut {
  out.states = states.len();
  out.deepest_path = paths.last().map(|p| p.iter().map(|&i| ops[i as usize]).collect()).unwrap_or_default();
  out
}

// ---------------------------------------------------------------------------------------------------------------------
// Entry points
// ---------------------------------------------------------------------------------------------------------------------

fn with_quiet_panics<T>(f: impl FnOnce() -> T) -> T {
  let old = std::panic::take_hook();
  std::panic::set_hook(Box::new(|_| {}));
  let r = f();
  std::panic::set_hook(old);
  r
}

fn violation_of(ops: &[Op], f: &Failure) -> Violation {
  let cut = &ops[..(f.step + 1).min(ops.len())];
  Violation {
    property: "C14".into(),
    oracle: f.oracle.into(),
    key: String::new(),
    what: format!("after {} operation(s): {}", cut.len(), f.what),
    replay: json!({"ops": cut.iter().map(|o| o.text()).collect::<Vec<_>>()}),
  }
}

fn sample_scripts() -> Vec<Vec<&'static str>> {
  vec![
    vec!["map:K1:0:ctx_write:td:insert:1", "map:K2:0:global_map:-:insert:0", "read:K1:0:ctx_read:td", "read:K2:0:res_read:-", "map:K1:0:create_writer:td:remove:-", "read:K1:0:stamp:-"],
    vec!["map:K1:1:global_map:-:or_insert:1", "typed:K1:Other:set:1", "typed:K1:Shared:get:-", "read:K1:1:global_map:-", "typed:K1:Other:get:-"],
    vec!["typed:RA:Shared:set:1", "typed:RB:Shared:get:-", "typed:RB:Other:get_or_set_default_mut:-", "typed:RA:Other:get:-", "typed:RA:Shared:get_mut:-", "typed:RB:Shared:get_or_set_default:-"],
    vec!["map:T1:0:ctx_write:td:insert:1", "read:T2:0:ctx_read:td", "map:T2:0:global_map:-:insert:0", "read:T1:0:res_read:-", "typed:T1:Shared:set:1", "typed:T2:Shared:get:-", "typed:T2:Shared:get_or_set_default:-", "read:T1:0:global_map:-"],
    vec!["map:O:4:ctx_write:td:insert:1", "read:O:0:ctx_read:td", "read:O:1:global_map:-", "map:O:3:global_map:-:insert:0", "read:O:5:res_read:-", "map:O:6:create_writer:bu:remove:-", "read:O:10:stamp:-", "read:O:2:check:-"],
    vec!["map:K1:0:ctx_write:td:seq:i1+o0", "map:K1:0:res_write:-:seq:i0+r", "map:K1:0:create_writer:td:seq:o1+m", "read:K1:0:ctx_read:td", "typed:K1:Other:get_or_set_default_mut:-", "read:K1:0:stamp:-"],
    vec!["map:K2:1:res_write:-:insert:1", "map:K1:1:create_writer:td:or_insert:0", "read:K2:1:task_writer_get:td", "map:K2:1:ctx_write:td:remove:-", "read:K2:1:check:-"],
  ]
}

fn run_replay(args: &Args, path: &std::path::Path) -> i32 {
  let text = std::fs::read_to_string(path).unwrap_or_else(|e| engine_error(&format!("cannot read replay file {}: {}", path.display(), e)));
  let v: Value = serde_json::from_str(&text).unwrap_or_else(|e| engine_error(&format!("replay file does not parse: {}", e)));
  let r = v.get("replay").unwrap_or(&v);
  if r.get("key_identity_check").and_then(|b| b.as_bool()) == Some(true) {
    let (a, _) = obj_key_identity_failures();
    let (b, _) = obj_key_identity_failures();
    if a != b { engine_error("C14 replay: two evaluations of the key identity check differ"); }
    if a.is_empty() {
      println!("replay: no violation");
      return 0;
    }
    for f in &a { println!("replay: still failing: C14/key-identity {}", f); }
    println!("VIOLATION property=C14 replay={}", path.display());
    println!("  oracle=C14/key-identity key= what={}", a[0]);
    return 1;
  }
  let list = r.get("ops").and_then(|o| o.as_array()).unwrap_or_else(|| engine_error("replay object lacks array 'ops'"));
  let ops: Vec<Op> = list.iter().map(|s| {
    let s = s.as_str().unwrap_or_else(|| engine_error("replay 'ops' must be strings"));
    Op::parse(s).unwrap_or_else(|| engine_error(&format!("replay: cannot parse operation '{}'", s)))
  }).collect();
  let (a, b) = with_quiet_panics(|| (run_path(&ops, true), run_path(&ops, true)));
  if a.failures != b.failures || a.trace != b.trace {
    engine_error(&format!("C14 replay: two executions of the same path differ:\n{:?}\n{:?}", a.failures, b.failures));
  }
  for t in &a.trace { println!("replay: {}", t); }
  if a.failures.is_empty() {
    println!("replay: no violation");
    return 0;
  }
  // Replay never touches the evidence file of the property; it only prints its verdict.
  let _ = args;
  for f in &a.failures {
    println!("replay: still failing: {} {}", f.oracle, f.what);
  }
  println!("VIOLATION property=C14 replay={}", path.display());
  println!("  oracle={} key= what={}", a.failures[0].oracle, a.failures[0].what);
  1
}

pub fn run(args: &Args) -> i32 {
  if let Some(path) = &args.replay {
    return run_replay(args, path);
  }
  let mut rep = Report::new(args);
  let twins = twin_info();
  if !twins.type_ids_differ { engine_error("C14: the two twin key types have the same TypeId (they must be distinct types)"); }
  let (budget_s, enum_depth) = match args.tier { Tier::Quick => (14.0, 2), Tier::Thorough => (540.0, 3) };
  let enum_depth = std::env::var("VERIF_C14_ENUM_DEPTH").ok().and_then(|s| s.parse().ok()).unwrap_or(enum_depth);
  // Searches with different alphabets (the state space is their sum, not their product): isolation failures are
  // pairwise between resource types, and every pair of kinds of resource types occurs in one of the two.
  let start = Instant::now();
  let (identity_failures, identity_comparisons) = obj_key_identity_failures();
  for f in &identity_failures {
    rep.violation(Violation {
      property: "C14".into(), oracle: "C14/key-identity".into(), key: String::new(),
      what: format!("MapKeyObjToObj keys: {}", f),
      replay: json!({"key_identity_check": true, "failure": f}),
    });
  }
  let alternation_depth = if args.tier == Tier::Thorough { 5 } else { 4 };
  let families: Vec<(&'static str, &'static str, Vec<Op>, Option<usize>)> = vec![
    ("writer_pairs", "every ordered pair of writer operations {insert 0/1, entry-remove, entry().or_insert 0/1, entry().and_modify} on ONE writer with a get in between, through all 4 write routes (in-task: both session modes), K1 key 0; plus single ops/reads to reach every prior state, and one pair each on K1 key 1 and K2 key 0", alphabet_writer_pairs(args.tier), Some(2)),
    ("alternation", "typed state alternating between two state types on one resource type: RA Shared/Other {set, get_or_set_default, get_or_set_default_mut, get}; K1's map displaced by Other/Shared via get_or_set_default(_mut)/set and read again (get_global_map, stamp, check, Context::read); unmerged paths to a larger depth", alphabet_alternation(args.tier), Some(alternation_depth)),
    ("objkeys", "O = MapKeyObjToObj (trait-object keys): two logical keys of different key types (7u8 and the genuinely boxed Box::new(7u8)), each addressed through 6 public constructors (inherent from, new, From<Box<K>>, From<Box<dyn KeyObj>>, tuple field, clone), all write/read routes; 8 never-written keys of other types/values probed every step; plus one key of K1", alphabet_objkeys(args.tier), Some(2)),
    ("twins", "T1, T2 = two distinct key types with identical std::any::type_name (full map and typed-state alphabet), plus one key of K1 and Shared on RA", alphabet_twins(args.tier), None),
    ("main", "K1, K2 (+K3 thorough) maps; typed state on RA, RB, K1", alphabet(args.tier), None),
  ];
  let mut outs: Vec<SearchOut> = Vec::new();
  for (name, _, ops, fixed_enum_depth) in &families {
    for (i, op) in ops.iter().enumerate() {
      if Op::parse(&op.text()) != Some(*op) { engine_error(&format!("C14: operation {} ({}) of family {} does not round-trip through its text form", i, op.text(), name)); }
    }
    let remaining = (budget_s - start.elapsed().as_secs_f64()).max(0.5);
    outs.push(with_quiet_panics(|| search(args.tier, ops, remaining, fixed_enum_depth.unwrap_or(enum_depth))));
  }

  // Samples: scripted paths plus the representative path of the last state discovered in each family.
  let mut samples = Vec::new();
  with_quiet_panics(|| {
    for script in sample_scripts() {
      let path: Vec<Op> = script.iter().map(|s| Op::parse(s).unwrap_or_else(|| engine_error(&format!("C14: bad sample op {}", s)))).collect();
      let o = run_path(&path, true);
      samples.push(json!({"kind": "scripted", "steps": o.trace, "failures": o.failures.iter().map(|f| f.what.clone()).collect::<Vec<_>>()}));
    }
    for ((name, _, _, _), out) in families.iter().zip(&outs) {
      if !out.deepest_path.is_empty() {
        let o = run_path(&out.deepest_path, true);
        samples.push(json!({"kind": format!("representative path of the last state discovered by the BFS of family '{}'", name), "steps": o.trace}));
      }
    }
  });

  let sum = |f: &dyn Fn(&SearchOut) -> u64| outs.iter().map(|o| f(o)).sum::<u64>();
  let fixed_point = outs.iter().all(|o| o.fixed_point);
  let enum_complete = outs.iter().all(|o| o.enum_complete);
  rep.set("states", json!(sum(&|o| o.states as u64)));
  rep.set("transitions", json!(sum(&|o| o.transitions)));
  rep.set("paths_without_merging", json!(sum(&|o| o.enum_paths)));
  rep.set("traces_validated_against_impl", json!(sum(&|o| o.totals.steps)));
  rep.set("full_observation_steps", json!(sum(&|o| o.transitions + o.enum_paths)));
  rep.set("evaluations", json!(sum(&|o| o.totals.evals) + identity_comparisons));
  rep.set("key_identity_comparisons", json!(identity_comparisons));
  rep.set("distinct_nontrivial", json!(sum(&|o| o.nontrivial)));
  rep.set("distinct_nontrivial_rule", json!("distinct (model state, operation) pairs whose operation changes the model state (everything else is a self loop: a read, or a write of what is already there), summed over the two searches"));
  rep.set("distinct_outcomes", json!(sum(&|o| o.totals.outcomes.len() as u64)));
  rep.set("distinct_outcomes_rule", json!("distinct (operation, complete observation vector) pairs seen on paths without failure, summed over the two searches"));
  rep.set("samples", Value::Array(samples));
  rep.set("exhaustive", json!(fixed_point && enum_complete));
  rep.set("rule", json!(format!(
    "identity check of MapKeyObjToObj keys (all pairs of (logical key, public constructor): equal and hash-equal iff same (key type, value); unequal to 8 keys of other types/values) + five searches (families 'writer_pairs', 'alternation', 'objkeys', 'twins' and 'main', see bounds), each: BFS over model states (what pie's typed state holds for each of the resource types K1,K2,K3,RA,RB,T1,T2,O, global maps included) {}; every (state, op) executed on a fresh Pie by replaying the state's representative path; after the last op every key index (for O: every constructor of every logical key) is read, stamped through three routes and checked against all stamps; plus all op paths of length <= {} (writer_pairs, objkeys: <= 2; alternation: <= 4 quick / 5 thorough) without state merging ({}); map operations include every ordered pair of writer operations on one writer, judged by the sequential HashMap model; typed-state model: a get_or_set_default(_mut) of another type resets the slot to that type's default",
    if fixed_point { "to a fixed point" } else { "stopped by the wall-time budget before the fixed point" }, enum_depth,
    if enum_complete { "complete" } else { "stopped by the wall-time budget" })));
  rep.set("twin_key_types", json!({
    "type_ids_differ": twins.type_ids_differ, "type_names_equal": twins.same_name(),
    "type_name_a": twins.type_name_a, "type_name_b": twins.type_name_b,
    "note": if twins.same_name() { "two distinct resource/key types with identical std::any::type_name are part of the alphabet (family 'twins')" }
            else { "the compiler gave the two block-local key types different type names: the same-name part of the alphabet is NOT exercised by this build (the family still runs, as two ordinary distinct key types)" },
  }));
  rep.set("bounds", json!({
    "families": families.iter().zip(&outs).map(|((name, what, ops, _), o)| json!({
      "family": name, "alphabet": what, "operations": ops.len(), "states": o.states, "transitions": o.transitions,
      "bfs_fixed_point": o.fixed_point, "bfs_depth": o.max_depth, "bfs_states_per_level": o.levels,
      "unmerged_path_depth": o.enum_depth, "unmerged_paths": o.enum_paths, "unmerged_paths_complete": o.enum_complete,
    })).collect::<Vec<_>>(),
    "key_types": if args.tier == Tier::Thorough { json!(["K1(u8)->u8", "K2(u8)->u8", "K3(bool)->String", "T1(u8)->u8", "T2(u8)->u8", "O=MapKeyObjToObj->Box<dyn MapValueObj>"]) } else { json!(["K1(u8)->u8", "K2(u8)->u8", "T1(u8)->u8", "T2(u8)->u8", "O=MapKeyObjToObj->Box<dyn MapValueObj>"]) },
    "MapKeyObjToObj_constructors": OBJ_CTOR_NAMES, "MapKeyObjToObj_logical_keys": OBJ_LOGICAL_NAMES,
    "MapKeyObjToObj_key_index": "key index = logical key + 2 * constructor",
    "MapKeyObjToObj_never_written_keys": MapKeyObjToObj::foreign_keys().iter().map(|(w, _)| *w).collect::<Vec<_>>(),
    "keys_per_type": 2, "values_per_type": 2,
    "write_routes": ["Context::write", "Context::create_writer+written_to", "resource_state_mut().get_global_map_mut()", "Resource::write(state) MapWriter outside a task"],
    "map_ops": ["insert", "remove via entry()", "entry().or_insert", "seq(a,b): two of {insert 0/1, entry-remove, entry().or_insert 0/1, entry().and_modify(flip)} on ONE writer with MapWriter::get in between (all 36 ordered pairs)"],
    "read_routes": ["Context::read", "MapWriter::get/get_mut in task", "get_global_map", "get_global_map_mut", "Resource::read", "Resource::write+get", "MapEqualsChecker::stamp", "MapEqualsChecker::check"],
    "session_modes_for_in_task_routes": ["top-down", "bottom-up"],
    "typed_state": {"resource_types": ["RA", "RB", "K1", "T1", "T2"], "state_types": if args.tier == Tier::Thorough { json!(["Shared(u8)", "Other(bool)", "HashMap<K1,u8> (on RA and K1)"]) } else { json!(["Shared(u8)", "Other(bool)"]) },
      "ops": ["get", "get_mut", "set", "get_boxed", "get_boxed_mut", "set_boxed", "get_or_set_default", "get_or_set_default_mut"]},
    "observed_every_step": "boxed state + get::<S> for 8 state types on all 8 resource types (K1,K2,K3,RA,RB,T1,T2,O) and the harness type Tick",
    "wall_budget_s": budget_s, "threads": n_threads(),
  }));
  rep.assume("One task identity per (key type, key) performs all in-task accesses of that key, so pie's overlapping-write / hidden-dependency detection (not part of C14) is never triggered.");
  rep.assume("Model state excludes pie's dependency store; the BFS uses one representative path per model state, complemented by all unmerged paths up to the stated depth.");
  rep.assume("The product of the two operation families is not explored: interference between resource types is pairwise, and every pair of kinds (map key/map key incl. same-named, trait-object key/typed key, map key/plain resource, plain/plain) occurs within one family.");

  let mut engine_failures = Vec::new();
  for f in outs.iter().flat_map(|o| o.found.iter()) {
    if f.failure.engine { engine_failures.push(f); } else { rep.violation(violation_of(&f.ops, &f.failure)); }
  }
  if rep.violation_count() == 0 {
    if let Some(f) = engine_failures.first() {
      engine_error(&format!("C14: {} path(s) deviated in a prefix that was validated before (non-reproducible execution), first: {} ops {:?}",
        engine_failures.len(), f.failure.what, f.ops.iter().map(|o| o.text()).collect::<Vec<_>>()));
    }
  }
  rep.finish()
}

#[cfg(test)]
mod tests {
  use super::*;

  fn ins(kt: KT, key: u8, v: u8) -> Op { Op::Map { kt, key, route: WRoute::GlobalMap, bottom_up: false, op: MapOp::Insert(v) } }
  fn read(kt: KT, key: u8) -> Op { Op::Read { kt, key, route: RRoute::GlobalMap, bottom_up: false } }

  #[test]
  fn model_read_your_writes_and_no_aliasing() {
    let mut m = Model::initial();
    assert_eq!(m.apply(read(KT::K1, 0), 1), vec![("read", -1)]);
    assert_eq!(m.apply(ins(KT::K1, 0, 1), 2), vec![("ret", -1), ("after_get", 1)]);
    assert_eq!(m.apply(read(KT::K1, 0), 3), vec![("read", 1)]);
    assert_eq!(m.apply(read(KT::K2, 0), 4), vec![("read", -1)]);
    assert_eq!(m.apply(read(KT::K1, 1), 5), vec![("read", -1)]);
    assert_eq!(m.apply(ins(KT::K1, 0, 0), 6), vec![("ret", 1), ("after_get", 0)]);
    assert_eq!(m.map_of(KT::K1), Some([Some(0), None]));
    assert_eq!(m.map_of(KT::K2), Some([None, None]));
    assert_eq!(m.map_of(KT::K3), None);
  }

  #[test]
  fn model_remove_and_or_insert() {
    let mut m = Model::initial();
    let op = |op| Op::Map { kt: KT::K2, key: 1, route: WRoute::ResWrite, bottom_up: false, op };
    assert_eq!(m.apply(op(MapOp::Remove), 1), vec![("ret", -1), ("after_get", -1), ("stamp_writer", -1)]);
    assert_eq!(m.apply(op(MapOp::OrInsert(1)), 2), vec![("ret", 1), ("after_get", 1), ("stamp_writer", 1)]);
    assert_eq!(m.apply(op(MapOp::OrInsert(0)), 3), vec![("ret", 1), ("after_get", 1), ("stamp_writer", 1)]);
    assert_eq!(m.apply(op(MapOp::Remove), 4), vec![("ret", 1), ("after_get", -1), ("stamp_writer", -1)]);
  }

  #[test]
  fn model_typed_state_semantics() {
    let t = |res, st, op| Op::Typed { res, st, op };
    let mut m = Model::initial();
    // get with nothing stored / non-matching type: None and no change
    assert_eq!(m.apply(t(Res::RA, ST::Shared, TypedOp::Get), 1), vec![("get", -1)]);
    m.apply(t(Res::RA, ST::Shared, TypedOp::Set(1)), 2);
    assert_eq!(m.apply(t(Res::RA, ST::Other, TypedOp::Get), 3), vec![("get", -1)]);
    assert_eq!(m.slots[Res::RA.idx()], Slot::Shared(1));
    // another resource type with the same state type sees nothing
    assert_eq!(m.apply(t(Res::RB, ST::Shared, TypedOp::Get), 4), vec![("get", -1)]);
    // get_or_set_default with non-matching type replaces by the default
    assert_eq!(m.apply(t(Res::RA, ST::Other, TypedOp::Gosd), 5), vec![("get_or_set_default", 0)]);
    assert_eq!(m.slots[Res::RA.idx()], Slot::Other(false));
    // matching type: kept
    m.apply(t(Res::RA, ST::Other, TypedOp::Set(1)), 6);
    assert_eq!(m.apply(t(Res::RA, ST::Other, TypedOp::Gosd), 7), vec![("get_or_set_default", 1)]);
    // get_mut mutates only a matching type
    assert_eq!(m.apply(t(Res::RA, ST::Shared, TypedOp::GetMut), 8), vec![("get_mut", -1)]);
    assert_eq!(m.apply(t(Res::RA, ST::Other, TypedOp::GetMut), 9), vec![("get_mut", 1)]);
    assert_eq!(m.slots[Res::RA.idx()], Slot::Other(false));
    assert_eq!(m.slots[Res::RB.idx()], Slot::Absent);
  }

  #[test]
  fn model_typed_state_on_a_key_type_wipes_and_is_wiped() {
    let mut m = Model::initial();
    m.apply(ins(KT::K1, 0, 1), 1);
    m.apply(Op::Typed { res: Res::K1, st: ST::Other, op: TypedOp::Set(1) }, 2);
    assert_eq!(m.map_of(KT::K1), None);
    assert_eq!(m.apply(read(KT::K1, 0), 3), vec![("read", -1)]);
    assert_eq!(m.slots[Res::K1.idx()], Slot::Map(KT::K1, [None, None]));
    // a map of K1's type stored under RA is not K1's map
    m.apply(Op::Typed { res: Res::RA, st: ST::M1, op: TypedOp::Set(1) }, 4);
    assert_eq!(m.map_of(KT::K1), Some([None, None]));
    // stored under K1 it is
    m.apply(Op::Typed { res: Res::K1, st: ST::M1, op: TypedOp::Set(1) }, 5);
    assert_eq!(m.map_of(KT::K1), Some([Some(1), None]));
  }

  #[test]
  fn op_text_round_trips_and_alphabet_sizes() {
    for tier in [Tier::Quick, Tier::Thorough] {
      let ops = alphabet(tier);
      let set: BTreeSet<Op> = ops.iter().copied().collect();
      assert_eq!(set.len(), ops.len());
      for op in ops { assert_eq!(Op::parse(&op.text()), Some(op)); }
    }
    assert!(alphabet(Tier::Quick).len() < alphabet(Tier::Thorough).len());
    for ops in [alphabet_twins(Tier::Quick), alphabet_objkeys(Tier::Quick), alphabet_writer_pairs(Tier::Quick), alphabet_alternation(Tier::Quick)] {
      let set: BTreeSet<Op> = ops.iter().copied().collect();
      assert_eq!(set.len(), ops.len());
      for op in ops { assert_eq!(Op::parse(&op.text()), Some(op)); }
    }
  }

  #[test]
  fn expected_typed_gets_positions() {
    assert_eq!(expected_typed_gets(Slot::Absent), [-1; 8]);
    assert_eq!(expected_typed_gets(Slot::Shared(1)), [1, -1, -1, -1, -1, -1, -1, -1]);
    assert_eq!(expected_typed_gets(Slot::Map(KT::K2, [Some(0), None])), [-1, -1, -1, 103, -1, -1, -1, -1]);
    assert_eq!(expected_typed_gets(Slot::Map(KT::T2, [None, Some(1)])), [-1, -1, -1, -1, -1, -1, 102, -1]);
  }

  #[test]
  fn twin_key_types_are_distinct_types() {
    let t = twin_info();
    assert!(t.type_ids_differ);
    // Identical type names are expected but not guaranteed by the language: only reported, never required.
    println!("twin type names: {} / {} (equal: {})", t.type_name_a, t.type_name_b, t.same_name());
  }

  #[test]
  fn obj_key_identity_holds_and_labels() {
    let (f, n) = obj_key_identity_failures();
    assert!(f.is_empty(), "{:?}", f);
    assert!(n > 0);
    assert_eq!(KT::O.n_keys(), 12);
    assert!(key_label(KT::O, 5).contains("Box::new(7u8)") && key_label(KT::O, 5).contains("From<Box<K>>"));
  }

  #[test]
  fn model_obj_keys_address_slots_by_logical_key() {
    let mut m = Model::initial();
    m.apply(ins(KT::O, 4, 1), 1); // logical key 0 through constructor 2
    assert_eq!(m.apply(read(KT::O, 0), 2), vec![("read", 1)]);
    assert_eq!(m.apply(read(KT::O, 10), 3), vec![("read", 1)]);
    assert_eq!(m.apply(read(KT::O, 1), 4), vec![("read", -1)]);
    assert_eq!(m.apply(read(KT::O, 5), 5), vec![("read", -1)]);
    assert_eq!(m.map_of(KT::O), Some([Some(1), None]));
  }

  #[test]
  fn model_writer_pairs_follow_sequential_hashmap() {
    let seq = |a, b| Op::Map { kt: KT::K1, key: 0, route: WRoute::ResWrite, bottom_up: false, op: MapOp::Seq(a, b) };
    let mut m = Model::initial();
    // insert then or_insert on the same writer: or_insert sees the inserted value
    assert_eq!(m.apply(seq(SOp::Ins(1), SOp::OrIns(0)), 1), vec![("ret", -1), ("mid_get", 1), ("ret2", 1), ("after_get", 1), ("stamp_writer", 1)]);
    // insert then remove: remove returns the inserted value, key absent afterwards
    assert_eq!(m.apply(seq(SOp::Ins(0), SOp::Rem), 2), vec![("ret", 1), ("mid_get", 0), ("ret2", 0), ("after_get", -1), ("stamp_writer", -1)]);
    // modify on a vacant key does nothing; then insert
    assert_eq!(m.apply(seq(SOp::Modify, SOp::Ins(1)), 3), vec![("ret", -1), ("mid_get", -1), ("ret2", -1), ("after_get", 1), ("stamp_writer", 1)]);
    assert_eq!(m.apply(seq(SOp::Ins(0), SOp::Modify), 4), vec![("ret", 1), ("mid_get", 0), ("ret2", 1), ("after_get", 1), ("stamp_writer", 1)]);
    assert_eq!(m.map_of(KT::K1), Some([Some(1), None]));
  }

  #[test]
  fn model_alternating_state_types_reset_to_default() {
    let t = |res, st, op| Op::Typed { res, st, op };
    let mut m = Model::initial();
    m.apply(t(Res::RA, ST::Shared, TypedOp::Set(1)), 1);
    assert_eq!(m.apply(t(Res::RA, ST::Other, TypedOp::Gosd), 2), vec![("get_or_set_default", 0)]);
    assert_eq!(m.apply(t(Res::RA, ST::Shared, TypedOp::Gosd), 3), vec![("get_or_set_default", 0)]); // NOT the old 1
    m.apply(ins(KT::K1, 0, 1), 4);
    m.apply(t(Res::K1, ST::Other, TypedOp::GosdMut), 5);
    assert_eq!(m.apply(read(KT::K1, 0), 6), vec![("read", -1)]); // the displaced map does not come back
  }

  #[test]
  fn model_twins_do_not_alias() {
    let mut m = Model::initial();
    m.apply(ins(KT::T1, 0, 1), 1);
    assert_eq!(m.apply(read(KT::T2, 0), 2), vec![("read", -1)]);
    assert_eq!(m.map_of(KT::T1), Some([Some(1), None]));
    assert_eq!(m.map_of(KT::T2), Some([None, None]));
    m.apply(Op::Typed { res: Res::T1, st: ST::Shared, op: TypedOp::Set(1) }, 3);
    assert_eq!(m.apply(Op::Typed { res: Res::T2, st: ST::Shared, op: TypedOp::Get }, 4), vec![("get", -1)]);
    assert_eq!(m.map_of(KT::T1), None);
    assert_eq!(m.map_of(KT::T2), Some([None, None]));
  }

  #[test]
  fn real_pie_agrees_on_a_scripted_path() {
    for script in sample_scripts() {
      let path: Vec<Op> = script.iter().map(|s| Op::parse(s).unwrap()).collect();
      let out = run_path(&path, false);
      assert!(out.failures.is_empty(), "{:?}", out.failures);
    }
  }
}
