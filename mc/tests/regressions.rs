//! Plain unit tests that replay the minimal histories of the repaired defects (D1, D2) and the witnesses of the recorded
//! findings without the explorer: the repaired ones must raise nothing, the recorded ones must still carry their key.
use mc::analyze::Prop;
use mc::hist::{judge_path, HistCfg};
use mc::m1::classify;
use mc::prog::*;
use mc::runner::{Event, PEvent};

fn st(op: Op) -> Stmt { Stmt { guard: None, op } }
fn sg(g: u8, op: Op) -> Stmt { Stmt { guard: Some(g), op } }
fn cfg(prop: Prop, depth: usize) -> HistCfg {
  HistCfg { prop, max_roots: 2, bottom_up: true, bu_then: true, bu_pre: true, bu_over_report: true, bu_twice: true, bu_split: false, keep_session: true, set_fail: false, crashes: 2, depth,
    state_cap: 0, probe: prop == Prop::C03, scope_in_key: true, wall_cap: 60.0, collect_digests: false, find_path_hash: None, stamp_fail: false, stage1: 0, decl_direct: false }
}
fn td(roots: &[u8]) -> PEvent { PEvent::plain(Event::TopDown(roots.to_vec())) }
fn set(r: u8, v: Option<u8>) -> PEvent { PEvent::plain(Event::Set(r, v)) }

#[test]
fn d1_reserved_edge_after_abort_is_not_walked() {
  // chain T0 -> T1 -> T2; crash inside T1's execution while T0 is requiring it; then require T0 again
  let p = Prog { n_res: 1, bodies: vec![vec![st(Op::Req(1, OC::Equals))], vec![st(Op::Req(2, OC::Equals))], vec![st(Op::Read(0, RC::Exact))]] };
  let path = vec![PEvent { ev: Event::TopDown(vec![0]), crash_at: Some(1) }, td(&[0])];
  let j = judge_path(&p, classify(&p), &cfg(Prop::C19, 2), &path, 1);
  assert!(j.findings.is_empty(), "{:?}", j.findings);
}

#[test]
fn d2_validation_follows_creation_order() {
  let p = Prog { n_res: 2, bodies: vec![vec![st(Op::Read(0, RC::Exact)), sg(1, Op::Req(1, OC::Equals)), st(Op::Read(0, RC::Exact))], vec![st(Op::Read(1, RC::Exact))]] };
  let path = vec![set(0, Some(1)), td(&[0]), td(&[0])];
  let j = judge_path(&p, classify(&p), &cfg(Prop::C02, 3), &path, 0);
  assert!(j.findings.is_empty(), "{:?}", j.findings);
}

#[test]
fn f1_witness_still_carries_its_key() {
  let p = Prog { n_res: 1, bodies: vec![vec![st(Op::Req(1, OC::Equals))], vec![st(Op::Read(0, RC::Exact))]] };
  let path = vec![set(0, Some(0)), td(&[0]), set(0, Some(1)), td(&[1]), PEvent::plain(Event::BottomUp { pre: vec![], reported: vec![0], then: vec![], builds: 1 })];
  let j = judge_path(&p, classify(&p), &cfg(Prop::C03, 5), &path, 0);
  assert!(!j.findings.is_empty());
  assert!(j.findings.iter().all(|f| f.key == "C03/stale-before-bottom-up"), "{:?}", j.findings);
}

#[test]
fn f3_overlap_witness_still_carries_its_key() {
  let p = Prog { n_res: 2, bodies: vec![vec![st(Op::Read(1, RC::Exact)), sg(1, Op::Write(0, Src::One, RC::Exact))], vec![st(Op::Read(1, RC::Exact)), sg(0, Op::Write(0, Src::Acc, RC::Exact))]] };
  let path = vec![set(1, Some(0)), td(&[1]), set(1, Some(1)), td(&[0])];
  let j = judge_path(&p, classify(&p), &cfg(Prop::C20, 4), &path, 0);
  assert_eq!(j.findings.len(), 1, "{:?}", j.findings);
  assert_eq!(j.findings[0].key, "C20/stale-edge/overlap");
}

#[test]
fn clean_chain_raises_nothing_under_every_history_property() {
  let p = Prog { n_res: 1, bodies: vec![vec![st(Op::Req(1, OC::Equals)), st(Op::Read(0, RC::Exact))], vec![st(Op::Write(0, Src::One, RC::Exact))]] };
  let path = vec![td(&[0]), set(0, Some(0)), td(&[0]), PEvent::plain(Event::BottomUp { pre: vec![], reported: vec![], then: vec![0], builds: 1 })];
  for prop in [Prop::C01, Prop::C02, Prop::C03, Prop::C04, Prop::C05, Prop::C06, Prop::C07, Prop::C08, Prop::C09, Prop::C17, Prop::C18, Prop::C19, Prop::C20] {
    let j = judge_path(&p, classify(&p), &cfg(prop, 4), &path, 0);
    assert!(j.findings.is_empty(), "{:?}: {:?}", prop, j.findings);
  }
}
