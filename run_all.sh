#!/bin/bash
# Runs every registered check (quick by default) on /repo's current tree, prints one line each, validates evidence.
TIER=${1:-quick}
cd /verif
fail=0
for p in $(python3 -c "import json;print(' '.join(c['property_id'] for c in json.load(open('MANIFEST.json'))['checks']))"); do
  s=$(date +%s)
  out=$(./check $p $TIER 2>&1); code=$?
  e=$(( $(date +%s) - s ))
  kf=$(echo "$out" | grep -c "^KNOWN-FINDING")
  echo "$p $TIER exit=$code ${e}s known_findings=$kf $(echo "$out" | tail -1 | cut -c1-100)"
  [ $code -ne 0 ] && fail=1
done
python3-vt - <<'PY'
import json,jsonschema,glob
sch=json.load(open('/root/.vp/EVIDENCE.schema.json'))
for f in sorted(glob.glob('/verif/evidence/*.json')):
    jsonschema.validate(json.load(open(f)),sch)
jsonschema.validate(json.load(open('/verif/MANIFEST.json')),json.load(open('/root/.vp/MANIFEST.schema.json')))
print('evidence + manifest validate')
PY
exit $fail
