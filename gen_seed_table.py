#!/usr/bin/env python3
"""Regenerates the seeded-changes table of DESIGN.md section 8 from /verif/seeded/*/meta.json and own/results.json."""
import json,glob,os,re
rows=[]
desc={}
if os.path.exists('/verif/seeded/descriptions.json'): desc=json.load(open('/verif/seeded/descriptions.json'))
for d in sorted(glob.glob('/verif/seeded/C*-*')):
    m=json.load(open(d+'/meta.json')); name=os.path.basename(d)
    caught=[c for c,r in m['quick_checks_run_against_it'].items() if r['exit']==1]
    missed=[c for c,r in m['quick_checks_run_against_it'].items() if r['exit']==0]
    extra=m.get('thorough_checks_run_against_it',{})
    caught_t=[c for c,r in extra.items() if r['exit']==1]
    missed_t=[c for c,r in extra.items() if r['exit']==0]
    first=''
    for c in caught:
        fv=m['quick_checks_run_against_it'][c]['first_violation']
        mo=re.search(r'oracle=(\S+)',fv)
        if mo: first=mo.group(1); break
    s=', '.join(caught) if caught else '—'
    if caught_t: s+=' (thorough: '+', '.join(caught_t)+')'
    n=', '.join(missed)
    if missed_t: n+=(' ' if n else '')+'(thorough: '+', '.join(missed_t)+')'
    rows.append(f"| {name} (independent) | {desc.get(name,'see seeded/'+name+'/README.md')} | {s} | {first} | {n or '—'} |")
own=json.load(open('/verif/seeded/own/results.json')) if os.path.exists('/verif/seeded/own/results.json') else {}
for k in sorted(own):
    r=own[k]; caught=[c for c,x in r['checks'].items() if x['exit']==1]; missed=[c for c,x in r['checks'].items() if x['exit']==0]
    first=''
    for c in caught:
        mo=re.search(r'oracle=(\S+)',r['checks'][c]['first_violation'])
        if mo: first=mo.group(1); break
    rows.append(f"| own/{k} | {desc.get('own/'+k, r.get('note','own mutant, see seeded/own/'+k+'.diff'))} | {', '.join(caught) or '—'} | {first} | {', '.join(missed) or '—'} |")
table="| change | what it does | caught by (quick) | first oracle | run but silent |\n|---|---|---|---|---|\n"+"\n".join(rows)
s=open('/verif/DESIGN.md').read()
b='<!-- SEEDED_TABLE_BEGIN -->'; e='<!-- SEEDED_TABLE_END -->'
if '@@SEEDED_TABLE@@' in s: s=s.replace('@@SEEDED_TABLE@@',b+'\n'+e)
i=s.index(b); j=s.index(e)
s=s[:i+len(b)]+'\n'+table+'\n'+s[j:]
open('/verif/DESIGN.md','w').write(s)
print(len(rows),'rows')
