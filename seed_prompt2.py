#!/usr/bin/env python3
"""Second-round seeding prompt: property text + worktree + a list of change ideas already used (to be avoided)."""
import json,sys,subprocess
pid=sys.argv[1]; wt=sys.argv[2]; V1=sys.argv[3] if len(sys.argv)>3 else "c"; V2=sys.argv[4] if len(sys.argv)>4 else "d"
base=subprocess.run(['python3','/verif/seed_prompt.py',pid,wt],capture_output=True,text=True).stdout
d=json.load(open('/verif/seeded/descriptions.json'))
used=[v for k,v in sorted(d.items()) if not k.startswith('own/')]
extra="\n\nIMPORTANT additional constraint for this round: other developers already produced the following regressions for this code base; yours (A and B) must be DIFFERENT in mechanism and location from all of them (do not touch the same condition/statement, and do not rely on the same trigger):\n"+"\n".join("  - "+u for u in used)+"\nLook for other places: e.g. the bottom-up `require` path (`make_task_consistent`, `require_scheduled_now`), session-level bookkeeping (`consistent`, `current_executing_task`, `dependency_check_errors`), `update_require_dependency` / `reserve_require_dependency`, the `written_to` route, `Dependency`/`TaskDependency`/`ResourceDependency` methods, `Store` accessors (`get_read_and_write_dependencies_to_resource`, `get_require_dependencies_to_task`, `get_resources_written_by`, …), `Tracking` helpers, `CompositeTracker`, `EventTracker`, `OpenRead`, `MapWriter`, `TypeToAnyMap`, graph iterators and `remove_*` methods — whichever is relevant to the property above. Use `_out/"+V1+"` and `_out/"+V2+"` instead of `_out/a` and `_out/b` for the two deliverable directories (and demo files seed_demo_"+V1+".rs / seed_demo_"+V2+".rs)."
print(base+extra)
